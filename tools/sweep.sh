#!/bin/sh
# usage: tools/sweep.sh "C01 C02 ..." "1 2 3" [parallelism]  -> one summary line per (id, seed)
cd "$(dirname "$0")/.." || exit 2
mkdir -p scratch/sweep
P=${3:-6}
for id in $1; do for s in $2; do echo "$id $s"; done; done | xargs -P "$P" -L 1 sh -c 'VERIF_SEED=$1 PV_SWEEP=1 ./check $0 > scratch/sweep/$0_$1.log 2>&1; echo "$0 seed=$1 rc=$? $(tail -n 1 scratch/sweep/$0_$1.log | cut -c1-160)"'
