#!/bin/sh
# runs the pinned suite on /repo and compares the passing test ids with BASELINE.stable_pass
out=${1:-/verif/.smain/base}
cd /repo && /venv/bin/python -m pytest -ra -q -p no:cacheprovider --timeout=900 --continue-on-collection-errors --junitxml=$out.xml > $out.log 2>&1
/venv/bin/python - "$out.xml" <<'PY'
import json, sys, xml.etree.ElementTree as ET
base = set(json.load(open('/root/.vp/BASELINE.json'))['stable_pass'])
t = ET.parse(sys.argv[1]).getroot()
passed = set()
for tc in t.iter('testcase'):
    if not any(ch.tag in ('failure', 'error', 'skipped') for ch in tc):
        passed.add(f"{tc.get('classname')}::{tc.get('name')}")
missing = sorted(b for b in base if b not in passed and b != '::')
print("passed", len(passed), "baseline", len(base), "missing-from-baseline", len(missing))
for m in missing[:20]:
    print("  MISSING", m)
PY
