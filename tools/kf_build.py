"""Writes /verif/known_findings.json (run by hand with /venv/bin/python; never at check time).

* "fixed" entries document defects repaired by a `fix:` commit in /repo; they suppress nothing.
* known findings are genuine defects recorded instead of repaired; each is matched on the specific clause and
  input features of the bucket, so that any other violation of the same property still alarms.
"""
import json
import os
import subprocess

ROOT = os.path.dirname(os.path.dirname(os.path.abspath(__file__)))

# property each fix commit belongs to (subject prefix -> property, what failed)
FIXED = {
    "merge_rotations no longer empties": ("C18", "merge_rotations emptied the operations list of its input tape (list aliasing)"),
    "cancel_inverses compares array-valued": ("C17", "cancel_inverses raised ValueError on [QubitUnitary(U), adjoint(QubitUnitary(U))]"),
    "pattern_matching_optimization maps": ("C17", "pattern_matching_optimization / match_relative_phase_toffoli / match_controlled_iX_gate put replacement gates on wrong wires or raised when tape.wires was not sorted 0..n-1"),
    "zx optimisation passes return": ("C17", "zx.todd / optimize_t_count / push_hadamards / reduce_non_clifford returned gates on wires 0..n-1 instead of the circuit's labels"),
    "commute_controlled leaves gates": ("C17", "commute_controlled raised QuantumFunctionError for a single-qubit PauliRot next to a controlled gate"),
    "pauli_decompose returns an empty": ("C51", "pauli_decompose(dense zero matrix) raised ValueError"),
    "min_entropy takes the largest": ("C49", "min_entropy ignored the batch dimension"),
    "expand_matrix keeps a batch": ("C49", "expand_matrix dropped a batch dimension of size one"),
    "Prod.matrix places overlapping-wire": ("C03", "Prod.matrix wrong when overlapping-wire groups interleave with other operands, e.g. prod(RX(0.3,4), Z(0), CNOT([1,4]))"),
    "diagonalize_pauli_word keeps": ("C52", "diagonalize_pauli_word(3*I(0)) dropped the coefficient"),
    "CountsMP with explicit eigvals": ("C30", "CountsMP(eigvals=...) lost counts of basis states sharing an eigenvalue"),
    "integer * MeasurementValue": ("C30", "3 * (m - 0.5) truncated the branch values to 0"),
    "operator hashes identify": ("C05", "RX/RY/RZ/Rot/U3 hashed modulo 2*pi: cached results of circuits differing by a 2*pi shift were exchanged (state sign, ctrl(adjoint(RX)) expectation values)"),
    "transform + CompilePipeline keeps": ("C23", "transform + pipeline dropped the pipeline's markers"),
    "CompilePipeline += pipeline is refused": ("C23", "pipeline += pipeline with two terminal transforms raised after copying markers"),
    "CompilePipeline * 0 has no markers": ("C23", "pipeline * 0 kept markers beyond its length"),
    "CompilePipeline.insert normalises": ("C23", "CompilePipeline.insert mishandled negative/large indices, expand_transform slots, marker shifts and refused insertions"),
    "jvp with a zero tangent": ("C39", "jvp zero-tangent shortcut ignored shot vectors"),
    "BoseWord multiplication reads": ("C54", "BoseWord.__mul__ scrambled a right operand built from an unsorted dict"),
    "partial_trace gives einsum": ("C26", "purity / reduced density matrices of 13+ qubit states raised ValueError (implicit einsum output order with upper-case indices)"),
    "Kpq builds Z_1": ("C55", "qp.liealg.CII on a dense matrix in the qubit case always raised"),
    "Exp.pow and Evolution.pow": ("C03", "Exp.pow / Evolution.pow returned a bare operator: pow(lazy=False), Pow.decomposition, simplify raised TypeError"),
    "LinearCombination.simplify handles": ("C03", "LinearCombination.simplify raised TermsUndefinedError when the sum collapses to one operator"),
    "RotoselectOptimizer.step_and_cost": ("C61", "Rotoselect step_and_cost returned the cost with the post-step generators"),
    "RotosolveOptimizer accepts objectives": ("C61", "Rotosolve raised ValueError for objectives with keyword parameters (zip strict)"),
    "RotosolveOptimizer step loop": ("C61", "Rotosolve raised ValueError for objectives with keyword parameters (second zip strict)"),
    "Incrementer fallback decomposition": ("C10", "Incrementer fallback rule never flipped the most significant wire"),
    "map_to_standard_wires keeps": ("C40", "map_to_standard_wires made every parameter trainable"),
    "QuantumScript.bind_new_parameters pairs": ("C40", "bind_new_parameters paired values with sorted(indices)"),
    "trainable_params setter rejects": ("C40", "trainable_params setter accepted index n on a script with n parameters"),
    "default.mixed applies a PhaseShift": ("C28", "default.mixed crashed on PhaseShift with a broadcast parameter of batch size one"),
    "default.mixed honours the wire order": ("C28", "QubitDensityMatrix covering all wires ignored the order of its wires"),
    "default.mixed(readout_prob=p)": ("C28", "default.mixed(readout_prob=p) raised TypeError on every execution"),
    "qp.math.take handles a negative axis": ("C48", "qp.math.take(x, idx, axis<0) under autograd indexed axis 0 (wrong gradients)"),
    "qp.ctrl of a quantum function forwards": ("C11", "qp.ctrl(callable, work_wire_type='zeroed') emitted 'borrowed' Controlled ops, contradicting the declared resources"),
    "generate_shift_rule treats frequencies": ("C35", "generate_shift_rule treated equal-gap frequency sets with an offset, e.g. (2, 3), as equidistant and returned wrong derivatives"),
    "ZOmega division by an integer": ("C16", "ZOmega / int used float division (inexact above 2**53)"),
    "executor submit passes keyword": ("C65", "mp_pool submit(fn, *args, **kwargs) raised TypeError (kwargs passed to Pool.apply)"),
    "executor starmap fallback": ("C65", "starmap on cf_threadpool / cf_procpool: kwargs handed to list(), single-parameter functions called once with all items"),
    "to_openqasm(measure_all=False) measures": ("C67", "to_openqasm(measure_all=False, wires=...) measured q[tape.wires.index(w)] instead of q[wires.index(w)]"),
    "parameter-shift gradients of var(Sum": ("C34", "parameter-shift Jacobian of var(Sum / LinearCombination) ignored the d<A^2> term (wrong by ~2x)"),
    "commute_controlled works on a copy": ("C18", "commute_controlled reordered the operations of its input tape in place"),
    "integer * MeasurementValue accepts plain": ("C21", "KeyError in MeasurementValue.__rmul__ for Python bool branch values (regression of the earlier __rmul__ repair, found by C21)"),
    "GlobalPhase declares ndim_params": ("C33", "GlobalPhase with a batched parameter had batch_size None (wrong values/shapes after decomposing a batched PhaseShift)"),
    "default.clifford maps SX": ("C33", "default.clifford accepted SX in preprocessing and raised 'Gate not found' at execution"),
    "adjoint_jvp / adjoint_vjp bring the tape": ("C73", "adjoint_jvp / adjoint_vjp raised IndexError when tape.wires is a non-standard permutation of 0..n-1"),
    "composite operators use eigh": ("C01", "composite eigendecomposition via eig gave non-unitary diagonalizing gates for degenerate Hermitian sums/products (wrong expval(O @ O))"),
    "default.clifford density_matrix conjugates": ("C70", "default.clifford density_matrix was psi psi^T instead of psi psi^dagger"),
    "fuse_rot_angles clips": ("C17", "single_qubit_fusion produced Rot(.., nan, ..) when rounding pushed the fused cosine magnitude outside [0, 1]"),
    "param_shift_hessian wraps a user-provided f0": ("C37", "param_shift_hessian(tape, f0=...) on a single-measurement tape: wrong diagonal entries (probs) / IndexError (expval)"),
    "Dataset.write / read clear": ("C64", "stale attribute cache after Dataset.read(..., overwrite=True)"),
    "assigning any value to an attribute of a read-only Dataset": ("C64", "read-only Dataset: list/dict/None/tuple/operator assignments leaked raw h5py errors and could poison the handle"),
    "re-assigning an existing Dataset attribute": ("C64", "ds.a = 2 on an existing attribute raised OSError (name already exists)"),
    "default.clifford analytic probs mask": ("C70", "default.clifford analytic probs zeroed states with a different prefix (operator precedence `a & b != c`)"),
    "default.clifford mutual_info subtracts": ("C70", "default.clifford mutual_info returned S(A)+S(B) without -S(AB)"),
    "compute_vjp_multi keeps autograd boxes": ("C37", "nested qp.jacobian (max_diff=2) of a multi-measurement QNode with a gradient transform under autograd returned all zeros"),
    "Prod.simplify kept a stale hash": ("C03", "prod(RX(a), RX(-a), RX(-a)).simplify() returned Identity (stale hash after merging same-axis rotations)"),
    "ChangeOpBasis pauli_rep multiplied": ("C01", "change_op_basis(X, Y, Z).pauli_rep was the product in reversed order (i*I instead of -i*I)"),
    "Z/S/T.pow returned an unqueued copy": ("C41", "qp.pow(Z(0), 3, lazy=False) inside a recording context removed the gate (also S**5, T**9)"),
    "adjoint_jacobian/jvp/vjp lost the parameter index": ("C34", "diff_method='adjoint': RX(x,0); Rot(0.1,0.2,0.3,0) (constant multi-parameter gate after a trainable one) gave gradient 0.0 instead of -0.487"),
    "sparse expectation values dropped a batch axis of size one": ("C28", "expval(LinearCombination / SparseHamiltonian) with a broadcast parameter of batch size one returned shape () instead of (1,) on default.qubit and default.mixed (math.squeeze in csr_dot_products)"),
    "is_commuting ignored the control wires": ("C08", "is_commuting(adjoint(ctrl(SX(0), control=['x', 3])), X('x')) returned True (control wires of a wrapped controlled operator treated as targets)"),
    "split_non_commuting took the grouping shortcut": ("C20", "split_non_commuting(qwc/default) raised ValueError for expval of a Sum whose non-Pauli term has coefficient 0: 0.5*(0.66*I(3) + 0.0*H(1)) + I(1)"),
    "diagonalize_measurements silently rotated wires": ("C20", "diagonalize_measurements: expval(0.59*Y(0) - 0.37*Hermitian(A, 0)) and [expval(X(0)), var(Projector([0], 0))] were returned with the Hermitian/Projector untouched on a rotated wire (wrong values, no error)"),
    "clifford_t_decomposition maps PhaseShift(3 pi/4)": ("C15", "clifford_t_decomposition mapped PhaseShift(3pi/4) / PhaseShift(5pi/4) to a bare T-adjoint / T (error 2.0)"),
    "IntegerComparator(geq=False) matrix": ("C10", "IntegerComparator(value > 2**n, geq=False).matrix() raised ValueError"),
    "controlled_resource_rep kept a raw PowOperation/AdjointOperation base class": ("C11", "ctrl_single_work_wire on Controlled(CPhaseShift00(0.3,[0,1])**3, control_wires=['a','b','c'], control_values=[1,0,0], work_wires=['w']) called with op.resource_params (as assert_valid does) declared Controlled(base_class=PowOperation) but emits Controlled(base_class=Pow): controlled_resource_rep(**p) != resource_rep(Controlled, **p) although both print identically"),
}

KNOWN = [
    ("C72", "docstring-formula", {"fn": ["mis", "mvc", "clique"], "constrained": False},
     "unconstrained max_independent_set / min_vertex_cover / max_clique apply 3*edge_driver (penalty 0.75*sum) while the docstring formula says 3*sum; ground states are still the optimal feasible sets"),
    ("C69", "hamiltonian", {"kind": "kitaev", "single_cell_axis": True}, "qp.spin.kitaev with a single-cell axis adds a spurious bond (hard-coded custom edge indices)"),
    ("C69", "kitaev-small-lattice", {"kind": "kitaev", "single_cell_axis": True}, "qp.spin.kitaev([1, m]) raises ValueError for a valid lattice size"),
    ("C69", "scalar-parameter-rejected", {"scalar_with_order": True}, "transverse_ising / fermi_hubbard / emery reject a scalar coupling when neighbour_order > 1 although a number is documented as valid"),
    ("C61", "cost-pre-step", {"opt": "NesterovMomentum", "grad_fn": False}, "NesterovMomentumOptimizer.step_and_cost returns the cost at the shifted point x - m*a, not at the pre-step arguments"),
    ("C52", "group-relation", {"gtype": "anticommuting", "no_wire_identity": True}, "group_observables(..., 'anticommuting') puts a wire-less identity into the first group although it anticommutes with nothing"),
    ("C55", "closure-raises", {"form": "matrix-dense"}, "lie_closure(matrix=True) on dense inputs: single-pass Gram-Schmidt inflates the basis and then raises ValueError for exactly Hermitian generators (about 1 in 2000 cases)"),
    ("C55", "unexpected-exception", {"where": "lie_closure.py:_hermitian_basis"}, "lie_closure(matrix=True) on dense inputs: single-pass Gram-Schmidt inflates the basis and then raises ValueError for exactly Hermitian generators (about 1 in 2000 cases)"),
    ("C49", "relative-entropy", {"fn": "relative_entropy", "deficient": True, "diagonal": False}, "relative_entropy returns nan/inf on rank-deficient non-diagonal states (exact == 0 tests on eigenvalues)"),
    ("C30", "batch1-squeezed", {"batch": 1}, "expval/var/probs.process_samples squeeze away a batch axis of size one"),
    ("C30", "counts", {"target": "mvlist", "mode": "counts"}, "counts([m0, m1]).process_counts treats a list of measurement values as an observable (integer keys)"),
    ("C30", "shape", {"target": "mvlist", "mode": "counts"}, "sample([m0, m1]).process_counts returns shape (shots,) instead of (shots, 2)"),
    ("C39", "unexpected-exception", {"fn": "batch_jvp", "reduction": "extend", "scalar": True}, "batch_jvp(reduction='extend') raises TypeError when a tape's JVP is a scalar"),
    ("C48", "interface-error", {"fn": "scatter", "iface": "autograd"}, "qp.math.scatter has no autograd implementation"),
    ("C48", "interface-error", {"fn": "sort", "iface": "torch"}, "qp.math.sort(torch_tensor, axis=k) raises TypeError (wrapper drops axis)"),
    ("C48", "gradient-error", {"fn": "norm", "iface": "autograd"}, "qp.math.norm(x, axis=k) cannot be differentiated with autograd"),
    ("C48", "gradient-error", {"fn": "fidelity.param", "iface": "torch"}, "qp.math.fidelity with a trainable torch state and a numpy second state raises TypeError (second state not converted to torch)"),
    ("C48", "gradient-error", {"fn": "diagonal", "iface": "autograd"}, "qp.math.diagonal inside an autograd trace ignores / rejects the offset argument"),
    ("C16", None, {"sig": "dyadic:mult2k"}, "DyadicMatrix.mult2k(k) does not multiply by 2**k (unused in the repository)"),
    ("C16", None, {"sig": "zs2:sqrt-raises"}, "ZSqrtTwo.sqrt() raises ValueError for negative arguments instead of returning None (also crashes _solve_diophantine(ZSqrtTwo(-3, 0)))"),
    ("C16", None, {"sig": "dyadic:eq-noncanonical:k<=0"}, "equal-valued DyadicMatrix objects compare unequal for k <= 0 (sqrt(2) factor only stripped while k > 0)"),
    ("C45", None, {"sig": "indices-str"}, "Wires.indices('ab') iterates a string label character by character although str is documented as accepted"),
    ("C08", "says-commute-but-matrices-do-not", {"sig": "re:(CSWAP|SWAP|ISWAP|SISWAP|PSWAP)\\|(CSWAP|SWAP|ISWAP|SISWAP|PSWAP)"},
     "is_commuting returns True for SWAP-family gates with partial wire overlap, e.g. CSWAP([0,1,2]) vs SWAP([2,3]) or PSWAP vs an overlapping PSWAP (lookup table ignores wire alignment)"),
    ("C11", "emitted-type-not-declared", {"sig": "re:(generic:)?ctrl_single_work_wire.*"}, "ctrl_single_work_wire declares user work wires on the inner controlled ops but emits them without work wires"),
    ("C11", "exact-count-mismatch", {"sig": "re:QAOAEmbedding:_qaoa_embedding_decomposition.*"}, "QAOAEmbedding on one wire declares `repeat` MultiRZ gates but emits none"),
    ("C11", "emitted-type-not-declared", {"sig": "any:only-mcx_alias-differs"}, "rules emit CNOT/Toffoli (qp.ctrl dispatch) where the resources declare MultiControlledX on 2/3 wires"),
    ("C11", "emitted-type-not-declared", {"sig": "re:OutMultiplier:_out_multiplier_with_qft.*"}, "OutMultiplier QFT rule with one output wire emits ChangeOpBasis(compute_op=Hadamard) but declares compute_op=Prod"),
    ("C11", "emitted-type-not-declared", {"sig": "re:QROM:_qrom_decomposition.*"}, "adjoint(controlled(QROM rule)): nested Prod resources key Identity by representation vs class"),
    ("C11", "emitted-type-not-declared", {"sig": "re:generic:decompose_select_pauli_rot.*"}, "SelectPauliRot with all-zero angles emits a Prod without the declared RZ type"),
    ("C11", "emitted-type-not-declared", {"sig": "re:generic:flip_control_adjoint.*"}, "flip_control_adjoint on C(Adjoint(PhaseShift)) emits Adjoint(ControlledPhaseShift), not among the declared types"),
    ("C67", "for-range-exclusive", {"for_range_exclusive": True}, "from_qasm3 runs `for i in [a:b]` without the end point b (OpenQASM 3 ranges are inclusive)"),
    ("C67", "import-wires", {"decl": "indexed", "custom_gate": True}, "from_qasm3: a user-defined gate applied to indexed register qubits (q[0], q[1]) acts on wires named after the gate's formal parameters"),
    ("C67", "unexpected-exception", {"where": "qasm_interpreter.py:_bind_quantum_parameter"}, "from_qasm3: a user-defined gate applied to indexed register qubits raises ValueError ('r0' is not in list) when nested in control flow"),
    ("C12", "outside-gate-set", {"graph": True, "kept_unsolved": True}, "decompose with the graph system and strict=True keeps an operator without a decomposition path in the output with a warning instead of raising DecompositionError (strict not forwarded)"),
    ("C12", "resource-estimate-mismatch", {"op": "C(Adjoint(Hadamard))"}, "DecompGraphSolution.resource_estimate(ctrl(adjoint(H))) differs from the emitted gates: flip_control_adjoint declares Adjoint(Controlled(H)) but qp.ctrl emits Adjoint(CH)"),
    ("C14", "matrix-mismatch", {"kind": "two", "perturbed": True, "path": [0, 2]}, "two_qubit_decomposition loses accuracy (errors 1e-6 .. 1.5) for unitaries within ~1e-3 of the 0-CNOT class (tolerance on tr gamma) or near degenerate spectra on the 2-CNOT path"),
    ("C14", "non-unitary-block", {"kind": "two"}, "two_qubit_decomposition emits non-unitary QubitUnitary blocks for near-boundary inputs (same root cause as the accuracy loss)"),
    ("C15", "precision", {"fn": "rs", "eps_below_3e-7": True}, "rs_decomposition silently returns ~1e-3..1e-4 approximations for eps below ~3e-7 (frequent below 5e-8), independent of the trial budgets"),
    ("C28", "kraus-channel", {"channel": "ThermalRelaxationError", "regime": "t2>t1,tg>4*t2"}, "ThermalRelaxationError Kraus operators are not trace preserving for T2 > T1 and tg >> T2 (stability epsilon dominates)"),
    ("C28", "kraus-complete", {"channel": "ThermalRelaxationError", "regime": "t2>t1,tg>4*t2"}, "ThermalRelaxationError Kraus operators are not trace preserving for T2 > T1 and tg >> T2 (stability epsilon dominates)"),
]


def main():
    log = subprocess.run(["git", "-C", "/repo", "log", "--format=%h %s"], capture_output=True, text=True).stdout.strip().split("\n")
    findings = []
    unmatched = []
    for line in reversed(log):
        h, subj = line.split(" ", 1)
        if not subj.startswith("fix:"):
            continue
        for key, (prop, what) in FIXED.items():
            if key in subj:
                findings.append({"fixed": f"property={prop} {h} {what}"})
                break
        else:
            unmatched.append(line)
    for prop, clause, match, what in KNOWN + EXTRA_KNOWN:
        findings.append({"property": prop, "clause": clause, "match": match, "what": what})
    json.dump({"findings": findings}, open(os.path.join(ROOT, "known_findings.json"), "w"), indent=1)
    print(len(findings), "entries;", "fix commits without a FIXED entry:", unmatched)


EXTRA_KNOWN = []
import glob  # noqa: E402

for _f in sorted(glob.glob(os.path.join(ROOT, "tools", "kf_extra_*.json"))):
    for _e in json.load(open(_f)):
        EXTRA_KNOWN.append((_e["property"], _e["clause"], _e["match"], _e["what"]))

# fixed entries recorded by triage agents: tools/kf_fixed_*.json = [{"subject": <substring of the fix commit subject>, "property": id, "what": text}]
for _f in sorted(glob.glob(os.path.join(ROOT, "tools", "kf_fixed_*.json"))):
    for _e in json.load(open(_f)):
        FIXED[_e["subject"]] = (_e["property"], _e["what"])

if __name__ == "__main__":
    main()
