#!/bin/sh
# Re-applies every seeded change to a scratch worktree of the current /repo HEAD and runs its property's quick check (seed 1)
# against it; writes seeded/MATRIX.md (one line per change: applies? violations reported).
cd "$(dirname "$0")/.." || exit 2
mkdir -p .smain/matrix
ls -d seeded/C* | xargs -P ${1:-6} -I{} sh -c '
  d={}; name=$(basename $d); id=$(echo $name | cut -c1-3); wt=/tmp/mx_$name
  git -C /repo worktree add --detach $wt HEAD -q 2>/dev/null
  if git -C $wt apply $PWD/$d/patch.diff 2>/dev/null || git -C $wt apply --3way $PWD/$d/patch.diff 2>/dev/null; then
    VERIF_SEED=1 PV_REPO=$wt ./check $id > .smain/matrix/$name.log 2>&1; rc=$?
    n=$(grep -c "^VIOLATION" .smain/matrix/$name.log)
    echo "| $name | $id | applies | rc=$rc | $n |" > .smain/matrix/$name.row
  else
    echo "| $name | $id | patch no longer applies to HEAD | - | - |" > .smain/matrix/$name.row
  fi
  git -C /repo worktree remove --force $wt 2>/dev/null'
{ echo "# Seeded changes re-applied to the final tree"; echo; echo "Each change under seeded/ was applied to a scratch worktree of the final /repo HEAD and its property's quick check was run against it (VERIF_SEED=1, PV_REPO=<worktree>)."; echo; echo "| change | check | patch | exit | VIOLATION lines |"; echo "|---|---|---|---|---|"; cat .smain/matrix/*.row; } > seeded/MATRIX.md
grep -c "applies | rc=1" seeded/MATRIX.md; grep -v "rc=1" seeded/MATRIX.md | grep "^| C"
