"""Regenerate MANIFEST.json from the property modules present under pv/props (run with /venv/bin/python)."""
import importlib
import json
import os
import sys

ROOT = os.path.dirname(os.path.dirname(os.path.abspath(__file__)))
sys.path.insert(0, ROOT)
from pv import engine  # noqa: E402

engine.setup_env()
props = [json.loads(l) for l in open(os.path.join(ROOT, "properties.jsonl"))]
NA_REASONS = json.load(open(os.path.join(ROOT, "tools", "not_applicable.json")))
REGISTERED = set(open(os.path.join(ROOT, "tools", "registered.txt")).read().split())
mods = {}
for fn in sorted(os.listdir(os.path.join(ROOT, "pv", "props"))):
    if fn.startswith("c") and fn.endswith(".py") and fn[:3].upper() in REGISTERED:
        m = importlib.import_module("pv.props." + fn[:-3])
        mods[m.ID] = m
checks, na = [], []
for p in props:
    pid = p["id"]
    m = mods.get(pid)
    if m is None:
        na.append({"property_id": pid, "reason": NA_REASONS.get(pid, "no generated-input check has been built for this property yet (planned in DESIGN.md section 3); nothing is claimed")})
        continue
    checks.append({
        "property_id": pid,
        "quick_cmd": f"./check {pid} --tier quick",
        "thorough_cmd": f"./check {pid} --tier thorough",
        "evidence_file": f"evidence/{pid}.json",
        "replay_cmd_template": f"./check {pid} --replay {{path}}",
        "engine": "pv",
        "level_claimed": {
            "category": "exploration",
            "text": getattr(m, "LEVEL_TEXT", "Generated-input search (Hypothesis strategies; exhaustive enumeration of the finite sub-domains named in the rule) against an independent oracle; bounded sizes and case counts, no absence claim. " + m.RULE)[:1500],
            "design_ref": f"DESIGN.md section 3, {pid}",
        },
        "level_note": "Trusted base: numpy/scipy linear algebra, the reference models under pv/ref, Hypothesis generation. " + " ".join(getattr(m, "ASSUMPTIONS", [])),
        "technique": m.TECHNIQUE,
    })
man = {
    "version": 1,
    "setup_cmd": "./setup.sh",
    "hooks": {
        "guard": "PENNYLANE_VERIF",
        "enable": "no hooks are needed: checks import pennylane from /repo's working tree (editable install), nothing is built",
        "baseline_off_cmd": "cd /repo && /venv/bin/python -m pytest -ra -q -p no:cacheprovider --timeout=900 --continue-on-collection-errors",
        "source_commits": [],
        "add_only": True,
    },
    "engines": [{"name": "pv", "path": "pv/engine.py", "serves_properties": sorted(mods),
                 "kind_free_text": "Hypothesis-driven survey engine: spec-first generation, verdict bucketing, known-finding matching, structural shrinking, replay files"}],
    "checks": checks,
    "not_applicable": na,
    "notes": "All checks: exit 0 held, exit 1 + VIOLATION line, exit 2 harness error. VERIF_SEED selects the Hypothesis seed.",
}
json.dump(man, open(os.path.join(ROOT, "MANIFEST.json"), "w"), indent=1)
import jsonschema
jsonschema.validate(man, json.load(open("/root/.vp/MANIFEST.schema.json")))
print("claimed", len(checks), "not_applicable", len(na))
