#!/bin/sh
# usage: tools/try_seed.sh <seed-name> <worktree> <outdir> "<check ids>" ["seeds"]
# verifies the demo (fails with change, passes on /repo), stores the seed under seeded/<name>/ and runs the checks
# against the worktree that has the change applied (PV_REPO), printing one line per (check, seed).
cd "$(dirname "$0")/.." || exit 2
name=$1; wt=$2; out=$3; ids=$4; seeds=${5:-1}
mkdir -p seeded/$name
cp $out/patch.diff $out/demo.py $out/meta.json seeded/$name/ 2>/dev/null
(cd $wt && PYTHONPATH=$wt timeout 600 /venv/bin/python $out/demo.py > /dev/null 2>&1; echo "demo with change: exit $?")
(cd /repo && timeout 600 /venv/bin/python $out/demo.py > /dev/null 2>&1; echo "demo on /repo: exit $?")
for id in $ids; do for s in $seeds; do
  VERIF_SEED=$s PV_REPO=$wt ./check $id > scratch/seed_${name}_${id}_$s.log 2>&1; rc=$?
  echo "$name $id seed=$s rc=$rc $(grep -c '^VIOLATION' scratch/seed_${name}_${id}_$s.log) violations: $(grep -m2 'clause=' scratch/seed_${name}_${id}_$s.log | cut -c1-160 | tr '\n' ' ')"
done; done
