#!/bin/sh
# usage: tools/thorough.sh "<ids>" [seed]   -- runs the thorough tier sequentially, one log per check under .smain/
cd "$(dirname "$0")/.." || exit 2
mkdir -p .smain
for id in $1; do
  s=$(date +%s)
  VERIF_SEED=${2:-1} ./check $id --tier thorough > .smain/thorough_$id.log 2>&1; rc=$?
  echo "$id rc=$rc $(( $(date +%s) - s ))s $(grep -c '^VIOLATION' .smain/thorough_$id.log) viol $(tail -1 .smain/thorough_$id.log | cut -c1-160)" >> .smain/thorough_summary.txt
done
