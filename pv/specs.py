"""JSON case specs <-> PennyLane objects.

Operator spec:   {"op": NAME, "p": [param...], "w": [wire...], "kw": {...}}
Param encodings: number | list (array / batch) | {"U": [floats], "n": k} Haar-like unitary on k qubits |
                 {"H": [floats], "n": k} Hermitian | {"vec": [floats], "n": k} normalised complex vector |
                 {"c": [re, im]} complex scalar | {"carr": [[re, im], ...]} complex array
Wrappers:        {"op": "adjoint"|"pow"|"ctrl"|"prod"|"sum"|"s_prod"|"exp", ...}
Measurement:     {"mp": "expval"|"var"|"probs"|"state"|"density_matrix"|"sample"|"counts"|"purity"|
                  "vn_entropy"|"mutual_info", "obs": opspec | None, "w": [...]}
Circuit:         {"ops": [...], "meas": [...], "shots": None|int|list}
"""
import numpy as np


def wire(w):
    return tuple(w) if isinstance(w, list) else w


def unitary_from_floats(fl, n):
    d = 2**n
    need = 2 * d * d
    fl = list(fl)
    vals = np.array([fl[i % len(fl)] + 0.37 * (i // len(fl)) for i in range(need)], dtype=float) if fl else np.ones(need)
    A = (vals[: d * d] + 1j * vals[d * d:]).reshape(d, d) + 1e-3 * np.eye(d)
    Q, R = np.linalg.qr(A)
    ph = np.diag(R) / np.abs(np.diag(R))
    return Q * ph


def hermitian_from_floats(fl, n):
    d = 2**n
    need = 2 * d * d
    fl = list(fl)
    vals = np.array([fl[i % len(fl)] + 0.11 * (i // len(fl)) for i in range(need)], dtype=float) if fl else np.ones(need)
    A = (vals[: d * d] + 1j * vals[d * d:]).reshape(d, d)
    return (A + A.conj().T) / 2


def vec_from_floats(fl, n, real=False):
    d = 2**n
    fl = list(fl)
    vals = np.array([fl[i % len(fl)] + 0.13 * (i // len(fl)) for i in range(2 * d)], dtype=float) if fl else np.ones(2 * d)
    v = vals[:d] + (0 if real else 1j * vals[d:])
    if np.linalg.norm(v) < 1e-6:
        v = np.ones(d, dtype=complex)
    return v / np.linalg.norm(v)


def param(p):
    if isinstance(p, dict):
        if "U" in p:
            return unitary_from_floats(p["U"], p["n"])
        if "H" in p:
            return hermitian_from_floats(p["H"], p["n"])
        if "vec" in p:
            return vec_from_floats(p["vec"], p["n"], p.get("real", False))
        if "c" in p:
            return complex(p["c"][0], p["c"][1])
        if "carr" in p:
            a = np.array(p["carr"], dtype=float)
            return a[..., 0] + 1j * a[..., 1]
        if "phases" in p:
            return np.exp(1j * np.array(p["phases"], dtype=float))
        if "Udim" in p:
            d = p["d"]
            fl = list(p["Udim"])
            vals = np.array([fl[i % len(fl)] + 0.29 * (i // len(fl)) for i in range(2 * d * d)], dtype=float)
            A = (vals[: d * d] + 1j * vals[d * d:]).reshape(d, d) + 1e-3 * np.eye(d)
            Q, R = np.linalg.qr(A)
            return Q * (np.diag(R) / np.abs(np.diag(R)))
        if "mat" in p:
            r, c = p["r"], p["c"]
            fl = list(p["mat"])
            vals = np.array([fl[i % len(fl)] + 0.17 * (i // len(fl)) for i in range(r * c)], dtype=float)
            return vals.reshape(r, c)
        if "int" in p:
            return int(p["int"])
        raise ValueError(p)
    if isinstance(p, list):
        return np.array([param(x) for x in p]) if p and isinstance(p[0], (dict, list)) else np.array(p)
    return p


def build_op(s):
    import pennylane as qp

    kind = s["op"]
    if kind == "adjoint":
        return qp.adjoint(build_op(s["base"]), lazy=s.get("lazy", True))
    if kind == "pow":
        return qp.pow(build_op(s["base"]), s["z"], lazy=s.get("lazy", True))
    if kind == "ctrl":
        kw = {}
        if s.get("ww"):
            kw["work_wires"] = [wire(w) for w in s["ww"]]
        if s.get("wwt"):
            kw["work_wire_type"] = s["wwt"]
        return qp.ctrl(build_op(s["base"]), control=[wire(w) for w in s["cw"]], control_values=s.get("cv"), **kw)
    if kind == "prod":
        return qp.prod(*[build_op(o) for o in s["operands"]])
    if kind == "sum":
        return qp.sum(*[build_op(o) for o in s["operands"]])
    if kind == "s_prod":
        return qp.s_prod(param(s["c"]), build_op(s["base"]))
    if kind == "exp":
        return qp.exp(build_op(s["base"]), param(s["c"]))
    if kind == "lincomb":
        return qp.ops.LinearCombination([param(c) for c in s["coeffs"]], [build_op(o) for o in s["operands"]])
    if kind == "Snapshot":
        return qp.Snapshot(s.get("kw", {}).get("tag"))
    cls = getattr(qp, kind, None) or getattr(qp.ops, kind, None) or getattr(qp.templates, kind)
    ps = [param(p) for p in s.get("p", [])]
    kw = {k: (param(v) if isinstance(v, dict) else v) for k, v in s.get("kw", {}).items()}
    if "work_wires" in kw:
        kw["work_wires"] = [wire(w) for w in kw["work_wires"]]
    ws = [wire(w) for w in s["w"]]
    if kind == "SelectPauliRot":
        return cls(*ps, control_wires=[wire(w) for w in kw["control_wires"]], target_wire=wire(kw["target_wire"]), rot_axis=kw["rot_axis"])
    return cls(*ps, wires=ws, **kw)


def build_meas(m):
    import pennylane as qp

    kind = m["mp"]
    obs = build_op(m["obs"]) if m.get("obs") else None
    ws = [wire(w) for w in m["w"]] if m.get("w") is not None else None
    if kind == "expval":
        return qp.expval(obs)
    if kind == "var":
        return qp.var(obs)
    if kind == "probs":
        return qp.probs(op=obs) if obs is not None else (qp.probs(wires=ws) if ws is not None else qp.probs())
    if kind == "state":
        return qp.state()
    if kind == "density_matrix":
        return qp.density_matrix(wires=ws)
    if kind == "sample":
        return qp.sample(op=obs) if obs is not None else (qp.sample(wires=ws) if ws is not None else qp.sample())
    if kind == "counts":
        kw = {"all_outcomes": m.get("all_outcomes", False)}
        return qp.counts(op=obs, **kw) if obs is not None else qp.counts(wires=ws, **kw)
    if kind == "purity":
        return qp.purity(wires=ws)
    if kind == "vn_entropy":
        return qp.vn_entropy(wires=ws, log_base=m.get("log_base"))
    if kind == "mutual_info":
        return qp.mutual_info(wires0=[wire(w) for w in m["w0"]], wires1=[wire(w) for w in m["w1"]], log_base=m.get("log_base"))
    raise ValueError(kind)


def build_tape(c):
    import pennylane as qp

    ops = [build_op(o) for o in c["ops"]]
    meas = [build_meas(m) for m in c.get("meas", [])]
    shots = c.get("shots")
    if isinstance(shots, list):
        shots = [tuple(x) if isinstance(x, list) else x for x in shots]
    t = qp.tape.QuantumScript(ops, meas, shots=shots)
    if c.get("trainable") is not None:
        t.trainable_params = list(c["trainable"])
    return t


def spec_wires(c):
    """Ordered list of wires appearing in a circuit/op spec (first occurrence order)."""
    seen = []

    def visit(s):
        if isinstance(s, dict):
            for k in ("cw", "w", "ww", "w0", "w1"):
                for w in s.get(k) or []:
                    w = wire(w)
                    if w not in seen:
                        seen.append(w)
            kw = s.get("kw") or {}
            for w in list(kw.get("control_wires") or []) + ([kw["target_wire"]] if "target_wire" in kw else []) + list(kw.get("work_wires") or []):
                w = wire(w)
                if w not in seen:
                    seen.append(w)
            for k in ("base", "obs"):
                if s.get(k):
                    visit(s[k])
            for k in ("operands", "ops", "meas"):
                for o in s.get(k) or []:
                    visit(o)

    visit(c)
    return seen
