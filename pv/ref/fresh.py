"""Confirm a suspected violation in a fresh interpreter.

Many cases share one process; tracing frameworks (jax callbacks, autograd boxes, torch hooks) and PennyLane's global
queuing state make it possible that an earlier failed case disturbs a later one. A property module may therefore ask
for a violation to be reproduced by a fresh process before it is reported:

    confirm(module_id, spec, key)   -> True  reproduced (or already reproduced for `key` in this run / inside the child)
                                       False the fresh process evaluated the spec without a violation
"""
import json
import os
import subprocess
import sys

_CONFIRMED = set()
_CHILD = "PV_FRESH_CHILD"

_CODE = r"""
import json, sys
from pv import engine
engine.setup_env()
mod = engine.load(sys.argv[1])
spec = json.load(open(sys.argv[2]))
status, payload = engine.evaluate(mod, spec)
print("FRESH", status, getattr(payload, "clause", ""), getattr(payload, "sig", ""))
sys.exit(1 if status == "violation" else 2 if status == "error" else 0)
"""


def in_child():
    return bool(os.environ.get(_CHILD))


def confirm(module_id, spec, key):
    if in_child() or key in _CONFIRMED:
        return True
    root = os.path.dirname(os.path.dirname(os.path.dirname(os.path.abspath(__file__))))
    d = os.path.join(root, "scratch")
    os.makedirs(d, exist_ok=True)
    path = os.path.join(d, f"fresh_{module_id}_{os.getpid()}.json")
    with open(path, "w") as f:
        json.dump(spec, f)
    env = dict(os.environ)
    env[_CHILD] = "1"
    try:
        r = subprocess.run([sys.executable, "-c", _CODE, module_id, path], cwd=root, env=env, capture_output=True, text=True, timeout=600)
        rc = r.returncode
    except subprocess.TimeoutExpired:
        rc = 1
    finally:
        try:
            os.remove(path)
        except OSError:
            pass
    if rc == 0:
        return False
    _CONFIRMED.add(key)
    return True
