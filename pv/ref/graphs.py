"""Brute-force graph objectives and a tiny dense Pauli-sentence evaluator (numpy only).

Conventions: a register is an ordered list of wire labels `order`; basis state index k has bit j
(= computational value of wire order[j]) equal to (k >> (n-1-j)) & 1, i.e. order[0] is the most significant.
A Pauli sentence is a dict {frozenset({(wire, 'X'|'Y'|'Z'), ...}): coeff}; the empty frozenset is the identity.
"""
import itertools

import numpy as np

_P = {
    "I": np.eye(2, dtype=complex),
    "X": np.array([[0, 1], [1, 0]], dtype=complex),
    "Y": np.array([[0, -1j], [1j, 0]], dtype=complex),
    "Z": np.array([[1, 0], [0, -1]], dtype=complex),
}


def bits(n):
    """(2^n, n) int array, row k = bits of k, column 0 most significant."""
    k = np.arange(2**n)[:, None]
    return ((k >> np.arange(n - 1, -1, -1)[None, :]) & 1).astype(np.int64)


def sentence(ps, tol=0.0):
    """PennyLane PauliSentence (mapping PauliWord -> coeff, PauliWord mapping wire -> letter) -> plain dict."""
    out = {}
    for pw, c in ps.items():
        key = frozenset((w, str(p)) for w, p in pw.items() if str(p) != "I")
        out[key] = out.get(key, 0) + complex(c)
    return {k: v for k, v in out.items() if abs(v) > tol}


def add_word(sent, coeff, letters):
    """letters: iterable of (wire, letter) on distinct wires."""
    key = frozenset((w, p) for w, p in letters if p != "I")
    sent[key] = sent.get(key, 0) + coeff
    return sent


def sentence_diff(a, b, tol=1e-12):
    """list of (word, coeff_a, coeff_b) where the two sentences differ."""
    out = []
    for k in set(a) | set(b):
        if abs(a.get(k, 0) - b.get(k, 0)) > tol:
            out.append((sorted(k, key=repr), a.get(k, 0), b.get(k, 0)))
    return out


def diagonal(sent, order, tol=1e-12):
    """Diagonal of a sentence made of I/Z words only. Returns (diag, offending_words)."""
    n = len(order)
    pos = {w: i for i, w in enumerate(order)}
    B = bits(n)
    d = np.zeros(2**n, dtype=complex)
    bad = []
    for word, c in sent.items():
        if abs(c) <= tol:
            continue
        if any(p != "Z" for _, p in word) or any(w not in pos for w, _ in word):
            bad.append((sorted(word, key=repr), c))
            continue
        sign = np.ones(2**n)
        for w, _ in word:
            sign = sign * (1 - 2 * B[:, pos[w]])
        d = d + c * sign
    return d, bad


def dense(sent, order):
    """Dense matrix of a sentence. A Pauli word is a signed permutation: column s goes to row s ^ flip with amplitude
    i^(#Y) (-1)^(popcount(s & (Z|Y positions))) (X|s> = |1-s>, Z|s> = (-1)^s|s>, Y|s> = i(-1)^s|1-s>). O(2^n) per word
    instead of a 4^n Kronecker product per word (which took > 1 min for the 11-arc cycle mixers); `dense_kron` is the
    textbook construction kept for the selftest."""
    n = len(order)
    if n > 12:
        raise ValueError(f"dense matrix on {n} wires requested (the generators must bound sizes by construction)")
    pos = {w: i for i, w in enumerate(order)}
    M = np.zeros((2**n, 2**n), dtype=complex)
    s = np.arange(2**n)
    for word, c in sent.items():
        flip = par = ny = 0
        for w, p in word:
            bit = 1 << (n - 1 - pos[w])
            if p in "XY":
                flip |= bit
            if p in "YZ":
                par |= bit
            ny += p == "Y"
        t = s & par
        sign = np.zeros(2**n, dtype=np.int64)
        while t.any():
            sign ^= t & 1
            t = t >> 1
        M[s ^ flip, s] += c * (1j) ** ny * (1 - 2 * sign)
    return M


def dense_kron(sent, order):
    n = len(order)
    pos = {w: i for i, w in enumerate(order)}
    M = np.zeros((2**n, 2**n), dtype=complex)
    for word, c in sent.items():
        letters = ["I"] * n
        for w, p in word:
            letters[pos[w]] = p
        m = np.array([[1.0 + 0j]])
        for l in letters:
            m = np.kron(m, _P[l])
        M = M + c * m
    return M


# ---------------------------------------------------------------- objectives (B = bits(n), edges = index pairs)
def cut_size(B, edges):
    out = np.zeros(B.shape[0], dtype=np.int64)
    for i, j in edges:
        out += (B[:, i] != B[:, j]).astype(np.int64)
    return out


def both_one(B, edges):
    out = np.zeros(B.shape[0], dtype=np.int64)
    for i, j in edges:
        out += B[:, i] * B[:, j]
    return out


def both_zero(B, edges):
    out = np.zeros(B.shape[0], dtype=np.int64)
    for i, j in edges:
        out += (1 - B[:, i]) * (1 - B[:, j])
    return out


def complement_edges(n, edges):
    have = {frozenset(e) for e in edges}
    return [(i, j) for i, j in itertools.combinations(range(n), 2) if frozenset((i, j)) not in have]


def penalised_edges(B, edges, reward):
    """number of edges whose endpoint colouring is NOT in `reward` (reward symmetric in 01/10)."""
    rew = set(reward)
    out = np.zeros(B.shape[0], dtype=np.int64)
    for i, j in edges:
        for a in (0, 1):
            for b in (0, 1):
                if f"{a}{b}" not in rew:
                    out += ((B[:, i] == a) & (B[:, j] == b)).astype(np.int64)
    return out


def bit_flip_matrix(n, edges, b):
    """<x'|H|x> = #{v : x' = x with bit v flipped and every neighbour of v has value b}."""
    nb = [[] for _ in range(n)]
    for i, j in edges:
        nb[i].append(j)
        nb[j].append(i)
    B = bits(n)
    M = np.zeros((2**n, 2**n))
    for k in range(2**n):
        for v in range(n):
            if all(B[k, w] == b for w in nb[v]):
                M[k ^ (1 << (n - 1 - v)), k] += 1
    return M


def xy_matrix(n, edges):
    """1/2 (XX+YY) per edge = exchange of the two (different) bits."""
    B = bits(n)
    M = np.zeros((2**n, 2**n))
    for k in range(2**n):
        for i, j in edges:
            if B[k, i] != B[k, j]:
                M[k ^ (1 << (n - 1 - i)) ^ (1 << (n - 1 - j)), k] += 1
    return M


def x_matrix(n):
    M = np.zeros((2**n, 2**n))
    for k in range(2**n):
        for v in range(n):
            M[k ^ (1 << v), k] += 1
    return M


# ---------------------------------------------------------------- directed graphs: B columns = arcs
def net_flow_sq(B, n, arcs):
    """sum_i (out_i - in_i)^2 for the arc subset selected by each row of B."""
    out = np.zeros(B.shape[0], dtype=np.int64)
    for v in range(n):
        f = np.zeros(B.shape[0], dtype=np.int64)
        for a, (i, j) in enumerate(arcs):
            if i == v:
                f += B[:, a]
            if j == v:
                f -= B[:, a]
        out += f * f
    return out


def out_flow_excess(B, n, arcs):
    """sum_i s_i (s_i - 1), s_i = selected arcs leaving i (zero iff every node has outflow <= 1)."""
    out = np.zeros(B.shape[0], dtype=np.int64)
    for v in range(n):
        s = np.zeros(B.shape[0], dtype=np.int64)
        for a, (i, j) in enumerate(arcs):
            if i == v:
                s += B[:, a]
        out += s * (s - 1)
    return out


def selftest():
    B = bits(3)
    assert B[5].tolist() == [1, 0, 1]
    tri = [(0, 1), (1, 2), (0, 2)]
    assert cut_size(B, tri).tolist() == [0, 2, 2, 2, 2, 2, 2, 0]
    assert both_one(B, tri)[7] == 3 and both_zero(B, tri)[0] == 3
    assert complement_edges(3, [(1, 0)]) == [(0, 2), (1, 2)]
    s = {frozenset({(0, "Z"), (2, "Z")}): 2.0, frozenset(): 1.0}
    d, bad = diagonal(s, [0, 1, 2])
    assert not bad and np.allclose(d, np.diag(dense(s, [0, 1, 2]))) and d[1] == -1
    # X Y = iZ on one wire
    assert np.allclose(_P["X"] @ _P["Y"], 1j * _P["Z"])
    # bit-flip mixer closed form 2^-d X prod (1 + (-1)^b Z) against the semantic matrix
    for b in (0, 1):
        sent = {}
        for v, nbrs in ((0, [1]), (1, [0, 2]), (2, [1])):
            for r in range(len(nbrs) + 1):
                for T in itertools.combinations(nbrs, r):
                    add_word(sent, 0.5 ** len(nbrs) * (-1) ** (b * len(T)), [(v, "X")] + [(w, "Z") for w in T])
        assert np.allclose(dense(sent, [0, 1, 2]), bit_flip_matrix(3, [(0, 1), (1, 2)], b))
    sxy = {frozenset({(0, "X"), (1, "X")}): 0.5, frozenset({(0, "Y"), (1, "Y")}): 0.5}
    assert np.allclose(dense(sxy, [0, 1]), xy_matrix(2, [(0, 1)]))
    # permutation-based dense() against the Kronecker construction on a random sentence with X, Y, Z on 4 labelled wires
    rng = np.random.default_rng(7)
    wires4 = ["q", 3, 0, "a"]
    rnd = {}
    for _ in range(25):
        add_word(rnd, complex(rng.normal(), rng.normal()), [(w, "IXYZ"[rng.integers(4)]) for w in wires4])
    assert np.allclose(dense(rnd, wires4), dense_kron(rnd, wires4))
    assert np.allclose(dense({frozenset({("q", "Y")}): 1.0}, ["q"]), _P["Y"])
    sx = {frozenset({(0, "X")}): 1.0, frozenset({(1, "X")}): 1.0}
    assert np.allclose(dense(sx, [0, 1]), x_matrix(2))
    arcs = [(0, 1), (1, 0), (0, 2)]
    Ba = bits(3)
    assert net_flow_sq(Ba, 3, arcs)[0b110] == 0 and net_flow_sq(Ba, 3, arcs)[0b001] == 2
    assert out_flow_excess(Ba, 3, arcs)[0b101] == 2 and out_flow_excess(Ba, 3, arcs)[0b110] == 0
