"""Dense reference model for Pauli words / sentences (numpy only, never imports PennyLane).

A *word* is a dict {wire_label: 'I'|'X'|'Y'|'Z'} (missing wires = identity).
A *sentence* is a list of (coeff, word) pairs (repeated words allowed; they add up).
Matrices use the convention "first wire of `order` is the most significant tensor factor".
"""
import itertools

import numpy as np

I2 = np.eye(2, dtype=complex)
X = np.array([[0, 1], [1, 0]], dtype=complex)
Y = np.array([[0, -1j], [1j, 0]], dtype=complex)
Z = np.array([[1, 0], [0, -1]], dtype=complex)
MATS = {"I": I2, "X": X, "Y": Y, "Z": Z}
# symplectic (x, z) bits
XZ = {"I": (0, 0), "X": (1, 0), "Y": (1, 1), "Z": (0, 1)}


def kron_all(mats):
    out = np.eye(1, dtype=complex)
    for m in mats:
        out = np.kron(out, m)
    return out


def word_matrix(word, order):
    """Matrix of the Pauli word on the ordered wires `order` (all wires of the word must be in `order`)."""
    missing = [w for w, c in word.items() if c != "I" and w not in order]
    if missing:
        raise ValueError(f"wires {missing} not in order {order}")
    return kron_all([MATS[word.get(w, "I")] for w in order])


def sentence_matrix(terms, order):
    n = len(order)
    out = np.zeros((2**n, 2**n), dtype=complex)
    for c, word in terms:
        out = out + complex(c) * word_matrix(word, order)
    return out


def canon_word(word):
    """Hashable canonical form, identities stripped."""
    return frozenset((w, c) for w, c in word.items() if c != "I")


def collect(terms):
    """Accumulate coefficients of equal words -> dict canon_word -> complex."""
    out = {}
    for c, word in terms:
        k = canon_word(word)
        out[k] = out.get(k, 0) + complex(c)
    return out


def commutes(w1, w2):
    """Symplectic commutation test: words commute iff they differ (both non-identity) on an even number of wires."""
    cnt = 0
    for w, c in w1.items():
        d = w2.get(w, "I")
        if c != "I" and d != "I" and c != d:
            cnt += 1
    return cnt % 2 == 0


def qwc(w1, w2):
    """Qubit-wise commuting: on every shared wire the letters are equal or one is the identity."""
    for w, c in w1.items():
        d = w2.get(w, "I")
        if c != "I" and d != "I" and c != d:
            return False
    return True


def decompose(M, order):
    """Brute-force Pauli coefficients of a 2^n x 2^n matrix: c_P = tr(P M) / 2^n. Returns dict canon_word -> coeff
    over all 4^n words (including zeros)."""
    n = len(order)
    assert M.shape == (2**n, 2**n)
    out = {}
    for letters in itertools.product("IXYZ", repeat=n):
        word = dict(zip(order, letters))
        out[canon_word(word)] = np.trace(word_matrix(word, order) @ M) / 2**n
    return out


def binary_vector(word, order):
    """[x bits | z bits] of the word over `order`."""
    xs = [XZ[word.get(w, "I")][0] for w in order]
    zs = [XZ[word.get(w, "I")][1] for w in order]
    return xs + zs


def selftest():
    assert np.allclose(X @ Y, 1j * Z) and np.allclose(Y @ Z, 1j * X) and np.allclose(Z @ X, 1j * Y)
    for m in (X, Y, Z):
        assert np.allclose(m @ m, I2) and np.allclose(m, m.conj().T) and abs(np.trace(m)) < 1e-15
    # ordering convention: first wire most significant
    m = word_matrix({"a": "Z"}, ["a", "b"])
    assert np.allclose(np.diag(m), [1, 1, -1, -1])
    m = word_matrix({"b": "Z"}, ["a", "b"])
    assert np.allclose(np.diag(m), [1, -1, 1, -1])
    # commutation tests agree with matrices for all 2-qubit pairs
    order = [0, 1]
    words = [dict(zip(order, l)) for l in itertools.product("IXYZ", repeat=2)]
    for a in words:
        A = word_matrix(a, order)
        for b in words:
            B = word_matrix(b, order)
            assert commutes(a, b) == np.allclose(A @ B, B @ A)
            per_qubit = all(
                np.allclose(MATS[a[w]] @ MATS[b[w]], MATS[b[w]] @ MATS[a[w]]) for w in order
            )
            assert qwc(a, b) == per_qubit
    # decomposition inverts sentence_matrix
    terms = [(0.5 - 1j, {0: "X", 1: "Y"}), (2.0, {1: "Z"}), (0.25j, {})]
    M = sentence_matrix(terms, order)
    dec = decompose(M, order)
    want = collect(terms)
    for k, v in dec.items():
        assert abs(v - want.get(k, 0)) < 1e-12
    assert binary_vector({0: "Y", 1: "Z"}, [0, 1]) == [1, 0, 1, 1]
