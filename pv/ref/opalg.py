"""Reference semantics of operator-expression *specs* (pv/specs.py encoding + the extra node kinds
of pv/zoo_extra.py), evaluated with numpy/scipy only.

evaluate(spec) -> (M, wires): dense matrix of the linear map the spec denotes and the list of wires it
acts on (first wire = most significant). Composite nodes never look at a built PennyLane object; leaves
use a closed form written from the docstring where one is available (CLOSED), else `leaf_fallback`
(supplied by the caller, typically qp.matrix of a freshly built leaf) and the name is recorded in
FALLBACK_LEAVES."""
import itertools
from collections import Counter

import numpy as np
import scipy.linalg as sla

from pv import specs
from pv.ref import gates as G
from pv.ref.sim import embed

FALLBACK_LEAVES = Counter()


class BranchCut(Exception):
    """Fractional power outside the documented unambiguous range."""


def cplx(c):
    if isinstance(c, dict):
        return complex(c["c"][0], c["c"][1])
    return c


def union(*wire_lists):
    out = []
    for ws in wire_lists:
        for w in ws:
            if w not in out:
                out.append(w)
    return out


def _w(ws):
    return [specs.wire(w) for w in ws]


def pauli_basis_strings(n):
    return ["".join(t) for t in itertools.product("IXYZ", repeat=n)][1:]


def closed_leaf(s):
    """Closed-form matrix for a leaf spec, or None."""
    name = s["op"]
    ws = _w(s.get("w") or [])
    n = len(ws)
    p = s.get("p", [])
    kw = s.get("kw", {}) or {}
    if name in G.FIXED or name in G.PARAM or name in ("Identity", "MultiRZ", "GlobalPhase"):
        if any(isinstance(x, (list, dict)) for x in p):
            return None
        return G.matrix(name, p, n, kw), ws
    if name == "PauliRot":
        return G.PauliRot(p[0], kw["pauli_word"]), ws
    if name == "PCPhase":
        return G.PCPhase(p[0], kw["dim"], n), ws
    if name == "MultiControlledX":
        return G.controlled(G.X, n - 1, kw.get("control_values")), ws
    if name in ("QubitUnitary", "Hermitian"):
        return np.asarray(specs.param(p[0]), dtype=complex), ws
    if name == "DiagonalQubitUnitary":
        return np.diag(np.asarray(specs.param(p[0]), dtype=complex)), ws
    if name == "ControlledQubitUnitary":
        U = np.asarray(specs.param(p[0]), dtype=complex)
        kt = int(round(np.log2(U.shape[0])))
        return G.controlled(U, n - kt, kw.get("control_values")), ws
    if name == "Projector":
        v = p[0]
        if isinstance(v, dict):
            vec = specs.param(v)
            return np.outer(vec, vec.conj()), ws
        idx = int("".join(str(int(b)) for b in v), 2)
        P = np.zeros((2**n, 2**n), dtype=complex)
        P[idx, idx] = 1
        return P, ws
    if name == "QFT":
        N = 2**n
        j = np.arange(N)
        return np.exp(2j * np.pi * np.outer(j, j) / N) / np.sqrt(N), ws
    if name == "GroverOperator" and not kw:
        N = 2**n
        return 2 * np.ones((N, N), dtype=complex) / N - np.eye(N), ws
    if name == "SpecialUnitary":
        theta = np.asarray(p[0], dtype=float)
        A = sum(t * G.pauli_word(wd) for t, wd in zip(theta, pauli_basis_strings(n)))
        return sla.expm(1j * A), ws
    if name == "SelectPauliRot":
        cw = _w(kw["control_wires"])
        tw = specs.wire(kw["target_wire"])
        P = G.PAULI[kw["rot_axis"]]
        k = len(cw)
        M = np.zeros((2 ** (k + 1),) * 2, dtype=complex)
        for i, a in enumerate(p[0]):
            M[2 * i:2 * i + 2, 2 * i:2 * i + 2] = G._exp_pauli(a, P)  # noqa: SLF001
        return M, cw + [tw]
    if name in ("Barrier", "WireCut", "Snapshot"):
        return np.eye(2**n, dtype=complex), ws
    return None


def principal_power(U, z, margin=0.05):
    """U^z for a normal matrix via the complex Schur form; BranchCut unless U is unitary with all
    eigenphases inside (-pi + margin, pi - margin)."""
    if not np.allclose(U.conj().T @ U, np.eye(U.shape[0]), atol=1e-9):
        raise BranchCut("base not unitary")
    T, Z = sla.schur(U, output="complex")
    d = np.diag(T)
    if not np.allclose(T, np.diag(d), atol=1e-8):
        raise BranchCut("schur form not diagonal")
    ph = np.angle(d)
    if np.any(np.abs(ph) > np.pi - margin):
        raise BranchCut("eigenphase near +-pi")
    return Z @ np.diag(np.exp(1j * z * ph)) @ Z.conj().T


def _numbers(x):
    if isinstance(x, bool):
        return []
    if isinstance(x, (int, float)):
        return [float(x)]
    if isinstance(x, list):
        return [v for y in x for v in _numbers(y)]
    return []


def phase_bound(s, leaf_fallback=None):
    """Upper bound on the largest |eigenphase| of the unitary denoted by `s` when phases are accumulated through the
    expression WITHOUT 2*pi wrapping (rotation angles count in full, products add up, powers scale). inf if the
    expression is not recognisably unitary. A fractional power is unambiguous (principal power == any angle-scaling
    rule) when this bound is < pi."""
    kind = s["op"]
    pb = lambda x: phase_bound(x, leaf_fallback)  # noqa: E731
    if kind in ("adjoint", "ctrl"):
        return pb(s["base"])
    if kind == "pow":
        return abs(s["z"]) * pb(s["base"])
    if kind in ("prod", "matmul"):
        return float(sum(pb(o) for o in s["operands"]))
    if kind == "s_prod":
        c = complex(cplx(s["c"]))
        return pb(s["base"]) + abs(np.angle(c)) if abs(abs(c) - 1) < 1e-9 else np.inf
    if kind in ("exp", "evolution"):
        c = complex(cplx(s["c"]))
        if kind == "exp":
            if abs(c.real) > 0:
                return np.inf
            c = c.imag
        elif abs(c.imag) > 0:
            return np.inf
        M, _ = evaluate(s["base"], leaf_fallback)
        if not np.allclose(M, M.conj().T, atol=1e-9):
            return np.inf
        return abs(c) * float(np.linalg.norm(M, 2))
    if kind == "cob":
        b = pb(s["target"]) + 2 * pb(s["compute"])
        return b + (pb(s["uncompute"]) if s.get("uncompute") is not None else 0.0)
    if kind in ("sum", "lincomb", "dot"):
        return np.inf
    M, _ = evaluate(s, leaf_fallback)
    if not np.allclose(M.conj().T @ M, np.eye(M.shape[0]), atol=1e-9):
        return np.inf
    a = float(np.abs(np.angle(np.linalg.eigvals(M))).max()) if M.size else 0.0
    return max(a, float(sum(abs(v) for v in _numbers(s.get("p", [])))))


def power_chains(s):
    """Maximal chains of pow/adjoint nodes that contain a fractional exponent: [(root_node, innermost_base_spec, z_total)]
    with z_total the product of the exponents (adjoint counts as -1), outermost chains first."""
    out = []

    def chain(x):
        z, frac = 1.0, False
        while isinstance(x, dict) and x.get("op") in ("pow", "adjoint"):
            if x["op"] == "pow":
                z *= x["z"]
                frac = frac or not float(x["z"]).is_integer()
            else:
                z *= -1
            x = x["base"]
        return x, z, frac

    def visit(x, parent_in_chain=False):
        if not isinstance(x, dict):
            return
        in_chain = x.get("op") in ("pow", "adjoint")
        if in_chain and not parent_in_chain:
            inner, z, frac = chain(x)
            if frac:
                out.append((x, inner, z))
        for k in ("base", "compute", "target", "uncompute"):
            if isinstance(x.get(k), dict):
                visit(x[k], in_chain)
        for o in x.get("operands") or []:
            visit(o, False)

    visit(s)
    return out


def is_other_branch(C, B, z, principal, tol=1e-7):
    """Is C a z-th power of the unitary B on some non-principal branch? (C commutes with B, C^q == B^p for z = p/q,
    and C differs from the reference value `principal`.)"""
    from fractions import Fraction

    fr = Fraction(z).limit_denominator(2000)
    p, q = fr.numerator, fr.denominator
    if abs(float(fr) - z) > 1e-12 or fr.denominator > 400 or C.shape != B.shape:
        return False
    Bp = np.linalg.matrix_power(B if p >= 0 else B.conj().T, abs(p))
    if not np.allclose(np.linalg.matrix_power(C, q), Bp, atol=tol):
        return False
    if not np.allclose(C @ B, B @ C, atol=tol):
        return False
    return not np.allclose(C, principal, atol=tol)


def interleaved_prod(s, leaf_fallback=None):
    """True if some product node (also after flattening nested products) has operands whose overlapping-wire groups,
    concatenated in group order, differ from the first-appearance wire order (input-class feature)."""
    def wires_of(x):
        return evaluate(x, leaf_fallback)[1]

    def flat(x):
        if x["op"] in ("prod", "matmul"):
            return [y for o in x["operands"] for y in flat(o)]
        return [x]

    def test(operands):
        ws = [wires_of(o) for o in operands]
        groups = []
        for w in ws:
            hit = [g for g in groups if set(g) & set(w)]
            if hit:
                first = hit[0]
                first.extend(w)
                for g in hit[1:]:
                    first.extend(g)
                    groups.remove(g)
            else:
                groups.append(list(w))
        return union(*groups) != union(*ws)

    def visit(x):
        if not isinstance(x, dict):
            return False
        if x["op"] in ("prod", "matmul") and any(test(o) or test(o[::-1]) for o in (x["operands"], flat(x))):
            return True
        kids = [x[k] for k in ("base", "compute", "target", "uncompute") if isinstance(x.get(k), dict)] + list(x.get("operands") or [])
        return any(visit(k) for k in kids)

    return visit(s)


def evaluate(s, leaf_fallback=None, frac_override=None):
    """frac_override: optional {id(node): matrix} replacing the reference value at those (power-chain root) nodes
    (only used to *classify* a mismatch as a pure branch-of-the-power disagreement, never as the oracle)."""
    kind = s["op"]
    if frac_override and id(s) in frac_override:
        rest = {k: v for k, v in frac_override.items() if k != id(s)}
        return frac_override[id(s)], evaluate(s, leaf_fallback, rest)[1]
    ev = lambda x: evaluate(x, leaf_fallback, frac_override)  # noqa: E731
    if kind == "adjoint":
        M, ws = ev(s["base"])
        return M.conj().T, ws
    if kind == "pow":
        M, ws = ev(s["base"])
        z = s["z"]
        if isinstance(z, int) or float(z).is_integer():
            z = int(z)
            if z < 0:
                return np.linalg.matrix_power(np.linalg.inv(M), -z), ws
            return np.linalg.matrix_power(M, z), ws
        return principal_power(M, z), ws
    if kind == "ctrl":
        M, ws = ev(s["base"])
        cw = _w(s["cw"])
        cv = s.get("cv")
        return G.controlled(M, len(cw), cv), cw + ws
    if kind in ("prod", "matmul"):
        parts = [ev(o) for o in s["operands"]]
        order = union(*[ws for _, ws in parts])
        M = np.eye(2 ** len(order), dtype=complex)
        for Mi, wi in parts:
            M = M @ embed(Mi, wi, order)
        return M, order
    if kind in ("sum", "lincomb", "dot"):
        parts = [ev(o) for o in s["operands"]]
        cs = [cplx(c) for c in s["coeffs"]] if "coeffs" in s else [1.0] * len(parts)
        order = union(*[ws for _, ws in parts])
        M = np.zeros((2 ** len(order),) * 2, dtype=complex)
        for c, (Mi, wi) in zip(cs, parts):
            M = M + c * embed(Mi, wi, order)
        return M, order
    if kind == "s_prod":
        M, ws = ev(s["base"])
        return cplx(s["c"]) * M, ws
    if kind in ("exp", "evolution"):
        M, ws = ev(s["base"])
        c = cplx(s["c"])
        if kind == "evolution":  # documented: Evolution(H, x) = exp(-i x H)
            c = -1j * c
        return sla.expm(c * M), ws
    if kind == "cob":
        V, wv = ev(s["compute"])
        T, wt = ev(s["target"])
        if s.get("uncompute") is not None:
            Un, wu = ev(s["uncompute"])
        else:
            Un, wu = V.conj().T, wv
        order = union(wu, wt, wv)  # linear map: uncompute . target . compute (compute applied first)
        return embed(Un, wu, order) @ embed(T, wt, order) @ embed(V, wv, order), order
    got = closed_leaf(s)
    if got is not None and got[0] is not None:
        return np.asarray(got[0], dtype=complex), got[1]
    if leaf_fallback is None:
        raise KeyError("no closed form for leaf " + kind)
    FALLBACK_LEAVES[kind] += 1
    return leaf_fallback(s)


def relabel(s, m):
    """The spec with every wire label w replaced by m.get(w, w) (labels compared after specs.wire)."""
    def mw(w):
        k = specs.wire(w)
        v = m.get(k, k)
        return list(v) if isinstance(v, tuple) else v

    if isinstance(s, list):
        return [relabel(x, m) for x in s]
    if not isinstance(s, dict):
        return s
    out = {}
    for k, v in s.items():
        if k in ("w", "cw", "ww", "w0", "w1") and isinstance(v, list):
            out[k] = [mw(w) for w in v]
        elif k == "kw" and isinstance(v, dict):
            kw = dict(v)
            for kk in ("control_wires", "work_wires", "estimation_wires", "target_wires", "x_wires", "y_wires", "output_wires", "control"):
                if isinstance(kw.get(kk), list):
                    kw[kk] = [mw(w) for w in kw[kk]]
            for kk in ("target_wire", "work_wire"):
                if kk in kw and kw[kk] is not None:
                    kw[kk] = mw(kw[kk])
            out[k] = kw
        elif k in ("base", "compute", "target", "uncompute", "obs") and isinstance(v, dict):
            out[k] = relabel(v, m)
        elif k in ("operands", "ops"):
            out[k] = [relabel(x, m) for x in v]
        else:
            out[k] = v
    return out


def selftest():
    X, Z, H = G.X, G.Z, G.H
    M, ws = evaluate({"op": "prod", "operands": [{"op": "PauliX", "w": [0]}, {"op": "PauliZ", "w": [0]}]})
    assert np.allclose(M, X @ Z) and ws == [0]
    M, ws = evaluate({"op": "ctrl", "base": {"op": "PauliX", "w": ["a"]}, "cw": ["b"], "cv": [0]})
    assert ws == ["b", "a"] and np.allclose(M, np.array([[0, 1, 0, 0], [1, 0, 0, 0], [0, 0, 1, 0], [0, 0, 0, 1]]))
    try:
        evaluate({"op": "pow", "base": {"op": "PauliX", "w": [0]}, "z": 0.5})
    except BranchCut:
        pass
    else:
        raise AssertionError("X**0.5 must be refused (eigenphase pi)")
    M, _ = evaluate({"op": "pow", "base": {"op": "S", "w": [0]}, "z": 0.5})
    assert np.allclose(M, G.T)
    assert abs(phase_bound({"op": "prod", "operands": [{"op": "RX", "p": [2.0], "w": [0]}, {"op": "T", "w": [0]}]}) - (2.0 + np.pi / 4)) < 1e-9
    assert interleaved_prod({"op": "prod", "operands": [{"op": "RX", "p": [0.3], "w": [4]}, {"op": "PauliZ", "w": [0]}, {"op": "CNOT", "w": [1, 4]}]})
    assert not interleaved_prod({"op": "prod", "operands": [{"op": "RX", "p": [0.3], "w": [4]}, {"op": "CNOT", "w": [1, 4]}, {"op": "PauliZ", "w": [0]}]})
    M, _ = evaluate({"op": "exp", "base": {"op": "PauliX", "w": [0]}, "c": {"c": [0.0, -0.3]}})
    assert np.allclose(M, G.RX(0.6))
    M, ws = evaluate({"op": "cob", "compute": {"op": "Hadamard", "w": [0]}, "target": {"op": "PauliZ", "w": [0]}, "uncompute": None})
    assert np.allclose(M, H @ Z @ H) and np.allclose(M, X)
    M, ws = evaluate({"op": "sum", "operands": [{"op": "PauliX", "w": [0]}, {"op": "PauliZ", "w": [1]}]})
    assert ws == [0, 1] and np.allclose(M, np.kron(X, np.eye(2)) + np.kron(np.eye(2), Z))
    M, _ = evaluate({"op": "QFT", "w": [0]})
    assert np.allclose(M, H)
    M, _ = evaluate({"op": "SpecialUnitary", "p": [[0.0, 0.0, -0.2]], "w": [0]})
    assert np.allclose(M, G.RZ(0.4))
    r = relabel({"op": "ctrl", "base": {"op": "CNOT", "w": [0, "a"]}, "cw": [1]}, {0: 1, 1: 0})
    assert r == {"op": "ctrl", "base": {"op": "CNOT", "w": [1, "a"]}, "cw": [0]}

