"""High-order finite-difference derivatives for reference functions (numpy + fractions only).

All stencils are derived here from the moment conditions (exact rational arithmetic), nothing is
taken from PennyLane. The functions differentiated are smooth (trigonometric polynomials of the
circuit parameters composed with smooth pre-processing), so central differences of order 6 with a
Richardson step-halving check reach ~1e-10.

    jacobian(f, x)                 -> (J, err)   J.shape = f(x).shape + (len(x),)
    hessian(f, x)                  -> (H, err)   H.shape = f(x).shape + (n, n)
    directional(f, x, v, n)        -> (d, err)   n-th derivative of t -> f(x + t v) at t = 0

`f` maps a 1-D float array to a real or complex array of any shape. `err` is the magnitude of the last
Richardson correction (an upper estimate of the error of the *un*-extrapolated value; the returned value
is the extrapolated one). `FDError` is raised when the step halving does not converge below `tol`.
"""
from fractions import Fraction
from functools import lru_cache

import numpy as np


class FDError(Exception):
    pass


@lru_cache(maxsize=None)
def stencil(n, offsets):
    """Weights w_k with  sum_k w_k g(t0 + s_k h) = h^n g^(n)(t0) + O(h^(len(s))).

    Solves the moment conditions sum_k w_k s_k^d = n! [d == n], d = 0..len(s)-1, exactly."""
    offsets = tuple(offsets)
    m = len(offsets)
    if n >= m:
        raise ValueError("need more points than the derivative order")
    A = [[Fraction(s) ** d for s in offsets] for d in range(m)]
    b = [Fraction(0)] * m
    fact = 1
    for i in range(2, n + 1):
        fact *= i
    b[n] = Fraction(fact)
    # Gaussian elimination over the rationals
    for c in range(m):
        p = next(r for r in range(c, m) if A[r][c] != 0)
        A[c], A[p] = A[p], A[c]
        b[c], b[p] = b[p], b[c]
        inv = 1 / A[c][c]
        A[c] = [a * inv for a in A[c]]
        b[c] = b[c] * inv
        for r in range(m):
            if r != c and A[r][c] != 0:
                fac = A[r][c]
                A[r] = [a - fac * aa for a, aa in zip(A[r], A[c])]
                b[r] = b[r] - fac * b[c]
    return tuple(float(x) for x in b)


def central(n, acc=6):
    """Central stencil (offsets, weights) for the n-th derivative with truncation order `acc` (even)."""
    half = (n + 1) // 2 - 1 + acc // 2
    offs = tuple(range(-half, half + 1))
    return offs, stencil(n, offs)


def _line(f, x, v, n, h, acc, f0=None):
    offs, w = central(n, acc)
    tot = 0.0
    for s, c in zip(offs, w):
        if c == 0.0:
            continue
        val = f0 if (s == 0 and f0 is not None) else np.asarray(f(x + s * h * v))
        tot = tot + c * val
    return tot / h**n


def directional(f, x, v, n=1, h=0.05, acc=6, tol=1e-7, f0=None, max_halvings=6):
    """n-th derivative along v with Richardson extrapolation and convergence check."""
    x = np.asarray(x, dtype=float)
    v = np.asarray(v, dtype=float)
    prev = _line(f, x, v, n, h, acc, f0)
    for _ in range(max_halvings):
        h = h / 2
        cur = _line(f, x, v, n, h, acc, f0)
        corr = (cur - prev) / (2**acc - 1)
        err = float(np.max(np.abs(corr))) if np.size(corr) else 0.0
        if err <= tol:
            return cur + corr, err
        prev = cur
    raise FDError(f"finite differences did not converge (last Richardson correction {err:.2e} > {tol:.1e})")


def jacobian(f, x, h=0.05, acc=6, tol=1e-7):
    x = np.asarray(x, dtype=float)
    n = x.size
    cols, errs = [], [0.0]
    for i in range(n):
        e = np.zeros(n)
        e[i] = 1.0
        d, err = directional(f, x, e, 1, h, acc, tol)
        cols.append(d)
        errs.append(err)
    if not cols:
        return np.zeros(np.shape(f(x)) + (0,)), 0.0
    return np.stack(cols, axis=-1), max(errs)


def hessian(f, x, h=0.1, acc=6, tol=1e-6):
    """Second derivatives: diagonal from the 1-D second-derivative stencil, off-diagonal by polarisation
    d_i d_j f = ( D2_{e_i+e_j} f - D2_{e_i-e_j} f ) / 4."""
    x = np.asarray(x, dtype=float)
    n = x.size
    f0 = np.asarray(f(x))
    H = np.zeros(f0.shape + (n, n), dtype=f0.dtype if np.iscomplexobj(f0) else float)
    errs = [0.0]
    E = np.eye(n)
    for i in range(n):
        d, err = directional(f, x, E[i], 2, h, acc, tol, f0=f0)
        H[..., i, i] = d
        errs.append(err)
    for i in range(n):
        for j in range(i + 1, n):
            dp, e1 = directional(f, x, E[i] + E[j], 2, h, acc, tol, f0=f0)
            dm, e2 = directional(f, x, E[i] - E[j], 2, h, acc, tol, f0=f0)
            H[..., i, j] = H[..., j, i] = (dp - dm) / 4
            errs += [e1, e2]
    return H, max(errs)


def selftest():
    # stencils: classic values
    assert np.allclose(central(1, 2)[1], [-0.5, 0, 0.5])
    assert np.allclose(central(2, 2)[1], [1, -2, 1])
    assert np.allclose(central(1, 6)[1], [-1 / 60, 3 / 20, -3 / 4, 0, 3 / 4, -3 / 20, 1 / 60])
    assert np.allclose(central(2, 4)[1], [-1 / 12, 4 / 3, -5 / 2, 4 / 3, -1 / 12])
    assert np.allclose(stencil(1, (0, 1, 2)), [-1.5, 2, -0.5])
    # plain functions
    def f(x):
        return np.array([np.cos(x[0]) * np.sin(2 * x[1]), np.exp(0.3 * x[0]) + x[1] ** 3, np.exp(1j * x[0] * x[1])])
    x = np.array([0.37, -1.21])
    J, err = jacobian(f, x)
    Jx = np.array([[-np.sin(x[0]) * np.sin(2 * x[1]), 2 * np.cos(x[0]) * np.cos(2 * x[1])],
                   [0.3 * np.exp(0.3 * x[0]), 3 * x[1] ** 2],
                   [1j * x[1] * np.exp(1j * x[0] * x[1]), 1j * x[0] * np.exp(1j * x[0] * x[1])]])
    assert np.abs(J - Jx).max() < 1e-10, np.abs(J - Jx).max()
    H, err = hessian(f, x)
    e = np.exp(1j * x[0] * x[1])
    Hx = np.array([[[-np.cos(x[0]) * np.sin(2 * x[1]), -2 * np.sin(x[0]) * np.cos(2 * x[1])],
                    [-2 * np.sin(x[0]) * np.cos(2 * x[1]), -4 * np.cos(x[0]) * np.sin(2 * x[1])]],
                   [[0.09 * np.exp(0.3 * x[0]), 0], [0, 6 * x[1]]],
                   [[-x[1] ** 2 * e, (1j - x[0] * x[1]) * e], [(1j - x[0] * x[1]) * e, -x[0] ** 2 * e]]])
    assert np.abs(H - Hx).max() < 1e-8, np.abs(H - Hx).max()
    d4, _ = directional(lambda t: np.sin(2 * t[0]), np.array([0.3]), np.array([1.0]), 4, h=0.1, tol=1e-5)
    assert abs(d4 - 16 * np.sin(0.6)) < 1e-6
    # analytic circuits on the reference simulator:  <Z> after RX(a) RY(b) = cos a cos b ; <X> = sin b
    from . import gates as G
    from . import sim

    def circ(p):
        s = sim.zero_state(2)
        s = sim.apply(s, G.matrix("RX", [p[0]], 1, {}), [0])
        s = sim.apply(s, G.matrix("RY", [p[1]], 1, {}), [0])
        s = sim.apply(s, G.matrix("CRZ", [p[2]], 2, {}), [0, 1])
        psi = s.reshape(-1)
        Z0 = np.kron(G.Z, np.eye(2))
        X0 = np.kron(G.X, np.eye(2))
        return np.array([np.vdot(psi, Z0 @ psi).real, np.vdot(psi, X0 @ psi).real])
    p = np.array([0.71, -0.43, 1.3])
    J, _ = jacobian(circ, p)
    assert abs(J[0, 0] + np.sin(p[0]) * np.cos(p[1])) < 1e-9 and abs(J[0, 1] + np.cos(p[0]) * np.sin(p[1])) < 1e-9
    assert abs(J[0, 2]) < 1e-9
    H, _ = hessian(circ, p)
    assert abs(H[0, 0, 0] + np.cos(p[0]) * np.cos(p[1])) < 1e-7 and abs(H[0, 0, 1] - np.sin(p[0]) * np.sin(p[1])) < 1e-7
    # non-convergence is reported, not hidden
    try:
        directional(lambda t: np.abs(t[0] - 0.013) ** 1.5, np.array([0.0]), np.array([1.0]), 2, tol=1e-12, max_halvings=2)
    except FDError:
        pass
    else:
        raise AssertionError("FDError expected")
