"""Independent density-matrix reference (numpy only): built-in channels written from their class
docstrings, Kraus-sum evolution rho -> sum_k K rho K^dagger, and measurements on density matrices.

Unitary gate matrices come from pv.ref.sim.op_matrix (closed-form gate table). The density matrix is kept
as a tensor of shape (2,)*n (row axes, wire order `order`) + (2,)*n (column axes)."""
import numpy as np

from . import sim

I2 = np.eye(2, dtype=complex)
X = np.array([[0, 1], [1, 0]], dtype=complex)
Y = np.array([[0, -1j], [1j, 0]], dtype=complex)
Z = np.diag([1, -1]).astype(complex)
P = {"I": I2, "X": X, "Y": Y, "Z": Z}
E00 = np.array([[1, 0], [0, 0]], dtype=complex)
E01 = np.array([[0, 1], [0, 0]], dtype=complex)
E10 = np.array([[0, 0], [1, 0]], dtype=complex)
E11 = np.array([[0, 0], [0, 1]], dtype=complex)

CHANNELS = ("AmplitudeDamping", "GeneralizedAmplitudeDamping", "PhaseDamping", "DepolarizingChannel", "BitFlip",
            "PhaseFlip", "ResetError", "PauliError", "ThermalRelaxationError", "QubitChannel")


def _s(x):
    return np.sqrt(max(float(x), 0.0))


def thermal_choi(pe, t1, t2, tg):
    """Choi matrix of the thermal relaxation channel as printed in the ThermalRelaxationError docstring
    (basis index = i + 2 j for the matrix unit |i><j|, 'column-major order mapping')."""
    eT1 = np.exp(-tg / t1)
    eT2 = np.exp(-tg / t2)
    pr = 1 - eT1
    L = np.zeros((4, 4), dtype=complex)
    L[0, 0] = 1 - pe * pr
    L[1, 1] = pe * pr
    L[2, 2] = (1 - pe) * pr
    L[3, 3] = 1 - (1 - pe) * pr
    L[0, 3] = L[3, 0] = eT2
    return L


def channel_kraus(name, params, hyper=None):
    """Kraus operators (list of complex arrays) of a built-in channel for python-float parameters."""
    hyper = hyper or {}
    p = [complex(x).real if np.ndim(x) == 0 else np.asarray(x) for x in params]
    if name == "AmplitudeDamping":
        g = p[0]
        return [np.diag([1, _s(1 - g)]).astype(complex), _s(g) * E01]
    if name == "GeneralizedAmplitudeDamping":
        g, q = p
        return [_s(1 - q) * np.diag([1, _s(1 - g)]).astype(complex), _s(1 - q) * _s(g) * E01,
                _s(q) * np.diag([_s(1 - g), 1]).astype(complex), _s(q) * _s(g) * E10]
    if name == "PhaseDamping":
        g = p[0]
        return [np.diag([1, _s(1 - g)]).astype(complex), _s(g) * E11]
    if name == "DepolarizingChannel":
        q = p[0]
        return [_s(1 - q) * I2, _s(q / 3) * X, _s(q / 3) * Y, _s(q / 3) * Z]
    if name == "BitFlip":
        return [_s(1 - p[0]) * I2, _s(p[0]) * X]
    if name == "PhaseFlip":
        return [_s(1 - p[0]) * I2, _s(p[0]) * Z]
    if name == "ResetError":
        p0, p1 = p
        return [_s(1 - p0 - p1) * I2, _s(p0) * E00, _s(p0) * E01, _s(p1) * E10, _s(p1) * E11]
    if name == "PauliError":
        word = hyper["operators"]
        M = np.eye(1, dtype=complex)
        for c in word:  # first letter acts on the first wire = most significant factor
            M = np.kron(M, P[c])
        return [_s(1 - p[0]) * np.eye(2 ** len(word), dtype=complex), _s(p[0]) * M]
    if name == "ThermalRelaxationError":
        pe, t1, t2, tg = p
        lam, vec = np.linalg.eigh(thermal_choi(pe, t1, t2, tg))
        out = []
        for l, v in zip(lam, vec.T):
            K = v.reshape(2, 2).T  # column-major: v[i + 2 j] = K[i, j]
            out.append(_s(l) * K)
        return out
    if name == "QubitChannel":
        return [np.asarray(k, dtype=complex) for k in params]
    raise KeyError(name)


def superop(kraus):
    """Matrix of rho -> sum K rho K^dagger on row-major vec(rho): sum_k K (x) conj(K)."""
    return sum(np.kron(np.asarray(K, dtype=complex), np.asarray(K, dtype=complex).conj()) for K in kraus)


def completeness(kraus):
    return sum(np.asarray(K).conj().T @ np.asarray(K) for K in kraus)


# ------------------------------------------------------------------------------------------------
# evolution
# ------------------------------------------------------------------------------------------------

def zero_rho(n):
    r = np.zeros((2,) * (2 * n), dtype=complex)
    r[(0,) * (2 * n)] = 1
    return r


def apply_kraus(rho, kraus, axes, n):
    """sum_k K rho K^dagger with K acting on row axes `axes` (and conj(K) on the matching column axes)."""
    out = np.zeros_like(rho)
    col = [a + n for a in axes]
    for K in kraus:
        K = np.asarray(K, dtype=complex)
        t = sim.apply(rho, K, list(axes))
        out = out + sim.apply(t, K.conj(), col)
    return out


def partial_trace(rho, keep, n):
    """Reduced density tensor on the row axes `keep` (in that order)."""
    keep = list(keep)
    rest = [a for a in range(n) if a not in keep]
    t = np.transpose(rho, keep + rest + [a + n for a in keep] + [a + n for a in rest])
    k, r = len(keep), len(rest)
    t = t.reshape(2**k, 2**r, 2**k, 2**r)
    return np.einsum("arbr->ab", t)


def replace_subsystem(rho, sigma, axes, n):
    """tr_axes(rho) (x) sigma, with sigma placed on `axes` (QubitDensityMatrix semantics)."""
    axes = list(axes)
    rest = [a for a in range(n) if a not in axes]
    red = partial_trace(rho, rest, n) if rest else np.ones((1, 1), dtype=complex) * np.einsum("aa->", rho.reshape(2**n, 2**n))
    k, r = len(axes), len(rest)
    t = np.tensordot(np.asarray(sigma, dtype=complex).reshape((2,) * (2 * k)), red.reshape((2,) * (2 * r)), axes=0)
    # current axes: sigma rows (k), sigma cols (k), rest rows (r), rest cols (r)
    perm = [0] * (2 * n)
    for i, a in enumerate(axes):
        perm[a] = i
        perm[a + n] = k + i
    for j, a in enumerate(rest):
        perm[a] = 2 * k + j
        perm[a + n] = 2 * k + r + j
    return np.transpose(t, perm)


def apply_op(rho, op, order):
    n = len(order)
    name = type(op).__name__
    if name in ("Barrier", "WireCut", "Snapshot", "Identity", "GlobalPhase"):
        return rho
    ax = [order.index(w) for w in op.wires]
    if name in CHANNELS:
        K = channel_kraus(name, list(op.data), getattr(op, "hyperparameters", {}))
        return apply_kraus(rho, K, ax, n)
    if name == "QubitDensityMatrix":
        return replace_subsystem(rho, np.asarray(op.data[0]), ax, n)
    if name in ("StatePrep", "BasisState"):
        v = sim.state_prep_vector(op)
        return replace_subsystem(rho, np.outer(v, v.conj()), ax, n)
    return apply_kraus(rho, [sim.op_matrix(op)], ax, n)


def run_ops(ops, order, rho=None):
    """Density matrix (2^n x 2^n, wire order `order`) after applying ops to |0..0><0..0| (or `rho`)."""
    order = list(order)
    n = len(order)
    r = zero_rho(n) if rho is None else np.asarray(rho, dtype=complex).reshape((2,) * (2 * n))
    for op in ops:
        r = apply_op(r, op, order)
    return r.reshape(2**n, 2**n)


# ------------------------------------------------------------------------------------------------
# measurements
# ------------------------------------------------------------------------------------------------

def reduced(rho, order, wires):
    n = len(order)
    return partial_trace(np.asarray(rho).reshape((2,) * (2 * n)), [list(order).index(w) for w in wires], n)


def _entropy(r, base):
    return sim.entropy(r, base)


def probs(rho, order, wires):
    return np.real(np.diag(reduced(rho, order, wires)))


def measure(rho, mp, order):
    kind = type(mp).__name__
    order = list(order)
    n = len(order)
    if kind == "StateMP":
        return rho
    if kind == "DensityMatrixMP":
        return reduced(rho, order, list(mp.wires))
    if kind in ("ExpectationMP", "VarianceMP"):
        ow = list(mp.obs.wires)
        if not ow:
            c = complex(sim.op_matrix(mp.obs).reshape(-1)[0]).real
            return c if kind == "ExpectationMP" else 0.0
        O = sim.op_matrix(mp.obs)
        r = reduced(rho, order, ow)
        e = np.trace(r @ O)
        if kind == "ExpectationMP":
            return e.real
        return (np.trace(r @ O @ O) - e * e).real
    if kind == "ProbabilityMP":
        if mp.obs is not None:
            ow = list(mp.obs.wires)
            r = reduced(rho, order, ow)
            for g in mp.obs.diagonalizing_gates():
                U = sim.embed(sim.op_matrix(g), list(g.wires), ow)
                r = U @ r @ U.conj().T
            return np.real(np.diag(r))
        return probs(rho, order, list(mp.wires) if len(mp.wires) else order)
    if kind == "PurityMP":
        r = reduced(rho, order, list(mp.wires))
        return float(np.trace(r @ r).real)
    if kind == "VnEntropyMP":
        return _entropy(reduced(rho, order, list(mp.wires)), mp.log_base)
    if kind == "MutualInfoMP":
        w0, w1 = [list(w) for w in mp.raw_wires]
        b = mp.log_base
        return _entropy(reduced(rho, order, w0), b) + _entropy(reduced(rho, order, w1), b) - _entropy(reduced(rho, order, w0 + w1), b)
    raise NotImplementedError(kind)


def run_tape(tape, order=None):
    order = list(order if order is not None else tape.wires)
    rho = run_ops(tape.operations, order)
    return tuple(measure(rho, mp, order) for mp in tape.measurements)


def selftest():
    rng = np.random.default_rng(7)
    # every reference channel is trace preserving and matches a hand-computed action
    pts = {"AmplitudeDamping": [0.3], "GeneralizedAmplitudeDamping": [0.3, 0.6], "PhaseDamping": [0.4],
           "DepolarizingChannel": [0.75], "BitFlip": [0.2], "PhaseFlip": [0.2], "ResetError": [0.2, 0.3],
           "ThermalRelaxationError": [0.1, 1.2, 1.3, 0.1]}
    for nm, ps in pts.items():
        K = channel_kraus(nm, ps)
        assert np.allclose(completeness(K), np.eye(2)), nm
    K = channel_kraus("PauliError", [0.3], {"operators": "XZ"})
    assert np.allclose(K[1], np.sqrt(0.3) * np.kron(X, Z))
    # fully depolarizing at p = 3/4
    S = superop(channel_kraus("DepolarizingChannel", [0.75]))
    rho = np.array([[0.7, 0.2 - 0.1j], [0.2 + 0.1j, 0.3]])
    assert np.allclose((S @ rho.reshape(-1)).reshape(2, 2), np.eye(2) / 2)
    # amplitude damping moves |1> to |0>
    S = superop(channel_kraus("AmplitudeDamping", [1.0]))
    assert np.allclose((S @ E11.reshape(-1)).reshape(2, 2), E00)
    # thermal relaxation: documented example value K[1][0,1] = 0.26825366 -> decay prob = (1-pe)(1-e^{-tg/t1})
    S = superop(channel_kraus("ThermalRelaxationError", [0.1, 1.2, 1.3, 0.1]))
    out = (S @ E11.reshape(-1)).reshape(2, 2)
    assert abs(out[0, 0] - 0.26825366**2) < 1e-8
    out = (S @ E01.reshape(-1)).reshape(2, 2)
    assert abs(out[0, 1] - np.exp(-0.1 / 1.3)) < 1e-12
    # T2 <= T1: the documented reset / phase-flip Kraus form (probabilities of the standard model) is the same channel
    pe, t1, t2, tg = 0.3, 2.0, 1.1, 0.7
    eT1, eT2 = np.exp(-tg / t1), np.exp(-tg / t2)
    pr = 1 - eT1
    pz = (1 - pr) * (1 - eT2 / eT1) / 2
    pr0, pr1 = (1 - pe) * pr, pe * pr
    Kd = [_s(1 - pz - pr0 - pr1) * I2, _s(pz) * Z, _s(pr0) * E00, _s(pr0) * E01, _s(pr1) * E10, _s(pr1) * E11]
    assert np.allclose(superop(Kd), superop(channel_kraus("ThermalRelaxationError", [pe, t1, t2, tg])))
    # evolution on a permuted order = kron picture
    A = rng.normal(size=(2, 2)) + 1j * rng.normal(size=(2, 2))
    r0 = A @ A.conj().T
    r0 /= np.trace(r0)
    full = np.kron(r0, E00)
    K = channel_kraus("AmplitudeDamping", [0.35])
    got = apply_kraus(full.reshape((2,) * 4), K, [0], 2).reshape(4, 4)
    exp = sum(np.kron(k, I2) @ full @ np.kron(k, I2).conj().T for k in K)
    assert np.allclose(got, exp)
    got = apply_kraus(full.reshape((2,) * 4), K, [1], 2).reshape(4, 4)
    exp = sum(np.kron(I2, k) @ full @ np.kron(I2, k).conj().T for k in K)
    assert np.allclose(got, exp)
    # partial trace / replace
    assert np.allclose(partial_trace(full.reshape((2,) * 4), [0], 2), r0)
    assert np.allclose(partial_trace(full.reshape((2,) * 4), [1], 2), E00)
    rep = replace_subsystem(full.reshape((2,) * 4), r0, [1], 2).reshape(4, 4)
    assert np.allclose(rep, np.kron(r0, r0))
    rep = replace_subsystem(full.reshape((2,) * 4), E11, [0], 2).reshape(4, 4)
    assert np.allclose(rep, np.kron(E11, E00))
