"""Branch-enumerating reference for dynamic circuits (numpy only, never calls PennyLane).

A program is a list of instructions over n qubit axes:

    ("U", M, axes)                          apply the 2^k x 2^k matrix M to the listed axes
    ("phase", phi)                          multiply by exp(-i phi)                    (PennyLane's GlobalPhase convention)
    ("M", axis, key, reset, postselect)     computational-basis measurement; outcome bit stored under `key`;
                                            reset=True returns the qubit to |0> afterwards; postselect in (None, 0, 1)
    ("PM", word, axes, key, postselect)     Pauli-product measurement of the word (e.g. "ZX") on `axes`;
                                            outcome 0 <-> eigenvalue +1, outcome 1 <-> eigenvalue -1
    ("C", predicate, instruction)           classically controlled instruction; predicate(outcomes: dict) -> truthy

`enumerate_branches(program, state)` walks all 2^k outcome histories. States are *unnormalised* tensors of shape
(2,)*n + batch, so a branch started from the identity (batch = input dimension) is that history's Kraus operator.
Branches whose norm is below `eps` are dropped (impossible histories); postselection drops the other outcome.
"""
import numpy as np

I2 = np.eye(2, dtype=complex)
PAULI = {"I": I2, "X": np.array([[0, 1], [1, 0]], dtype=complex), "Y": np.array([[0, -1j], [1j, 0]], dtype=complex),
         "Z": np.array([[1, 0], [0, -1]], dtype=complex)}


def apply(state, M, axes):
    """Apply M (2^k x 2^k, first listed axis most significant) to `axes` of a tensor (2,)*n + batch."""
    k = len(axes)
    if k == 0:
        return state * np.asarray(M).reshape(-1)[0]
    Mt = np.asarray(M, dtype=complex).reshape((2,) * (2 * k))
    out = np.tensordot(Mt, state, axes=(list(range(k, 2 * k)), list(axes)))
    rest = [a for a in range(state.ndim) if a not in axes]
    perm = [0] * state.ndim
    for i, a in enumerate(axes):
        perm[a] = i
    for j, a in enumerate(rest):
        perm[a] = k + j
    return np.transpose(out, perm)


def pauli_matrix(word):
    M = np.eye(1, dtype=complex)
    for c in word:
        M = np.kron(M, PAULI[c])
    return M


def project_bit(state, axis, bit):
    P = np.zeros((2, 2), dtype=complex)
    P[bit, bit] = 1
    return apply(state, P, [axis])


def project_pauli(state, word, axes, bit):
    P = pauli_matrix(word)
    proj = (np.eye(P.shape[0]) + (1 - 2 * bit) * P) / 2
    return apply(state, proj, list(axes))


def enumerate_branches(program, state, eps=1e-12, max_measurements=14):
    """-> list of (outcomes dict, unnormalised final tensor), one entry per possible outcome history."""
    n_meas = sum(1 for ins in program if _kind(ins) in ("M", "PM"))
    if n_meas > max_measurements:
        raise ValueError(f"{n_meas} measurements exceed the enumeration bound")
    out = []

    def run(pos, st, outcomes):
        while pos < len(program):
            ins = program[pos]
            kind = ins[0]
            if kind == "C":
                if not ins[1](outcomes):
                    pos += 1
                    continue
                ins = ins[2]
                kind = ins[0]
                if kind in ("M", "PM"):
                    raise ValueError("conditional measurements are not supported")
            if kind == "U":
                st = apply(st, ins[1], list(ins[2]))
            elif kind == "phase":
                st = st * np.exp(-1j * ins[1])
            elif kind in ("M", "PM"):
                post = ins[4]
                for bit in (0, 1):
                    if post is not None and int(post) != bit:
                        continue
                    if kind == "M":
                        nb = project_bit(st, ins[1], bit)
                        if ins[3] and bit == 1:
                            nb = apply(nb, PAULI["X"], [ins[1]])
                    else:
                        nb = project_pauli(st, ins[1], ins[2], bit)
                    if np.abs(nb).max() < eps:
                        continue
                    run(pos + 1, nb, {**outcomes, ins[2 if kind == "M" else 3]: bit})
                return
            else:
                raise ValueError(f"unknown instruction {kind!r}")
            pos += 1
        out.append((outcomes, st))

    run(0, np.asarray(state, dtype=complex), {})
    return out


def _kind(ins):
    return ins[2][0] if ins[0] == "C" else ins[0]


def kraus_input(n_in, n_total):
    """Identity on the first n_in axes, |0> on the rest: tensor (2,)*n_total + (2^n_in,)."""
    d = 2**n_in
    st = np.zeros((d, 2 ** (n_total - n_in), d), dtype=complex)
    st[np.arange(d), 0, np.arange(d)] = 1
    return st.reshape((2,) * n_total + (d,))


def factor_out(K, U, tol=1e-9):
    """K: (d_sys, d_aux, m) branch operator, U: (d_sys, m). If K = c * U (x) |w> with |w> normalised return
    (c, w, residual) else (None, None, residual)."""
    d_sys, d_aux, m = K.shape
    nu = np.vdot(U, U).real
    # least squares: v[a] = <U, K[:, a, :]> / <U, U>
    v = np.array([np.vdot(U, K[:, a, :]) for a in range(d_aux)]) / nu
    res = float(np.abs(K - U[:, None, :] * v[None, :, None]).max())
    norm = np.linalg.norm(v)
    if res > tol or norm < 1e-12:
        return None, None, res
    # fix the phase convention: c carries the phase of the largest component of v
    j = int(np.argmax(np.abs(v)))
    ph = v[j] / abs(v[j])
    return norm * ph, v / (norm * ph), res


def selftest():
    H = np.array([[1, 1], [1, -1]], dtype=complex) / np.sqrt(2)
    # teleportation-style check: measuring |+> gives two branches of weight 1/2
    st = np.zeros((2,), dtype=complex)
    st[0] = 1
    br = enumerate_branches([("U", H, [0]), ("M", 0, "a", False, None)], st)
    assert len(br) == 2 and all(abs(np.vdot(s, s) - 0.5) < 1e-12 for _, s in br)
    # reset returns |0>; conditional X on outcome 1 acts only in that branch
    br = enumerate_branches([("U", H, [0]), ("M", 0, "a", True, None), ("C", lambda o: o["a"], ("U", PAULI["X"], [0]))], st)
    finals = {o["a"]: s for o, s in br}
    assert abs(finals[0][0]) > 0.7 and abs(finals[1][1]) > 0.7
    # postselection keeps one branch; impossible histories are dropped
    assert len(enumerate_branches([("M", 0, "a", False, None)], st)) == 1
    assert len(enumerate_branches([("U", H, [0]), ("M", 0, "a", False, 1)], st)) == 1
    # Pauli measurement of ZZ on a Bell state is deterministic (+1)
    bell = np.zeros((2, 2), dtype=complex)
    bell[0, 0] = bell[1, 1] = 2**-0.5
    br = enumerate_branches([("PM", "ZZ", [0, 1], "m", None)], bell)
    assert len(br) == 1 and br[0][0]["m"] == 0
    br = enumerate_branches([("PM", "XI", [0, 1], "m", None)], bell)
    assert len(br) == 2
    # Kraus bookkeeping: measuring an ancilla prepared by CNOT copies the data bit
    CN = np.eye(4, dtype=complex)[[0, 1, 3, 2]]
    br = enumerate_branches([("U", CN, [0, 1]), ("M", 1, "m", True, None)], kraus_input(1, 2))
    assert len(br) == 2
    for o, K in br:
        K = K.reshape(2, 2, 2)
        P = np.zeros((2, 2))
        P[o["m"], o["m"]] = 1
        assert np.allclose(K[:, 0, :], P) and np.allclose(K[:, 1, :], 0)
    c, w, r = factor_out(np.einsum("sm,a->sam", H, np.array([0, 1j])), H)
    assert abs(abs(c) - 1) < 1e-12 and abs(abs(w[1]) - 1) < 1e-12
