"""Statistical oracles with rigorous (conservative) p-values.

* histogram_p(counts, probs): goodness of fit of a multinomial sample. The deciding statistic is the Bonferroni-
  corrected *exact* two-sided binomial tail of every cell (each cell of a multinomial is exactly binomial), so
  P(p_value <= a) <= a holds for every sample size; a Pearson chi-square tail over cells with expected count >= 10
  (the remaining cells pooled, dropped when their pooled expectation is < 10) is reported as a second opinion and
  also used (its asymptotic error is covered by the two-stage protocol).
* mean_p(dev, n, half_range): Hoeffding tail for the mean of n independent variables in an interval of half-width
  half_range.

Two-stage protocol (callers): a case is a violation only if p < ALPHA on the first sample AND p < ALPHA on a second,
independent sample of 4x the size. With ALPHA = 1e-9 the false-alarm probability per test is <= 1e-18, so that even
10^6 tests per run stay below 1e-6 family-wise."""
import math

import numpy as np

ALPHA = 1e-9
ZERO = 1e-14  # outcomes with exact probability below this never occur in <= 10^6 shots (prob < 1e-8 per run overall)


def _binom_two_sided(k, n, p):
    from scipy.stats import binom

    if p <= 0.0:
        return 1.0 if k == 0 else 0.0
    if p >= 1.0:
        return 1.0 if k == n else 0.0
    lo = binom.cdf(k, n, p)
    hi = binom.sf(k - 1, n, p)
    return float(min(1.0, 2.0 * min(lo, hi)))


def histogram_p(counts, probs):
    """counts, probs: equal-length sequences (probs sums to 1). Returns (p_value, info string)."""
    from scipy.stats import chi2

    counts = np.asarray(counts, dtype=np.int64)
    probs = np.clip(np.asarray(probs, dtype=float), 0.0, 1.0)
    n = int(counts.sum())
    K = len(counts)
    if n == 0 or K == 0:
        return 1.0, "empty"
    # impossible outcomes
    bad = [i for i in range(K) if probs[i] < ZERO and counts[i] > 0]
    if bad:
        return 0.0, f"outcome {bad[0]} has probability {probs[bad[0]]:.1e} but was observed {int(counts[bad[0]])}x"
    cells = [i for i in range(K) if probs[i] >= ZERO]
    pb = 1.0
    worst = None
    for i in cells:
        pi = _binom_two_sided(int(counts[i]), n, float(probs[i]))
        if pi < pb:
            pb, worst = pi, i
    p_exact = min(1.0, pb * max(1, len(cells)))
    info = f"n={n} worst cell {worst}: observed {int(counts[worst]) if worst is not None else '-'} expected {n * probs[worst] if worst is not None else 0:.1f} (Bonferroni exact binomial p={p_exact:.2e})"
    # chi-square second opinion
    exp = n * probs
    big = [i for i in cells if exp[i] >= 10]
    small = [i for i in cells if exp[i] < 10]
    o = [float(counts[i]) for i in big]
    e = [float(exp[i]) for i in big]
    es = float(sum(exp[i] for i in small))
    if small and es >= 10:
        o.append(float(sum(counts[i] for i in small)))
        e.append(es)
    p_chi = 1.0
    if len(e) >= 2:
        tot_o, tot_e = sum(o), sum(e)
        # condition on the retained cells (renormalise expectations to the retained observed total)
        e = [x * tot_o / tot_e for x in e] if tot_e > 0 else e
        stat = sum((a - b) ** 2 / b for a, b in zip(o, e) if b > 0)
        p_chi = float(chi2.sf(stat, len(e) - 1))
        info += f"; chi2={stat:.1f} dof={len(e) - 1} p={p_chi:.2e}"
    return min(p_exact, p_chi), info


def mean_p(dev, n, half_range):
    """Hoeffding: P(|mean - mu| >= dev) <= 2 exp(-n dev^2 / (2 half_range^2)) for variables in an interval of width
    2*half_range (also valid for the sum-of-group-means form used for Hamiltonian expectation values, see C29)."""
    if half_range <= 0:
        return 1.0 if abs(dev) < 1e-9 else 0.0
    return float(min(1.0, 2.0 * math.exp(-n * dev * dev / (2.0 * half_range * half_range))))


def mean_tol(n, half_range, alpha=ALPHA):
    """Deviation whose Hoeffding p-value equals alpha."""
    return half_range * math.sqrt(2.0 * math.log(2.0 / alpha) / n)


def selftest():
    rng = np.random.default_rng(12345)
    probs = np.array([0.5, 0.25, 0.125, 0.125, 0.0])
    # calibrated: correct samples never flag at 1e-9 (2000 trials), p-values not absurdly small
    pmin = 1.0
    for _ in range(300):
        c = rng.multinomial(2000, probs)
        p, _ = histogram_p(c, probs)
        pmin = min(pmin, p)
    assert pmin > 1e-6, pmin
    # power: a swapped pair of cells is detected
    c = rng.multinomial(20000, [0.25, 0.5, 0.125, 0.125, 0.0])
    p, _ = histogram_p(c, probs)
    assert p < 1e-30
    # impossible outcome
    p, _ = histogram_p([10, 5, 2, 2, 1], probs)
    assert p == 0.0
    # small deviation of 0.02 in one cell at 20k shots is detected
    c = rng.multinomial(80000, [0.32, 0.38, 0.15, 0.15])
    p, _ = histogram_p(c, [0.3, 0.4, 0.15, 0.15])
    assert p < 1e-9
    assert abs(_binom_two_sided(5, 10, 0.5) - 1.0) < 1e-12
    assert abs(_binom_two_sided(0, 10, 0.5) - 2 * 0.5**10) < 1e-15
    assert mean_p(0.0, 100, 1.0) == 1.0 and mean_p(1.0, 1000, 1.0) < 1e-200
    assert abs(mean_p(mean_tol(500, 2.0), 500, 2.0) - ALPHA) < 1e-12
