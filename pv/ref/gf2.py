"""Brute-force GF(2) linear algebra on Python ints / nested lists (reference for C50).

A vector is a list of 0/1; internally rows are packed into ints (bit j <-> column j). Everything here is written
for obviousness, not speed: spans are enumerated explicitly (2^rank elements)."""


def pack(v):
    return sum((int(x) & 1) << j for j, x in enumerate(v))


def unpack(m, n):
    return [(m >> j) & 1 for j in range(n)]


def span(vectors):
    """Set of all GF(2) linear combinations of the packed vectors."""
    s = {0}
    for v in vectors:
        if v not in s:
            s |= {x ^ v for x in s}
    return s


def rank(rows):
    """rows: list of lists. Rank = log2 |row space|."""
    n = len(span([pack(r) for r in rows]))
    return n.bit_length() - 1


def transpose(rows, ncols=None):
    if not rows:
        return [[] for _ in range(ncols or 0)]
    return [[r[j] for r in rows] for j in range(len(rows[0]))]


def matvec(rows, x):
    return [sum(a * b for a, b in zip(r, x)) % 2 for r in rows]


def solutions(rows, b):
    """All x in {0,1}^n with rows @ x = b (mod 2), by enumeration."""
    n = len(rows[0]) if rows else 0
    packed = [pack(r) for r in rows]
    out = []
    for m in range(1 << n):
        if all((bin(p & m).count("1") & 1) == bi for p, bi in zip(packed, b)):
            out.append(unpack(m, n))
    return out


def is_rref(rows):
    """Structural definition of reduced row-echelon form over GF(2)."""
    last = -1
    seen_zero = False
    pivots = []
    for r in rows:
        nz = [j for j, x in enumerate(r) if x]
        if not nz:
            seen_zero = True
            continue
        if seen_zero or nz[0] <= last:
            return False
        last = nz[0]
        pivots.append(last)
    for i, p in enumerate(pivots):
        col = [r[p] for r in rows]
        if sum(col) != 1 or col[i] != 1:
            return False
    return all(x in (0, 1) for r in rows for x in r)


def rref(rows):
    """Plain Gauss-Jordan elimination, column by column (the RREF is unique)."""
    M = [list(r) for r in rows]
    nr = len(M)
    nc = len(M[0]) if M else 0
    piv_row = 0
    for c in range(nc):
        sel = next((i for i in range(piv_row, nr) if M[i][c]), None)
        if sel is None:
            continue
        M[piv_row], M[sel] = M[sel], M[piv_row]
        for i in range(nr):
            if i != piv_row and M[i][c]:
                M[i] = [(x + y) % 2 for x, y in zip(M[i], M[piv_row])]
        piv_row += 1
        if piv_row == nr:
            break
    return M


def all_matrices(nr, nc):
    for m in range(1 << (nr * nc)):
        yield [[(m >> (i * nc + j)) & 1 for j in range(nc)] for i in range(nr)]


def all_vectors(n):
    for m in range(1 << n):
        yield unpack(m, n)


def selftest():
    for nr in range(1, 4):
        for nc in range(1, 4):
            for A in all_matrices(nr, nc):
                R = rref(A)
                assert is_rref(R), (A, R)
                assert span([pack(r) for r in R]) == span([pack(r) for r in A])
                assert rank(A) == rank(transpose(A)) == sum(1 for r in R if any(r))
    assert not is_rref([[1, 1], [0, 1]]) and not is_rref([[0, 0], [1, 0]]) and not is_rref([[0, 1], [1, 0]])
    assert is_rref([[1, 0, 1], [0, 1, 1], [0, 0, 0]])
    assert solutions([[1, 0, 0], [0, 1, 1], [1, 0, 1]], [1, 1, 1]) == [[1, 1, 0]]
    assert rank([[0, 1, 1, 0], [0, 1, 0, 1], [1, 0, 1, 1], [1, 0, 0, 0]]) == 3
