"""Shared plumbing for the decomposition-registry properties (C10 / C11 / C13).

Enumerates decomposition rules through the public registry API (`qp.list_decomps`), calls a rule the way
`register_resources` documents it (positional data + `wires=` + hyper-parameters for legacy operators, the
operator's `arguments` for abstractable operators), records the queue and resolves dynamically allocated
wires to fresh labels.  No oracle lives here.
"""
from hypothesis import strategies as st

POOLS = [list(range(10)), list("abcdefghij"), [3, "x", 0, "q1", 7, 2, "w", 11, "aux", 5]]


def wire_pool(n=10):
    return st.sampled_from(POOLS).flatmap(lambda p: st.permutations(p[:n])).map(list)


# ---------------------------------------------------------------------------------------------
# target construction: leaf spec (pv.specs) under explicit symbolic wrappers
# ---------------------------------------------------------------------------------------------

def build_target(spec):
    """{"op": "A"|"P"|"C", "base": spec, ...} builds the *symbolic* operator class directly (as the
    repository's own assert_valid does), so that `C(RX)` is a Controlled(RX), not a CRX. Anything else is
    delegated to pv.specs.build_op."""
    import pennylane as qp
    from pennylane.core.operator import Operator1

    from pv import specs

    kind = spec["op"]
    if kind == "A":
        return qp.adjoint(build_target(spec["base"]), lazy=True)
    if kind == "P":
        return qp.pow(build_target(spec["base"]), spec["z"], lazy=True)
    if kind == "C":
        base = build_target(spec["base"])
        cls = qp.ops.Controlled if isinstance(base, Operator1) else qp.ops.ControlledOp2
        cw = [specs.wire(w) for w in spec["cw"]]
        ww = [specs.wire(w) for w in spec.get("ww", [])]
        return cls(base, cw, [bool(v) for v in spec["cv"]], ww, spec.get("wwt", "borrowed"))
    try:
        from pv import zoo_decomp
    except ImportError:
        zoo_decomp = None
    if zoo_decomp is not None:
        if kind in zoo_decomp.CUSTOM:
            return zoo_decomp.CUSTOM[kind](spec, build_target)
        if spec.get("ctor") == "kw":
            return zoo_decomp._kwctor(spec, build_target)
    return specs.build_op(spec)


def reg_name(op):
    """Canonical registry name (`C(RX)`, `Adjoint(S)`, `Toffoli`, ...)."""
    import pennylane as qp
    from pennylane.core.operator import Operator1

    if isinstance(op, Operator1):
        try:
            return qp.decomposition.resource_rep(type(op), **op.resource_params).name
        except (TypeError, AttributeError, NotImplementedError):
            pass
    return op.name


def call_convention(op):
    """(resource params, positional args, keyword args) for a rule of `op`."""
    from pennylane.core.operator import Operator1, abstractify

    if isinstance(op, Operator1):
        return dict(op.resource_params), tuple(op.data), {"wires": op.wires, **op.hyperparameters}
    return dict(abstractify(op).arguments), (), dict(op.arguments)


def _has_measurement_resources(rule, params):
    import pennylane as qp
    from pennylane.decomposition import CompressedResourceOp

    if not rule.is_applicable(**params):
        return False
    for k in rule.compute_resources(**params).gate_counts:
        t = k.op_type if isinstance(k, CompressedResourceOp) else type(k)
        if issubclass(t, (qp.ops.MidMeasure, qp.ops.PauliMeasure)):
            return True
    return False


def _legacy_symbolic_rules(op, depth=0):
    """The rules the decomposition graph adds for symbolic wrappers around legacy operators (they are not
    listed by `list_decomps`): documented in DecompositionGraph._get_decompositions. Built only from the
    public rule factories in qp.decomposition.symbolic_decomposition."""
    import pennylane as qp
    from pennylane.core.operator import Operator1
    from pennylane.decomposition import resource_rep
    from pennylane.decomposition import symbolic_decomposition as sd

    if not isinstance(op, Operator1):
        return []
    listed = listed_rules(op)
    t = type(op)
    out = []
    if isinstance(op, qp.ops.Adjoint):
        if sd.self_adjoint_legacy in listed or sd.adjoint_rotation in listed:
            return []
        if isinstance(op.base, qp.ops.Adjoint):
            return [sd.cancel_adjoint]
        bp = op.base.resource_params
        for br in all_rules(op.base, depth + 1):
            if br.get_work_wire_spec(**bp).total == 0 and not _has_measurement_resources(br, bp):
                out.append(sd.make_adjoint_decomp(br))
    elif isinstance(op, qp.ops.Pow):
        if op.z == 0:
            return [qp.decomposition.null_decomp]
        if op.z == 1:
            return [sd.decompose_to_base_legacy]
        if isinstance(op.base, qp.ops.Pow):
            return [sd.merge_powers]
        if isinstance(op.base, qp.ops.Adjoint):
            return [sd.flip_pow_adjoint]
        return [sd.repeat_pow_base]
    elif t in (qp.ops.Controlled, qp.ops.ControlledOp):
        if isinstance(op.base, qp.ops.Adjoint):
            return [sd.flip_control_adjoint]
        if type(op.base) in (qp.GlobalPhase, qp.ops.ChangeOpBasis):
            return []
        bp = op.base.resource_params
        for br in all_rules(op.base, depth + 1):
            if not _has_measurement_resources(br, bp):
                out.append(sd.make_controlled_decomp(br))
        out.append(sd.to_controlled_qubit_unitary)
        out.append(sd.ctrl_single_work_wire)
    del resource_rep
    return out


def listed_rules(op):
    """qp.list_decomps for an instance. Abstractable operators dispatch on the instance (this also yields the
    generated adjoint(..)/controlled(..) rules); legacy operators are looked up by their canonical registry
    name ("Pow(CPhaseShift10)"), because a legacy Pow instance is *named* "CPhaseShift10**3"."""
    import pennylane as qp
    from pennylane.core.operator import Operator1

    if isinstance(op, Operator1):
        try:
            name = qp.decomposition.resource_rep(type(op), **op.resource_params).name
        except (TypeError, AttributeError, NotImplementedError):
            name = type(op).__name__
        return list(qp.list_decomps(name))
    return list(qp.list_decomps(op))


def all_rules(op, depth=0):
    """Registered rules for the operator instance, in registry order."""
    rules = listed_rules(op)
    if depth < 3:
        names = {r.name for r in rules}
        for r in _legacy_symbolic_rules(op, depth):
            if r.name not in names or r.name == "_impl":
                rules.append(r)
    return rules


def applicable_rules(op):
    params, _, _ = call_convention(op)
    return [r for r in all_rules(op) if r.is_applicable(**params)]


# ---------------------------------------------------------------------------------------------
# running a rule
# ---------------------------------------------------------------------------------------------

class Run:
    """ops: recorded operators (Allocate / Deallocate removed; DynamicWire objects are kept as wire labels,
    they are hashable and compare by identity key); allocs: per dynamic wire {"label", "state", "restored",
    "freed", "pos", "end"} (pos/end index into ops); has_measure: queue contains MidMeasure / PauliMeasure /
    Conditional; raw: the untouched queue."""

    def __init__(self):
        self.ops = []
        self.allocs = []
        self.has_measure = False
        self.raw = []


def run_rule(op, rule):
    import pennylane as qp

    _, args, kwargs = call_convention(op)
    with qp.queuing.AnnotatedQueue() as q:
        rule(*args, **kwargs)
    return resolve(list(q.queue))


def _is_dyn(w):
    return type(w).__name__ == "DynamicWire"


def resolve(queue):
    import pennylane as qp

    run = Run()
    run.raw = queue
    for o in queue:
        nm = type(o).__name__
        if nm == "Allocate":
            for w in o.wires:
                run.allocs.append({"label": w, "state": str(getattr(o.state, "value", o.state)), "restored": bool(o.restored),
                                   "freed": False, "pos": len(run.ops), "end": None})
            continue
        if nm == "Deallocate":
            for w in o.wires:
                for a in run.allocs:
                    if a["label"] == w:
                        a["freed"] = True
                        a["end"] = len(run.ops)
            continue
        if nm in ("MidMeasure", "MidMeasureMP", "PauliMeasure", "Conditional") or isinstance(
                o, (qp.ops.MidMeasure, qp.ops.PauliMeasure, qp.ops.Conditional)):
            run.has_measure = True
        if not isinstance(o, qp.operation.Operator):
            if isinstance(o, qp.measurements.MeasurementProcess):
                run.has_measure = True
                run.ops.append(o)
            continue
        run.ops.append(o)
    return run


# ---------------------------------------------------------------------------------------------
# instance space shared by C10 / C11 / C13
# ---------------------------------------------------------------------------------------------

INT_POWERS = [2, 3, 4, 8, 9, -1, -2, 0, 1, 5]
FRAC_POWERS = [0.5, 1.5, -0.5, 0.25, 2.5, 0.75]
# fixed (parameter-free) gates whose fractional powers are well defined through the principal branch
FRACTIONAL_OK = ("PauliX", "PauliY", "PauliZ", "Hadamard", "S", "T", "SX", "SWAP", "ISWAP", "SISWAP", "CNOT", "CZ", "CY")


def leaf_names():
    from pv import zoo
    try:
        from pv import zoo_decomp  # noqa: F401  (registers more builders into zoo.ZOO)
    except ImportError:
        pass
    return sorted(n for n, (_, _, tags) in zoo.ZOO.items() if tags & {"unitary", "decomp", "stateprep"})


def _ctrl_wrap(draw, base, free, max_ctrl=4, max_work=3):
    if not free:     # no wire left for a control (the leaf / an inner wrapper used the whole pool): leave the target as it is
        return base, free
    k = draw(st.integers(1, min(max_ctrl, len(free))))
    cw = free[:k]
    cv = draw(st.one_of(st.just([1] * k), st.just([0] * k), st.lists(st.integers(0, 1), min_size=k, max_size=k)))
    nw = draw(st.sampled_from([0, 0, 1, 1, 2, 3]))
    ww = free[k:k + nw]
    out = {"op": "C", "base": base, "cw": cw, "cv": cv}
    if ww:
        out["ww"] = ww
        out["wwt"] = draw(st.sampled_from(["zeroed", "borrowed"]))
    return out, free[k + len(ww):]


@st.composite
def targets(draw, names=None, leaf_wires=4, forms=None):
    """{"t": wrapped leaf spec, "r": rule selector}"""
    from pv import specs, zoo

    names = names or leaf_names()
    name = draw(st.sampled_from(names))
    pool = draw(wire_pool())
    form = draw(st.sampled_from(forms or ["B", "B", "B", "A", "A", "P", "P", "C", "C", "C", "C", "N"]))
    builder, minw, _ = zoo.ZOO[name]
    k = max(minw, leaf_wires if form in ("B", "A", "P") else 3)
    leaf = draw(builder(pool[:k]))
    used = specs.spec_wires(leaf)
    free = [w for w in pool if w not in used]
    zs = INT_POWERS + (FRAC_POWERS if name in FRACTIONAL_OK else [])
    if form == "B":
        t = leaf
    elif form == "A":
        t = {"op": "A", "base": leaf}
    elif form == "P":
        t = {"op": "P", "base": leaf, "z": draw(st.sampled_from(zs))}
    elif form == "C":
        t, _ = _ctrl_wrap(draw, leaf, free)
    else:
        kind = draw(st.sampled_from(["AA", "PP", "PA", "CA", "AC", "AP", "CP", "CC"]))
        if kind == "AA":
            t = {"op": "A", "base": {"op": "A", "base": leaf}}
        elif kind == "PP":
            t = {"op": "P", "base": {"op": "P", "base": leaf, "z": draw(st.sampled_from([2, 3, -1]))}, "z": draw(st.sampled_from([2, 3, -2]))}
        elif kind == "PA":
            t = {"op": "P", "base": {"op": "A", "base": leaf}, "z": draw(st.sampled_from([2, 3, -1, 4]))}
        elif kind == "AP":
            t = {"op": "A", "base": {"op": "P", "base": leaf, "z": draw(st.sampled_from([2, 3]))}}
        elif kind == "CA":
            t, _ = _ctrl_wrap(draw, {"op": "A", "base": leaf}, free, 3, 2)
        elif kind == "CP":
            t, _ = _ctrl_wrap(draw, {"op": "P", "base": leaf, "z": draw(st.sampled_from([2, 3]))}, free, 2, 1)
        elif kind == "AC":
            t, _ = _ctrl_wrap(draw, leaf, free, 2, 1)
            t = {"op": "A", "base": t}
        else:
            t, rest = _ctrl_wrap(draw, leaf, free, 2, 1)
            t, _ = _ctrl_wrap(draw, t, rest, 2, 1)
    return {"t": t, "r": draw(st.integers(0, 11))}


def leaf_of(t):
    while t["op"] in ("A", "P", "C"):
        t = t["base"]
    return t


def form_of(t):
    s = ""
    while t["op"] in ("A", "P", "C"):
        s += t["op"]
        t = t["base"]
    return s or "B"


def select(spec):
    """-> (op, rule, params). Raises pv.engine.Reject when no rule reports itself applicable."""
    from pv.engine import Reject

    op = build_target(spec["t"])
    params, _, _ = call_convention(op)
    rules = [r for r in all_rules(op) if r.is_applicable(**params)]
    if not rules:
        raise Reject("no applicable rule")
    return op, rules[spec["r"] % len(rules)], params


def work_wires_of(op):
    """User-supplied work wires and their declared type ('zeroed' | 'borrowed'), outermost wrapper first."""
    ww = list(getattr(op, "work_wires", None) or [])
    wwt = getattr(op, "work_wire_type", None) or "borrowed"
    return [w for w in ww if w not in op.wires], wwt


def specs_wires(t):
    from pv import specs

    leaf = t
    while leaf["op"] in ("A", "P", "C") and "base" in leaf:
        leaf = leaf["base"]
    return specs.spec_wires(leaf)


def sweep(per_form=None, maxw=9, names=None):
    """Deterministic finite sub-domain: for every zoo leaf and wrapper form a few fixed instances (drawn from the
    same strategy with Hypothesis' derandomised generator, the all-minimal first example skipped) and, for each
    instance, one case per applicable rule. Yields specs."""
    import warnings

    from hypothesis import HealthCheck, Phase, given, settings

    warnings.simplefilter("ignore")
    per_form = per_form or {"B": 2, "A": 1, "P": 2, "C": 3}
    for name in (names or leaf_names()):
        for form, k in per_form.items():
            got = []

            @settings(max_examples=k + 1, derandomize=True, database=None, deadline=None, phases=[Phase.generate],
                      suppress_health_check=list(HealthCheck))
            @given(targets(names=[name], forms=[form]))
            def collect(s):
                got.append(s)

            try:
                collect()
            except Exception:  # noqa: BLE001
                continue
            seen = set()
            for s in got[1:] or got:
                key = repr(s["t"])
                if key in seen:
                    continue
                seen.add(key)
                try:
                    op = build_target(s["t"])
                    n = len(applicable_rules(op))
                except Exception:  # noqa: BLE001
                    n = 1  # let check() surface the problem
                for r in range(n):
                    yield {"t": s["t"], "r": r, "maxw": maxw}
                if form in ("B", "A", "P") and "C" in per_form and len(specs_wires(s["t"])) <= 4:
                    # fixed control patterns for every leaf: the control-on-zero and mixed branches of controlled
                    # rules are easy to get wrong and rare under uniform sampling
                    for cw, cv, ww, wwt in ((["kc1"], [1], [], None), (["kc1"], [0], [], None), (["kc1", "kc2"], [0, 1], [], None),
                                            (["kc1", "kc2"], [1, 1], ["kw1"], "zeroed"), (["kc1", "kc2", "kc3"], [1, 0, 0], ["kw1"], "borrowed")):
                        t = {"op": "C", "base": s["t"], "cw": cw, "cv": cv}
                        if ww:
                            t["ww"], t["wwt"] = ww, wwt
                        try:
                            n2 = len(applicable_rules(build_target(t)))
                        except Exception:  # noqa: BLE001
                            n2 = 1
                        for r in range(n2):
                            yield {"t": t, "r": r, "maxw": maxw}
