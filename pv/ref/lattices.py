"""Reference models for lattice spin / fermion Hamiltonians (numpy only).

* Pauli-sentence algebra on dicts {tuple(sorted((wire, letter))): complex} and a Jordan-Wigner map.
* Geometric neighbour enumeration: sites r = cell . vectors + basis position, index = row-major(cell) * n_sl + sl;
  shell k = k-th smallest distinct interatomic distance of the INFINITE lattice; a pair {i, j} is a k-th neighbour
  pair when some periodic image of j (translations by n_cells[a] * vectors[a] on periodic axes only) lies in shell k of i.
"""
import itertools
import math

import numpy as np

# ------------------------------------------------------------------------------------------------ Pauli algebra
_MUL = {
    ("X", "Y"): (1j, "Z"), ("Y", "X"): (-1j, "Z"),
    ("Y", "Z"): (1j, "X"), ("Z", "Y"): (-1j, "X"),
    ("Z", "X"): (1j, "Y"), ("X", "Z"): (-1j, "Y"),
}


def word(*letters):
    """word((0,'X'),(3,'Z')) -> canonical key."""
    return tuple(sorted(((w, p) for w, p in letters if p != "I"), key=lambda t: t[0]))


def mul_words(a, b):
    d = dict(a)
    ph = 1
    for w, p in b:
        if w not in d:
            d[w] = p
        elif d[w] == p:
            del d[w]
        else:
            f, q = _MUL[(d[w], p)]
            ph *= f
            d[w] = q
    return ph, tuple(sorted(d.items(), key=lambda t: t[0]))


def s_add(a, b, fb=1):
    out = dict(a)
    for k, v in b.items():
        out[k] = out.get(k, 0) + fb * v
    return out


def s_mul(a, b):
    out = {}
    for ka, va in a.items():
        for kb, vb in b.items():
            ph, k = mul_words(ka, kb)
            out[k] = out.get(k, 0) + ph * va * vb
    return out


def s_scale(a, c):
    return {k: c * v for k, v in a.items()}


def s_clean(a, tol=1e-13):
    return {k: v for k, v in a.items() if abs(v) > tol}


def s_dagger(a):
    return {k: np.conj(v) for k, v in a.items()}


def s_diff(a, b, tol=1e-10):
    out = []
    for k in set(a) | set(b):
        if abs(a.get(k, 0) - b.get(k, 0)) > tol:
            out.append((k, a.get(k, 0), b.get(k, 0)))
    return sorted(out, key=repr)


def from_pennylane(ps):
    """PauliSentence -> dict in the canonical key format (wires coerced to int: the Bravyi-Kitaev map labels
    some wires numpy.float64(3.0))."""
    out = {}
    for pw, c in ps.items():
        k = tuple(sorted(((int(w), str(p)) for w, p in pw.items() if str(p) != "I"), key=lambda t: t[0]))
        out[k] = out.get(k, 0) + complex(c)
    return out


_P = {"I": np.eye(2), "X": np.array([[0, 1], [1, 0]]), "Y": np.array([[0, -1j], [1j, 0]]), "Z": np.diag([1, -1])}


def dense(sent, n):
    M = np.zeros((2 ** n, 2 ** n), dtype=complex)
    for k, c in sent.items():
        letters = ["I"] * n
        for w, p in k:
            letters[w] = p
        m = np.array([[1.0 + 0j]])
        for l in letters:
            m = np.kron(m, _P[l])
        M += c * m
    return M


# Jordan-Wigner: c_p^dagger = Z_0..Z_{p-1} (X_p - iY_p)/2
def jw_create(p):
    zs = tuple((q, "Z") for q in range(p))
    return {word(*zs, (p, "X")): 0.5, word(*zs, (p, "Y")): -0.5j}


def jw_annihilate(p):
    zs = tuple((q, "Z") for q in range(p))
    return {word(*zs, (p, "X")): 0.5, word(*zs, (p, "Y")): 0.5j}


def jw_number(p):
    return s_mul(jw_create(p), jw_annihilate(p))


def jw_hop(p, q, amp=1.0):
    """amp * c_p^dagger c_q + conj(amp) * c_q^dagger c_p"""
    return s_add(s_scale(s_mul(jw_create(p), jw_annihilate(q)), amp),
                 s_scale(s_mul(jw_create(q), jw_annihilate(p)), np.conj(amp)))


# ------------------------------------------------------------------------------------------------ geometry
S3 = math.sqrt(3)
SHAPES = {
    "chain": ([[1.0]], [[0.0]]),
    "square": ([[0, 1], [1, 0]], [[0, 0]]),
    "rectangle": ([[0, 1], [1, 0]], [[0, 0]]),
    "triangle": ([[1, 0], [0.5, S3 / 2]], [[0, 0]]),
    "honeycomb": ([[1, 0], [0.5, S3 / 2]], [[0, 0], [0.5, 0.5 / S3]]),
    "kagome": ([[1, 0], [0.5, S3 / 2]], [[0, 0], [-0.25, S3 / 4], [0.25, S3 / 4]]),
    "lieb": ([[0, 1], [1, 0]], [[0, 0], [0.5, 0], [0, 0.5]]),
    "cubic": (np.eye(3).tolist(), [[0, 0, 0]]),
    "bcc": (np.eye(3).tolist(), [[0, 0, 0], [0.5, 0.5, 0.5]]),
    "fcc": (np.eye(3).tolist(), [[0, 0, 0], [0.5, 0.5, 0], [0.5, 0, 0.5], [0, 0.5, 0.5]]),
    "diamond": ([[0, 0.5, 0.5], [0.5, 0, 0.5], [0.5, 0.5, 0]], [[0, 0, 0], [0.25, 0.25, 0.25]]),
}
# textbook coordination numbers of the first three neighbour shells (uniform lattices)
COORDINATION = {
    "chain": [2, 2, 2], "square": [4, 4, 4], "rectangle": [4, 4, 4], "triangle": [6, 6, 6],
    "honeycomb": [3, 6, 3], "kagome": [4, 4, 6], "cubic": [6, 12, 8], "bcc": [8, 6, 12], "fcc": [12, 6, 24],
    "diamond": [4, 12, 12],
}
COORDINATION_BY_SUBLATTICE = {"lieb": [[4, 2, 2]]}     # first shell only: corner site 4, edge-centre sites 2


def site_index(cell, sl, n_cells, n_sl):
    idx = 0
    for c, n in zip(cell, n_cells):
        idx = idx * n + c
    return idx * n_sl + sl


def decode_site(idx, n_cells, n_sl):
    sl = idx % n_sl
    idx //= n_sl
    cell = []
    for n in reversed(n_cells):
        cell.append(idx % n)
        idx //= n
    return tuple(reversed(cell)), sl


def _reach(vectors, positions, cutoff):
    """cell-coefficient range guaranteed to contain every lattice point within `cutoff` of any basis atom."""
    V = np.asarray(vectors, dtype=float)
    P = np.asarray(positions, dtype=float)
    spread = max(np.linalg.norm(a - b) for a in P for b in P)
    inv = np.linalg.inv(V)
    return [int(math.ceil((cutoff + spread) * np.linalg.norm(inv[:, a]) + 1e-9)) for a in range(len(V))]


def shells(vectors, positions, cutoff, tol=1e-6):
    """Sorted distinct interatomic distances (0 < d <= cutoff) of the infinite lattice."""
    V = np.asarray(vectors, dtype=float)
    P = np.asarray(positions, dtype=float)
    R = _reach(V, P, cutoff)
    ds = []
    for cell in itertools.product(*[range(-r, r + 1) for r in R]):
        t = np.asarray(cell, dtype=float) @ V
        for a in P:
            for b in P:
                d = np.linalg.norm(b + t - a)
                if tol < d <= cutoff + tol:
                    ds.append(d)
    ds.sort()
    out = []
    for d in ds:
        if not out or d - out[-1] > tol:
            out.append(d)
    return out


def neighbour_table(vectors, positions, n_cells, pbc, cutoff, tol=1e-6):
    """list of (i, j, distance, min-image displacement) for every ordered site pair / image with 0 < d <= cutoff
    (i == j appears when a site sees its own periodic image)."""
    V = np.asarray(vectors, dtype=float)
    P = np.asarray(positions, dtype=float)
    n_sl = len(P)
    R = _reach(V, P, cutoff)
    bonds = []          # (cell offset, sa, sb, d, disp) within the cutoff, independent of the cell
    for c in itertools.product(*[range(-r, r + 1) for r in R]):
        off = np.asarray(c)
        for sa in range(n_sl):
            for sb in range(n_sl):
                disp = off.astype(float) @ V + P[sb] - P[sa]
                d = float(np.linalg.norm(disp))
                if tol < d <= cutoff + tol:
                    bonds.append((c, sa, sb, d, disp))
    out = []
    for cell in itertools.product(*[range(n) for n in n_cells]):
        for c, sa, sb, d, disp in bonds:
            home = []
            ok = True
            for a, n in enumerate(n_cells):
                t = cell[a] + c[a]
                if 0 <= t < n:
                    home.append(t)
                elif pbc[a]:
                    home.append(t % n)
                else:
                    ok = False
                    break
            if ok:
                out.append((site_index(cell, sa, n_cells, n_sl), site_index(home, sb, n_cells, n_sl), d, disp))
    return out


def neighbour_edges(vectors, positions, n_cells, pbc, order, tol=1e-6):
    """Returns dict(edges=set of (min, max, k), self_image=bool, ambiguous=bool, multi=bool, degree=[per shell][site]).

    ambiguous: the k-th distinct distance realised in the finite lattice differs from the k-th shell of the infinite
    lattice for some k < order (shell numbering convention then undocumented)."""
    V = np.asarray(vectors, dtype=float)
    cutoff = order * max(np.linalg.norm(V, axis=1))
    sh = shells(vectors, positions, cutoff, tol)
    tab = neighbour_table(vectors, positions, n_cells, pbc, cutoff, tol)
    n_sites = int(np.prod(n_cells)) * len(positions)

    def shell_of(d):
        for k, s in enumerate(sh):
            if abs(d - s) <= 10 * tol:
                return k
        raise AssertionError(f"distance {d} not in shells {sh}")

    realised = sorted({shell_of(d) for _, _, d, _ in tab})
    ambiguous = any(realised[k] != k for k in range(min(order, len(realised))))
    edges = set()
    self_image = False
    degree = [[0] * n_sites for _ in range(order)]
    for i, j, d, _ in tab:
        k = shell_of(d)
        if k >= order:
            continue
        if i == j:
            self_image = True
            continue
        degree[k][i] += 1
        edges.add((min(i, j), max(i, j), k))
    pairs = [(a, b) for a, b, _ in edges]
    return {"edges": edges, "self_image": self_image, "ambiguous": ambiguous, "multi": len(set(pairs)) != len(pairs),
            "degree": degree, "shells": sh[:order], "n_sites": n_sites}


def translate_edge(a, b, n_cells, n_sl, pbc):
    """All translated copies of the custom edge (a, b): list of (site1, site2), orientation kept."""
    ca, sa = decode_site(a, n_cells, n_sl)
    cb, sb = decode_site(b, n_cells, n_sl)
    t = [y - x for x, y in zip(ca, cb)]
    out = []
    for cell in itertools.product(*[range(n) for n in n_cells]):
        tgt = []
        ok = True
        for ax, n in enumerate(n_cells):
            c = cell[ax] + t[ax]
            if 0 <= c < n:
                tgt.append(c)
            elif pbc[ax]:
                tgt.append(c % n)
            else:
                ok = False
                break
        if ok:
            out.append((site_index(cell, sa, n_cells, n_sl), site_index(tgt, sb, n_cells, n_sl)))
    return out


def selftest():
    # Pauli algebra
    assert mul_words(word((0, "X")), word((0, "Y"))) == (1j, word((0, "Z")))
    num = s_clean(jw_number(2))
    assert num == {(): 0.5, ((2, "Z"),): -0.5}
    # canonical anticommutation {c_1, c_2^dagger} = 0, {c_1, c_1^dagger} = 1
    ac = s_clean(s_add(s_mul(jw_annihilate(1), jw_create(2)), s_mul(jw_create(2), jw_annihilate(1))))
    assert ac == {}
    ac = s_clean(s_add(s_mul(jw_annihilate(1), jw_create(1)), s_mul(jw_create(1), jw_annihilate(1))))
    assert ac == {(): 1.0}
    hop = s_clean(jw_hop(0, 2))
    assert hop == {((0, "X"), (1, "Z"), (2, "X")): 0.5, ((0, "Y"), (1, "Z"), (2, "Y")): 0.5}
    # textbook coordination numbers from the geometric enumeration on a fully periodic 5^d / 3^3 patch
    for name, (vec, pos) in SHAPES.items():
        if name not in COORDINATION:
            continue
        dim = len(vec)
        n_cells = [5] * dim if dim < 3 else [3] * 3
        order = 3 if dim < 3 else 2
        r = neighbour_edges(vec, pos, n_cells, [True] * dim, order)
        assert not r["ambiguous"] and not r["self_image"], name
        for k in range(order):
            assert set(r["degree"][k]) == {COORDINATION[name][k]}, (name, k, set(r["degree"][k]))
    r = neighbour_edges(*SHAPES["lieb"], [5, 5], [True, True], 1)
    assert [r["degree"][0][s] for s in range(3)] == [4, 2, 2]
    # documented example: square [2,2] periodic along axis 0 only
    r = neighbour_edges(*SHAPES["square"], [2, 2], [True, False], 1)
    assert r["edges"] == {(2, 3, 0), (0, 2, 0), (1, 3, 0), (0, 1, 0)}
    # documented Lattice example (4-site basis, periodic along [1, 0]) -> 6 / 22 edges
    pos = [[0.2, 0.5], [0.5, 0.2], [0.5, 0.8], [0.8, 0.5]]
    r = neighbour_edges([[1, 0], [0, 1]], pos, [2, 2], [True, False], 1)
    assert r["edges"] == {(10, 13, 0), (0, 11, 0), (4, 15, 0), (2, 5, 0), (3, 8, 0), (7, 12, 0)}, r["edges"]
    assert len(neighbour_edges([[1, 0], [0, 1]], pos, [2, 2], [True, False], 2)["edges"]) == 22
    assert translate_edge(0, 4, [3, 3], 1, [False, False]) == [(0, 4), (1, 5), (3, 7), (4, 8)]
    assert decode_site(13, [2, 2], 4) == ((1, 1), 1)
