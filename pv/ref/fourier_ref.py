"""Reference model for C59: batched evaluation of small encoding circuits with the closed-form gate table
(numpy only, never calls PennyLane) and spectrum extraction by DFT.

Circuit spec (JSON):
  {"n": n_wires, "ops": [ {"g": NAME, "w": [wire idx...], "p": [PARAM...], "kw": {...}} ...], "x": [input values]}
PARAM is either {"c": const} or a linear form {"t": [[input j, num, den], ...], "b": offset}  (value = b + sum num/den * x_j).
Wires are 0..n-1, wire 0 = most significant axis.
"""
from fractions import Fraction
from math import gcd

import numpy as np

from . import gates as G


def lin_value(p, xs):
    """Value of a PARAM for inputs xs (each a scalar or an array of shape (N,))."""
    if "c" in p:
        return p["c"]
    v = p.get("b", 0.0)
    for j, num, den in p["t"]:
        v = v + (num / den) * xs[j]
    return v


def coeff_of(p, j):
    """Exact rational coefficient of input j in PARAM p."""
    if "c" in p:
        return Fraction(0)
    return sum((Fraction(num, den) for jj, num, den in p["t"] if jj == j), Fraction(0))


def _apply(psi, M, axes, n):
    """psi: (N,) + (2,)*n ; M: (d,d) or (N,d,d) acting on wire axes `axes` (0-based wires)."""
    k = len(axes)
    N = psi.shape[0]
    ax = [a + 1 for a in axes]
    rest = [a for a in range(1, n + 1) if a not in ax]
    t = np.transpose(psi, [0] + rest + ax).reshape(N, -1, 2**k)
    if M.ndim == 2:
        t = t @ M.T
    else:
        t = np.einsum("bij,brj->bri", M, t)
    t = t.reshape([N] + [2] * n)
    inv = np.argsort([0] + rest + ax)
    return np.transpose(t, inv)


def states(circ, xs, N):
    """Batched final states (N, 2**n) for inputs xs (list of scalars / (N,) arrays)."""
    n = circ["n"]
    psi = np.zeros((N,) + (2,) * n, dtype=complex)
    psi[(slice(None),) + (0,) * n] = 1
    for op in circ["ops"]:
        vals = [lin_value(p, xs) for p in op.get("p", [])]
        nw = len(op["w"])
        hyper = op.get("kw") or {}
        if any(np.ndim(v) for v in vals):
            vb = [np.broadcast_to(np.asarray(v, dtype=float), (N,)) for v in vals]
            M = np.stack([G.matrix(op["g"], [v[i] for v in vb], nw, hyper) for i in range(N)])
        else:
            M = G.matrix(op["g"], vals, nw, hyper)
        if M is None:
            raise KeyError(op["g"])
        psi = _apply(psi, np.asarray(M, dtype=complex), list(op["w"]), n)
    return psi.reshape(N, -1)


def expvals(circ, O, xs, N):
    """<psi(x)|O|psi(x)> for a full-space Hermitian matrix O; returns real (N,)."""
    psi = states(circ, xs, N)
    return np.einsum("bi,ij,bj->b", psi.conj(), O, psi).real


def probs(circ, idx, xs, N):
    psi = states(circ, xs, N)
    return np.abs(psi[:, idx]) ** 2


def f_batch(circ, out, xs, N):
    return expvals(circ, out["O"], xs, N) if "O" in out else probs(circ, out["idx"], xs, N)


def scan(circ, out, j, grid):
    """f along input j on `grid` (array), other inputs at circ['x']."""
    xs = list(circ["x"])
    xs[j] = np.asarray(grid, dtype=float)
    return f_batch(circ, out, xs, len(grid))


def spectrum_1d(circ, out, j, thresh=1e-8, max_diff=1.0):
    """True frequencies of x_j -> f(x) (other inputs at circ['x']) by DFT on a commensurate grid.

    Frequencies are sums of (coefficient of x_j) * (eigenvalue differences); for the gate table every difference is a multiple of
    1/2 and at most `max_diff` per gate parameter. Returns (sorted list of non-negative frequencies with amplitude > thresh,
    dict freq -> amplitude, K) -- the model is validated off-grid (AssertionError if the grid assumption fails)."""
    coeffs = [coeff_of(p, j) for op in circ["ops"] for p in op.get("p", [])]
    coeffs = [c for c in coeffs if c != 0]
    if not coeffs:
        return [0.0], {0.0: 1.0}, 1
    L = 1
    for c in coeffs:
        L = L * c.denominator // gcd(L, c.denominator)
    K = 2 * L
    B = float(sum(abs(c) for c in coeffs)) * max_diff
    kmax = int(np.ceil(B * K - 1e-9))
    N = 2 * kmax + 9
    P = 2 * np.pi * K
    x0 = circ["x"][j]
    grid = x0 + P * np.arange(N) / N
    f = scan(circ, out, j, grid)
    F = np.fft.fft(f) / N
    ks = np.fft.fftfreq(N, 1.0 / N).astype(int)
    # off-grid validation of the trigonometric model
    test = x0 + np.array([0.4321, 2.718281, -5.1234, 17.77])
    model = np.array([np.sum(F * np.exp(1j * ks / K * (t - x0))) for t in test]).real
    direct = scan(circ, out, j, test)
    scale = max(1.0, float(np.abs(f).max()))
    assert np.allclose(model, direct, atol=1e-9 * scale), ("reference DFT model invalid", float(np.abs(model - direct).max()))
    amp = {}
    for k, c in zip(ks, F):
        if k >= 0 and abs(c) > thresh * scale:
            amp[k / K] = float(abs(c))
    return sorted(amp), amp, K


def selftest():
    # RX(x) RY(0.3) RX(2x) on one wire, <Z>: frequencies within {0,1,2,3}
    circ = {"n": 1, "x": [0.37], "ops": [
        {"g": "RX", "w": [0], "p": [{"t": [[0, 1, 1]], "b": 0.0}]},
        {"g": "RY", "w": [0], "p": [{"c": 0.3}]},
        {"g": "RX", "w": [0], "p": [{"t": [[0, 2, 1]], "b": 0.1}]}]}
    out = {"O": G.Z}
    fr, amp, _ = spectrum_1d(circ, out, 0)
    assert set(fr) <= {0.0, 1.0, 2.0, 3.0} and 3.0 in fr and 1.0 in fr, fr
    # closed form for a single RX: <Z> = cos x
    c1 = {"n": 1, "x": [0.0], "ops": [{"g": "RX", "w": [0], "p": [{"t": [[0, 1, 2]]}]}]}
    g = np.linspace(-3, 3, 7)
    assert np.allclose(scan(c1, out, 0, g), np.cos(g / 2))
    fr, _, _ = spectrum_1d(c1, out, 0)
    assert fr == [0.5], fr
    # two wires, CNOT ordering: RX(x) on wire 1 then CNOT(1->0): <Z0> = cos x
    c2 = {"n": 2, "x": [0.0], "ops": [{"g": "RX", "w": [1], "p": [{"t": [[0, 1, 1]]}]}, {"g": "CNOT", "w": [1, 0]}]}
    assert np.allclose(scan(c2, {"O": np.kron(G.Z, G.I2)}, 0, g), np.cos(g))
