"""Closed-form matrices of named gates, written from the documented formulas (numpy only).
First listed wire = most significant qubit. Never calls PennyLane."""
import functools

import numpy as np
from numpy import cos, exp, sin, sqrt

I2 = np.eye(2, dtype=complex)
X = np.array([[0, 1], [1, 0]], dtype=complex)
Y = np.array([[0, -1j], [1j, 0]], dtype=complex)
Z = np.array([[1, 0], [0, -1]], dtype=complex)
H = np.array([[1, 1], [1, -1]], dtype=complex) / sqrt(2)
S = np.diag([1, 1j]).astype(complex)
T = np.diag([1, exp(1j * np.pi / 4)]).astype(complex)
SX = 0.5 * np.array([[1 + 1j, 1 - 1j], [1 - 1j, 1 + 1j]], dtype=complex)
PAULI = {"I": I2, "X": X, "Y": Y, "Z": Z}


def kron(*ms):
    return functools.reduce(np.kron, ms)


def controlled(U, n_ctrl=1, control_values=None):
    """Block formula sum_c |c><c| (x) (U if c == cv else I), controls most significant."""
    d = U.shape[0]
    cv = [1] * n_ctrl if control_values is None else [int(bool(v)) for v in control_values]
    idx = int("".join(map(str, cv)), 2) if cv else 0
    out = np.eye(d * 2**n_ctrl, dtype=complex)
    out[idx * d:(idx + 1) * d, idx * d:(idx + 1) * d] = U
    return out


def pauli_word(word):
    return kron(*[PAULI[c] for c in word]) if word else np.eye(1, dtype=complex)


def RX(t):
    c, s = cos(t / 2), sin(t / 2)
    return np.array([[c, -1j * s], [-1j * s, c]], dtype=complex)


def RY(t):
    c, s = cos(t / 2), sin(t / 2)
    return np.array([[c, -s], [s, c]], dtype=complex)


def RZ(t):
    return np.diag([exp(-0.5j * t), exp(0.5j * t)])


def PhaseShift(t):
    return np.diag([1, exp(1j * t)])


def Rot(phi, theta, omega):
    return RZ(omega) @ RY(theta) @ RZ(phi)


def U2(phi, delta):
    return np.array([[1, -exp(1j * delta)], [exp(1j * phi), exp(1j * (phi + delta))]], dtype=complex) / sqrt(2)


def U3(theta, phi, delta):
    c, s = cos(theta / 2), sin(theta / 2)
    return np.array([[c, -exp(1j * delta) * s], [exp(1j * phi) * s, exp(1j * (phi + delta)) * c]], dtype=complex)


SWAP = np.array([[1, 0, 0, 0], [0, 0, 1, 0], [0, 1, 0, 0], [0, 0, 0, 1]], dtype=complex)
ISWAP = np.array([[1, 0, 0, 0], [0, 0, 1j, 0], [0, 1j, 0, 0], [0, 0, 0, 1]], dtype=complex)
SISWAP = np.array([[1, 0, 0, 0], [0, 1 / sqrt(2), 1j / sqrt(2), 0], [0, 1j / sqrt(2), 1 / sqrt(2), 0], [0, 0, 0, 1]], dtype=complex)
ECR = np.array([[0, 0, 1, 1j], [0, 0, 1j, 1], [1, -1j, 0, 0], [-1j, 1, 0, 0]], dtype=complex) / sqrt(2)


def _exp_pauli(t, P):
    """exp(-i t/2 P) for P with P^2 = I."""
    return cos(t / 2) * np.eye(P.shape[0]) - 1j * sin(t / 2) * P


def IsingXX(t):
    return _exp_pauli(t, kron(X, X))


def IsingYY(t):
    return _exp_pauli(t, kron(Y, Y))


def IsingZZ(t):
    return _exp_pauli(t, kron(Z, Z))


def IsingXY(t):
    c, s = cos(t / 2), sin(t / 2)
    return np.array([[1, 0, 0, 0], [0, c, 1j * s, 0], [0, 1j * s, c, 0], [0, 0, 0, 1]], dtype=complex)


def PSWAP(t):
    e = exp(1j * t)
    return np.array([[1, 0, 0, 0], [0, 0, e, 0], [0, e, 0, 0], [0, 0, 0, 1]], dtype=complex)


def MultiRZ(t, n):
    return _exp_pauli(t, kron(*[Z] * n))


def PauliRot(t, word):
    return _exp_pauli(t, pauli_word(word))


def SingleExcitation(t, phase=0.0):
    c, s = cos(t / 2), sin(t / 2)
    e = exp(1j * phase * t / 2)
    return np.array([[e, 0, 0, 0], [0, c, -s, 0], [0, s, c, 0], [0, 0, 0, e]], dtype=complex)


def DoubleExcitation(t, phase=0.0):
    c, s = cos(t / 2), sin(t / 2)
    U = np.eye(16, dtype=complex) * exp(1j * phase * t / 2)
    U[3, 3] = c
    U[12, 12] = c
    U[3, 12] = -s
    U[12, 3] = s
    return U


def FermionicSWAP(t):
    e = exp(0.5j * t)
    c, s = cos(t / 2), sin(t / 2)
    return np.array([[1, 0, 0, 0], [0, e * c, -1j * e * s, 0], [0, -1j * e * s, e * c, 0], [0, 0, 0, exp(1j * t)]], dtype=complex)


def OrbitalRotation(t):
    """Documented circuit identity: fSWAP(pi) on wires (1,2), then SingleExcitation(t) on (0,1) and on
    (2,3), then fSWAP(pi) on (1,2) again (Jordan-Wigner, interleaved spin ordering)."""
    F = kron(I2, FermionicSWAP(np.pi), I2)
    G = kron(SingleExcitation(t), SingleExcitation(t))
    return F @ G @ F


def GlobalPhase(t, n=0):
    return exp(-1j * t) * np.eye(2**n, dtype=complex)


def CPhaseShift(t, which):
    d = np.ones(4, dtype=complex)
    d[which] = exp(1j * t)
    return np.diag(d)


def PCPhase(t, dim, n):
    d = [exp(1j * t)] * dim + [exp(-1j * t)] * (2**n - dim)
    return np.diag(d)


FIXED = {
    "Identity": lambda n: np.eye(2**n, dtype=complex),
    "PauliX": X, "PauliY": Y, "PauliZ": Z, "Hadamard": H, "S": S, "T": T, "SX": SX,
    "CNOT": controlled(X), "CY": controlled(Y), "CZ": controlled(Z), "CH": controlled(H),
    "SWAP": SWAP, "ISWAP": ISWAP, "SISWAP": SISWAP, "SQISW": SISWAP, "ECR": ECR,
    "CSWAP": controlled(SWAP), "Toffoli": controlled(X, 2), "CCZ": controlled(Z, 2),
}

PARAM = {
    "RX": RX, "RY": RY, "RZ": RZ, "PhaseShift": PhaseShift, "U1": PhaseShift, "Rot": Rot, "U2": U2, "U3": U3,
    "CRX": lambda t: controlled(RX(t)), "CRY": lambda t: controlled(RY(t)), "CRZ": lambda t: controlled(RZ(t)),
    "CRot": lambda a, b, c: controlled(Rot(a, b, c)),
    "ControlledPhaseShift": lambda t: CPhaseShift(t, 3), "CPhase": lambda t: CPhaseShift(t, 3),
    "CPhaseShift00": lambda t: CPhaseShift(t, 0), "CPhaseShift01": lambda t: CPhaseShift(t, 1),
    "CPhaseShift10": lambda t: CPhaseShift(t, 2),
    "IsingXX": IsingXX, "IsingYY": IsingYY, "IsingZZ": IsingZZ, "IsingXY": IsingXY, "PSWAP": PSWAP,
    "SingleExcitation": SingleExcitation,
    "SingleExcitationPlus": lambda t: SingleExcitation(t, 1.0),
    "SingleExcitationMinus": lambda t: SingleExcitation(t, -1.0),
    "DoubleExcitation": DoubleExcitation,
    "DoubleExcitationPlus": lambda t: DoubleExcitation(t, 1.0),
    "DoubleExcitationMinus": lambda t: DoubleExcitation(t, -1.0),
    "FermionicSWAP": FermionicSWAP, "OrbitalRotation": OrbitalRotation,
}


def matrix(name, params=(), n_wires=None, hyper=None):
    """Reference matrix for a named gate or None if the name is not in the table."""
    hyper = hyper or {}
    params = [complex(p).real if np.ndim(p) == 0 else p for p in params]
    if name == "Identity":
        return FIXED["Identity"](n_wires)
    if name in ("Barrier", "WireCut", "Snapshot"):
        return np.eye(2**n_wires, dtype=complex)
    if name in FIXED:
        return FIXED[name]
    if name in PARAM:
        return np.asarray(PARAM[name](*params), dtype=complex)
    if name == "MultiRZ":
        return MultiRZ(params[0], n_wires)
    if name == "PauliRot":
        return PauliRot(params[0], hyper["pauli_word"])
    if name == "GlobalPhase":
        return GlobalPhase(params[0], n_wires or 0)
    if name == "PCPhase":
        return PCPhase(params[0], hyper["dimension"][0] if isinstance(hyper["dimension"], (tuple, list)) else hyper["dimension"], n_wires)
    if name == "MultiControlledX":
        cv = hyper.get("control_values")
        return controlled(X, n_wires - 1, cv)
    return None


def selftest():
    for name, U in FIXED.items():
        if callable(U):
            continue
        assert np.allclose(U.conj().T @ U, np.eye(U.shape[0])), name
    assert np.allclose(FIXED["CNOT"] @ FIXED["CNOT"], np.eye(4))
    assert np.allclose(SX @ SX, X)
    assert np.allclose(SISWAP @ SISWAP, ISWAP)
    for f in (RX, RY, RZ, IsingXX, IsingYY, IsingZZ, IsingXY, SingleExcitation, DoubleExcitation, FermionicSWAP, OrbitalRotation):
        U = f(0.37)
        assert np.allclose(U.conj().T @ U, np.eye(U.shape[0])), f.__name__
        assert np.allclose(f(0.2) @ f(0.17), U), f.__name__
    psi = OrbitalRotation(0.1)[:, 12]
    assert np.allclose(psi[[3, 6, 9, 12]], [0.00249792, 0.04991671, -0.04991671, 0.99750208], atol=1e-7)
    assert np.allclose(Rot(0.1, 0.2, 0.3), U3(0.2, 0.3, 0.1) * exp(-0.5j * (0.1 + 0.3)))
