"""Reference implementations of the documented optimizer update rules (numpy only, written from the docstrings).

Every reference works on a list of float arrays (the trainable arguments only) and a callable
`grad(list_of_arrays) -> list_of_arrays`. State (accumulators, step counters) lives on the instance; `reset()`
returns to the initial state.
"""
import math

import numpy as np


class GD:
    """x <- x - eta * grad f(x)"""

    def __init__(self, stepsize):
        self.eta = stepsize

    def reset(self):
        pass

    def step(self, xs, grad):
        return [x - self.eta * g for x, g in zip(xs, grad(xs))]


class Momentum(GD):
    """a <- m a + eta grad f(x);  x <- x - a"""

    def __init__(self, stepsize, momentum):
        super().__init__(stepsize)
        self.m = momentum
        self.a = None

    def reset(self):
        self.a = None

    def _point(self, xs):
        return xs

    def step(self, xs, grad):
        if self.a is None:
            self.a = [np.zeros_like(x) for x in xs]
        gs = grad(self._point(xs))
        self.a = [self.m * a + self.eta * g for a, g in zip(self.a, gs)]
        return [x - a for x, a in zip(xs, self.a)]


class Nesterov(Momentum):
    """a <- m a + eta grad f(x - m a);  x <- x - a"""

    def _point(self, xs):
        return [x - self.m * a for x, a in zip(xs, self.a)]


class Adagrad(GD):
    """a_i <- a_i + g_i^2;  x_i <- x_i - eta / sqrt(a_i + eps) * g_i"""

    def __init__(self, stepsize, eps):
        super().__init__(stepsize)
        self.eps = eps
        self.a = None

    def reset(self):
        self.a = None

    def _acc(self, a, g):
        return a + g ** 2

    def step(self, xs, grad):
        if self.a is None:
            self.a = [np.zeros_like(x) for x in xs]
        gs = grad(xs)
        self.a = [self._acc(a, g) for a, g in zip(self.a, gs)]
        return [x - self.eta / np.sqrt(a + self.eps) * g for x, a, g in zip(xs, self.a, gs)]


class RMSProp(Adagrad):
    """a_i <- gamma a_i + (1 - gamma) g_i^2, then the Adagrad update"""

    def __init__(self, stepsize, decay, eps):
        super().__init__(stepsize, eps)
        self.gamma = decay

    def _acc(self, a, g):
        return self.gamma * a + (1 - self.gamma) * g ** 2


class Adam(GD):
    """a <- b1 a + (1-b1) g; b <- b2 b + (1-b2) g^2; eta_t = eta sqrt(1-b2^t)/(1-b1^t); x <- x - eta_t a/(sqrt(b)+eps)"""

    def __init__(self, stepsize, beta1, beta2, eps):
        super().__init__(stepsize)
        self.b1, self.b2, self.eps = beta1, beta2, eps
        self.reset()

    def reset(self):
        self.fm = self.sm = None
        self.t = 0

    def step(self, xs, grad):
        if self.fm is None:
            self.fm = [np.zeros_like(x) for x in xs]
            self.sm = [np.zeros_like(x) for x in xs]
        gs = grad(xs)
        self.t += 1
        self.fm = [self.b1 * a + (1 - self.b1) * g for a, g in zip(self.fm, gs)]
        self.sm = [self.b2 * b + (1 - self.b2) * g ** 2 for b, g in zip(self.sm, gs)]
        eta = self.eta * math.sqrt(1 - self.b2 ** self.t) / (1 - self.b1 ** self.t)
        return [x - eta * a / (np.sqrt(b) + self.eps) for x, a, b in zip(xs, self.fm, self.sm)]


def natural_direction(G, lam, g):
    """pinv(G + lam I) g with G given with shape g.shape + g.shape"""
    d = g.size
    M = np.asarray(G, dtype=float).reshape(d, d) + lam * np.eye(d)
    return (np.linalg.pinv(M) @ g.reshape(d)).reshape(g.shape)


class QNG(GD):
    """x <- x - eta pinv(g(x) + lam I) grad f(x); the metric is only refreshed when `recompute` is set."""

    def __init__(self, stepsize, lam):
        super().__init__(stepsize)
        self.lam = lam
        self.G = None

    def _dirs(self, xs, grad, metric, recompute):
        if recompute or self.G is None:
            self.G = [np.array(m, dtype=float) for m in metric(xs)]
        return [natural_direction(G, self.lam, g) for G, g in zip(self.G, grad(xs))]

    def step(self, xs, grad, metric, recompute=True):
        return [x - self.eta * d for x, d in zip(xs, self._dirs(xs, grad, metric, recompute))]


class MomentumQNG(QNG):
    """x(t+1) = x(t) + rho (x(t) - x(t-1)) - eta pinv(g) grad f(x(t))"""

    def __init__(self, stepsize, momentum, lam):
        super().__init__(stepsize, lam)
        self.rho = momentum
        self.prev = None

    def step(self, xs, grad, metric, recompute=True):
        dirs = self._dirs(xs, grad, metric, recompute)
        prev = self.prev if self.prev is not None else xs
        new = [x + self.rho * (x - p) - self.eta * d for x, p, d in zip(xs, prev, dirs)]
        self.prev = [np.array(x) for x in xs]
        return new


class SPSA:
    """theta <- theta - a_k ghat, ghat = (y+ - y-)/(2 c_k) * Delta^-1, a_k = a/(A+k)^alpha, c_k = c/k^gamma, k = 1, 2, ..."""

    def __init__(self, alpha, gamma, c, A, a):
        self.alpha, self.gamma, self.c, self.A, self.a = alpha, gamma, c, A, a
        self.k = 1

    def gains(self):
        return self.a / (self.A + self.k) ** self.alpha, self.c / self.k ** self.gamma

    def step(self, xs, yplus, yminus, deltas):
        ak, ck = self.gains()
        new = [x - ak * (yplus - yminus) / (2 * ck) / d for x, d in zip(xs, deltas)]
        self.k += 1
        return new


def trig_minimum(h, freqs, n_grid=4096, period=None, iters=50, all_minima=False):
    """Global minimum of a univariate trigonometric polynomial h with the given non-negative frequencies.
    Returns (x_min, y_min, gap) where gap = value of the best local minimum in another basin minus y_min
    (inf if there is a single basin); with all_minima the third entry is the sorted list of the other basins'
    minimum values instead. Dense grid over one period, then golden-section refinement."""
    pos = [f for f in freqs if f > 0]
    if period is None:
        period = 2 * math.pi / min(pos)
    xs = -period / 2 + period * np.arange(n_grid) / n_grid
    ys = np.array([float(h(x)) for x in xs])
    if np.ptp(ys) < 1e-13 * max(1.0, abs(ys[0])):
        return xs[0], float(ys[0]), ([] if all_minima else math.inf)        # constant function
    idx = [i for i in range(n_grid) if ys[i] < ys[i - 1] and ys[i] <= ys[(i + 1) % n_grid]]
    mins = []
    for i in idx:
        lo, hi = xs[i] - period / n_grid, xs[i] + period / n_grid
        gr = (math.sqrt(5) - 1) / 2
        c, d = hi - gr * (hi - lo), lo + gr * (hi - lo)
        fc, fd = float(h(c)), float(h(d))
        for _ in range(iters):
            if fc < fd:
                hi, d, fd = d, c, fc
                c = hi - gr * (hi - lo)
                fc = float(h(c))
            else:
                lo, c, fc = c, d, fd
                d = lo + gr * (hi - lo)
                fd = float(h(d))
        x = (lo + hi) / 2
        mins.append((float(h(x)), x))
    mins.sort()
    y0, x0 = mins[0]
    others = [y for y, x in mins[1:] if min(abs(x - x0), period - abs(x - x0)) > 4 * period / n_grid]
    if all_minima:
        return x0, y0, others
    return x0, y0, (others[0] - y0 if others else math.inf)


def selftest():
    # hand-computed two-step histories on f(x) = x^2 / 2 (grad = x), x0 = 1
    g = lambda xs: [xs[0].copy()]
    x = [np.array([1.0])]
    m = Momentum(0.1, 0.5)
    x = m.step(x, g)          # a = 0.1, x = 0.9
    x = m.step(x, g)          # a = 0.05 + 0.09 = 0.14, x = 0.76
    assert np.allclose(x[0], 0.76)
    n = Nesterov(0.1, 0.5)
    x = n.step([np.array([1.0])], g)      # a = 0.1 -> 0.9
    x = n.step(x, g)                      # grad at 0.9 - 0.05 = 0.85: a = 0.05 + 0.085 = 0.135 -> 0.765
    assert np.allclose(x[0], 0.765)
    ad = Adagrad(0.1, 0.0)
    x = ad.step([np.array([1.0])], g)     # a = 1, x = 0.9
    x = ad.step(x, g)                     # a = 1.81, x = 0.9 - 0.1 * 0.9 / sqrt(1.81)
    assert np.allclose(x[0], 0.9 - 0.09 / math.sqrt(1.81))
    am = Adam(0.1, 0.9, 0.99, 0.0)
    x = am.step([np.array([1.0])], g)     # fm = 0.1, sm = 0.01, eta_1 = 0.1 * sqrt(0.01) / 0.1 = 0.1 -> x = 1 - 0.1 * 0.1 / 0.1
    assert np.allclose(x[0], 0.9)
    q = QNG(0.5, 0.0)
    x = q.step([np.array([1.0, 2.0])], lambda xs: [xs[0].copy()], lambda xs: [np.diag([2.0, 4.0])])
    assert np.allclose(x[0], [1 - 0.25, 2 - 0.25])
    mq = MomentumQNG(0.5, 0.5, 0.0)
    x1 = mq.step([np.array([1.0])], g, lambda xs: [np.array([[1.0]])])      # 0.5
    x2 = mq.step(x1, g, lambda xs: [np.array([[1.0]])])                     # 0.5 + 0.5 * (-0.5) - 0.25 = 0.0
    assert np.allclose(x1[0], 0.5) and np.allclose(x2[0], 0.0)
    s = SPSA(0.602, 0.101, 0.2, 1.0, 0.3)
    ak, ck = s.gains()
    assert np.isclose(ak, 0.3 / 2 ** 0.602) and np.isclose(ck, 0.2)
    x0, y0, gap = trig_minimum(lambda t: 2 * math.sin(t + 0.3) + 1, [0, 1])
    assert abs(y0 + 1) < 1e-12 and gap == math.inf and abs(math.sin(x0 + 0.3) + 1) < 1e-12
    x0, y0, gap = trig_minimum(lambda t: math.cos(2 * t) + 0.1 * math.sin(t), [0, 1, 2])
    assert abs(gap - 0.2) < 1e-6
