"""Reference model for C63: time-dependent Hamiltonians and their propagators (numpy / scipy only, never calls PennyLane).

Coefficient spec (JSON), value f(p, t):
  {"f": "fixed", "c": c}                                    c                       (non-parametrised scalar coefficient)
  {"f": "constant", "p": v}                                 v
  {"f": "sin", "p": [a, w]}                                 a sin(w t)
  {"f": "poly", "p": [c_k, ..., c_0]}                       polyval(p, t)
  {"f": "gauss", "p": [a, s]}                               a exp(-s (t - 1)^2)
  {"f": "pwc", "span": [a, b], "p": [v_0..v_{n-1}]}        v_floor(n (t-a)/(b-a)) for a <= t < b, 0 outside     (documented binning)
  {"f": "pwcfn", "span": [a, b], "nb": n, "inner": smooth}  inner(linspace(a, b, n)[floor(n (t-a)/(b-a))]) inside, 0 outside
  {"f": "rect", "inner": smooth | {"f": "fixed"}, "win": [[a, b], ...]}   inner(t) inside any window, 0 outside

Every coefficient is turned into `branches`: a function mid -> smooth callable valid on the open segment containing `mid`,
plus the list of its discontinuity times, so that the integrator never steps across a jump."""
import numpy as np
from scipy.integrate import solve_ivp
from scipy.linalg import expm

from . import gates as G
from . import sim


def smooth_fn(c, p=None):
    """numpy callable t -> value for a smooth coefficient spec with parameter override p."""
    kind = c["f"]
    p = c.get("p") if p is None else p
    if kind == "fixed":
        v = float(c["c"])
        return lambda t: v + 0.0 * np.asarray(t)
    if kind == "constant":
        v = float(p)
        return lambda t: v + 0.0 * np.asarray(t)
    if kind == "sin":
        a, w = p
        return lambda t: a * np.sin(w * np.asarray(t))
    if kind == "poly":
        q = list(p)
        return lambda t: np.polyval(q, np.asarray(t))
    if kind == "gauss":
        a, s = p
        return lambda t: a * np.exp(-s * (np.asarray(t) - 1.0) ** 2)
    raise ValueError(kind)


def is_constant(c):
    return c["f"] in ("fixed", "constant", "pwc", "pwcfn") or (c["f"] == "rect" and is_constant(c["inner"]))


def params_of(c):
    """The parameter object handed to PennyLane for this coefficient (None for fixed)."""
    if c["f"] == "fixed":
        return None
    if c["f"] in ("rect", "pwcfn"):
        return c["inner"].get("p", 0.0) if c["inner"]["f"] != "fixed" else 0.0
    return c["p"]


def with_params(c, p):
    """Copy of the spec with its parameter object replaced."""
    c = dict(c)
    if c["f"] in ("rect", "pwcfn"):
        if c["inner"]["f"] != "fixed":
            c["inner"] = {**c["inner"], "p": p}
    elif c["f"] != "fixed":
        c["p"] = p
    return c


def breaks(c):
    kind = c["f"]
    if kind == "pwc":
        a, b = c["span"]
        n = len(c["p"])
        return [a + (b - a) * k / n for k in range(n + 1)]
    if kind == "pwcfn":
        a, b = c["span"]
        n = c["nb"]
        return [a + (b - a) * k / n for k in range(n + 1)]
    if kind == "rect":
        return [x for w in c["win"] for x in w] + breaks(c["inner"])
    return []


def branch(c, mid):
    """Smooth callable equal to the coefficient on the discontinuity-free segment around `mid`."""
    kind = c["f"]
    zero = lambda t: 0.0 * np.asarray(t)  # noqa: E731
    if kind == "pwc":
        a, b = c["span"]
        n = len(c["p"])
        if not a <= mid < b:
            return zero
        v = float(c["p"][int(np.floor(n * (mid - a) / (b - a)))])
        return lambda t: v + 0.0 * np.asarray(t)
    if kind == "pwcfn":
        a, b = c["span"]
        n = c["nb"]
        if not a <= mid < b:
            return zero
        k = int(np.floor(n * (mid - a) / (b - a)))
        v = float(smooth_fn(c["inner"])(np.linspace(a, b, n)[k]))
        return lambda t: v + 0.0 * np.asarray(t)
    if kind == "rect":
        if any(w[0] <= mid <= w[1] for w in c["win"]):
            return branch(c["inner"], mid)
        return zero
    return smooth_fn(c)


def value(c, t):
    return float(branch(c, t)(t))


# ----------------------------------------------------------------------------------------------------------------
# operators
# ----------------------------------------------------------------------------------------------------------------

def op_matrix(o, order):
    """o = {"terms": [[coef, word, wires], ...]} -> matrix on `order` (first wire most significant)."""
    d = 2 ** len(order)
    M = np.zeros((d, d), dtype=complex)
    for coef, word, wires in o["terms"]:
        M = M + coef * sim.embed(G.pauli_word(word), list(wires), list(order))
    return M


def expand_terms(terms, order):
    """Hamiltonian spec terms -> list of (coefficient-of-time factory, matrix, breakpoints).

    A term is {"coef": COEF, "op": OP} or a hardware drive
      {"hw": "rydberg", "amp": A, "phase": P, "det": D, "w": wires}:  pi*amp (cos(phase) sum X - sin(phase) sum Y) - 2 pi det sum n
      {"hw": "transmon", "amp": A, "phase": P, "freq": F, "w": wires}: 2 pi amp sin(phase + 2 pi freq t) sum Y
    Returns list of (fn(mid) -> callable t -> coefficient, matrix, breaks, is_constant)."""
    out = []
    for T in terms:
        if "hw" not in T:
            c = T["coef"]
            out.append((lambda mid, c=c: branch(c, mid), op_matrix(T["op"], order), breaks(c), is_constant(c)))
            continue
        ws = list(T["w"])
        X = op_matrix({"terms": [[1.0, "X", [w]] for w in ws]}, order)
        Y = op_matrix({"terms": [[1.0, "Y", [w]] for w in ws]}, order)
        A, P = T["amp"], T["phase"]
        br = breaks(A) + breaks(P)
        const = is_constant(A) and is_constant(P)
        if T["hw"] == "rydberg":
            D = T["det"]
            N = op_matrix({"terms": [[0.5, "I", [w]] for w in ws] + [[-0.5, "Z", [w]] for w in ws]}, order)
            if not (A["f"] == "fixed" and A["c"] == 0.0):
                out.append((lambda mid, A=A, P=P: (lambda t, a=branch(A, mid), p=branch(P, mid): np.pi * a(t) * np.cos(p(t))), X, br, const))
                out.append((lambda mid, A=A, P=P: (lambda t, a=branch(A, mid), p=branch(P, mid): -np.pi * a(t) * np.sin(p(t))), Y, br, const))
            if not (D["f"] == "fixed" and D["c"] == 0.0):
                out.append((lambda mid, D=D: (lambda t, d=branch(D, mid): -2 * np.pi * d(t)), N, breaks(D), is_constant(D)))
        else:
            F = T["freq"]
            out.append((lambda mid, A=A, P=P, F=F: (lambda t, a=branch(A, mid), p=branch(P, mid), f=branch(F, mid):
                                                   2 * np.pi * a(t) * np.sin(p(t) + 2 * np.pi * f(t) * t)), Y, br + breaks(F),
                        const and F["f"] == "fixed" and F["c"] == 0.0))
    return out


def hamiltonian_at(terms, order, t):
    H = 0
    for fn, M, _, _ in expand_terms(terms, order):
        H = H + fn(t)(t) * M
    return H


def propagate(terms, order, times, rtol=1e-11, atol=1e-13, dense=False):
    """[U(t_0,t_0), U(t_1,t_0), ..., U(t_f,t_0)] for increasing `times`, by expm on constant segments and DOP853 otherwise.
    With dense=True additionally returns a function tau -> U(tau, t_0) (piecewise dense output)."""
    ex = expand_terms(terms, order)
    d = 2 ** len(order)
    t0, tf = times[0], times[-1]
    pts = sorted({float(t) for t in times} | {float(b) for _, _, br, _ in ex for b in br if t0 < b < tf})
    U = np.eye(d, dtype=complex)
    snaps = {pts[0]: U}
    pieces = []
    for s0, s1 in zip(pts[:-1], pts[1:]):
        mid = 0.5 * (s0 + s1)
        fns = [(fn(mid), M) for fn, M, _, _ in ex]
        if all(c for _, _, _, c in ex):
            H = sum(f(mid) * M for f, M in fns)
            U0 = U
            U = expm(-1j * H * (s1 - s0)) @ U0
            pieces.append((s0, s1, lambda tau, H=H, U0=U0, s0=s0: expm(-1j * H * (tau - s0)) @ U0))
        else:
            def rhs(t, y, fns=fns):
                H = sum(f(t) * M for f, M in fns)
                return (-1j * H @ y.reshape(d, d)).reshape(-1)

            sol = solve_ivp(rhs, (s0, s1), U.reshape(-1), method="DOP853", rtol=rtol, atol=atol, dense_output=dense)
            assert sol.success, sol.message
            U = sol.y[:, -1].reshape(d, d)
            if dense:
                pieces.append((s0, s1, lambda tau, sol=sol: sol.sol(tau).reshape(d, d)))
        snaps[s1] = U
    out = [snaps[float(t)] for t in times]
    if dense:
        def at(tau):
            for s0, s1, f in pieces:
                if s0 <= tau <= s1:
                    return f(tau)
            raise ValueError(tau)

        return out, at
    return out


def selftest():
    order = [0]
    # constant H = 0.7 X for time 1.3 -> RX(2*0.7*1.3)
    terms = [{"coef": {"f": "constant", "p": 0.7}, "op": {"terms": [[1.0, "X", [0]]]}}]
    U = propagate(terms, order, [0.0, 1.3])[-1]
    assert np.allclose(U, G.RX(2 * 0.7 * 1.3), atol=1e-12)
    # single-term time dependent: a sin(w t) Y  -> RY(2 * integral)
    a, w, T = 0.9, 1.7, 2.1
    terms = [{"coef": {"f": "sin", "p": [a, w]}, "op": {"terms": [[1.0, "Y", [0]]]}}]
    U = propagate(terms, order, [0.0, T])[-1]
    theta = a / w * (1 - np.cos(w * T))
    assert np.allclose(U, G.RY(2 * theta), atol=1e-9), np.abs(U - G.RY(2 * theta)).max()
    # pwc: bins [0.3, -0.5] on (0, 2) evaluated over [0.5, 3] = Z-rotation by 0.3*0.5 + (-0.5)*1 + 0
    terms = [{"coef": {"f": "pwc", "span": [0.0, 2.0], "p": [0.3, -0.5]}, "op": {"terms": [[1.0, "Z", [0]]]}}]
    U = propagate(terms, order, [0.5, 3.0])[-1]
    assert np.allclose(U, G.RZ(2 * (0.3 * 0.5 - 0.5 * 1.0)), atol=1e-12)
    # documented pwc_from_function example: fn = 2 t + 4, timespan 10, 10 bins: value at t=3 is 10.6667, at 4.5 is 12.8889
    c = {"f": "pwcfn", "span": [0.0, 10.0], "nb": 10, "inner": {"f": "poly", "p": [2.0, 4.0]}}
    assert abs(value(c, 3.0) - 10.666667) < 1e-5 and abs(value(c, 4.5) - 12.888889) < 1e-5
    # two non-commuting time-dependent terms: composition law U(t2,t0) = U(t2,t1) U(t1,t0)
    terms = [{"coef": {"f": "sin", "p": [1.1, 0.8]}, "op": {"terms": [[1.0, "X", [0]]]}},
             {"coef": {"f": "poly", "p": [0.3, -0.2]}, "op": {"terms": [[1.0, "Z", [0]]]}}]
    Ua = propagate(terms, order, [0.2, 1.0, 2.5])
    Ub = propagate(terms, order, [1.0, 2.5])[-1]
    assert np.allclose(Ua[2], Ub @ Ua[1], atol=1e-9)
    # transmon doc example: amp = exp(-t^2), phase pi/2, freq 0 at t = 0 -> 2 pi Y
    terms = [{"hw": "transmon", "amp": {"f": "gauss", "p": [1.0, 1.0]}, "phase": {"f": "constant", "p": np.pi / 2},
              "freq": {"f": "fixed", "c": 0.0}, "w": [0]}]
    assert np.allclose(hamiltonian_at(terms, order, 1.0), 2 * np.pi * G.Y)
