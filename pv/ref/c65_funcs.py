"""Module-level (picklable) pure functions for C65, importable in spawned workers without importing pennylane.

Every function sleeps for a time derived from its first argument (delay class = first_arg % 4; 2 ms per class, 12 ms per class for arguments >= 64) so that the harness
controls the completion order of concurrently running tasks, then returns a tuple that records exactly which
arguments the call received. `mirror` builds the same value without calling the function (oracle side)."""
import time

UNIT_MS = 2.0        # first argument < 64 (thread / serial cases)
UNIT_SLOW_MS = 12.0  # first argument >= 64 (process pools: must dominate inter-process latency)


def delay_class(first):
    return first % 4


def _nap(first, _unused=None):
    d = delay_class(first)
    if d:
        time.sleep(d * (UNIT_MS if first < 64 else UNIT_SLOW_MS) / 1000.0)


def g1(x):
    _nap(x)
    return ("g1", x)


def g2(x, y):
    _nap(x)
    return ("g2", x, y)


def g3(x, y, z):
    _nap(x)
    return ("g3", x, y, z)


def g1k(x, offset=0):
    _nap(x)
    return ("g1k", x, ("offset", offset))


def g2k(x, y, scale=1, tag="t"):
    _nap(x)
    return ("g2k", x, y, ("scale", scale), ("tag", tag))


FUNCS = {"g1": g1, "g2": g2, "g3": g3, "g1k": g1k, "g2k": g2k}
# name -> (number of positional parameters, keyword defaults)
SIG = {"g1": (1, {}), "g2": (2, {}), "g3": (3, {}), "g1k": (1, {"offset": 0}), "g2k": (2, {"scale": 1, "tag": "t"})}


def mirror(name, *args, **kwargs):
    """What FUNCS[name](*args, **kwargs) returns, written down independently (no call, no sleep)."""
    npos, defaults = SIG[name]
    if len(args) != npos or any(k not in defaults for k in kwargs):
        raise TypeError(f"{name} called with {args} {kwargs}")
    kw = dict(defaults)
    kw.update(kwargs)
    return (name, *args, *[(k, kw[k]) for k in defaults])
