"""Extensions of pv.ref.dyn (numpy only, never calls PennyLane).

* measurement-value arithmetic: `ev(expr, outcomes)` evaluates a JSON expression tree over mid-circuit outcomes with
  the documented operator meanings (~ & | ^ are *logical* operators on truth values, + - * / arithmetic on the integer
  outcomes, comparisons give booleans);
* exact semantics of a dynamic circuit: `Exact(program, n)` enumerates the outcome histories with `dyn`, renormalises
  by the total weight of the histories that survive postselection and offers the branch-averaged density matrix and
  the exact distribution of functions of the outcomes;
* `walk(program, state, forced=..)`: a second interpreter that additionally knows measurements in a rotated basis
  (parametric mid-circuit measurements), conditional measurements and forced outcome histories (MBQC patterns).
"""
import numpy as np

from . import dyn

# ------------------------------------------------------------------------------------------------------------------
# measurement-value expressions
#   {"m": i}                      outcome of the i-th mid-circuit measurement (0/1)
#   {"k": number}                 constant (only as an operand)
#   {"f": "~", "x": e}            logical not
#   {"f": op, "x": e, "y": e}     op in & | ^ (logical), + - * / (arithmetic), == != < <= > >= (comparison)
# ------------------------------------------------------------------------------------------------------------------
LOGICAL = ("&", "|", "^")
ARITH = ("+", "-", "*", "/")
COMPARE = ("==", "!=", "<", "<=", ">", ">=")


def ev(e, outcomes):
    if "m" in e:
        return int(outcomes[e["m"]])
    if "k" in e:
        return e["k"]
    f = e["f"]
    x = ev(e["x"], outcomes)
    if f == "~":
        return not bool(x)
    y = ev(e["y"], outcomes)
    if f == "&":
        return bool(x) and bool(y)
    if f == "|":
        return bool(x) or bool(y)
    if f == "^":
        return bool(x) != bool(y)
    if f in ARITH:
        x = int(x) if isinstance(x, bool) else x
        y = int(y) if isinstance(y, bool) else y
        return x + y if f == "+" else x - y if f == "-" else x * y if f == "*" else x / y
    return {"==": x == y, "!=": x != y, "<": x < y, "<=": x <= y, ">": x > y, ">=": x >= y}[f]


def kind(e):
    """'b' boolean valued, 'i' number valued."""
    if "m" in e or "k" in e:
        return "i"
    return "i" if e["f"] in ARITH else "b"


def mcms_of(e):
    if "m" in e:
        return {e["m"]}
    if "k" in e:
        return set()
    return mcms_of(e["x"]) | (mcms_of(e["y"]) if "y" in e else set())


# ------------------------------------------------------------------------------------------------------------------
# exact semantics of a dynamic circuit
# ------------------------------------------------------------------------------------------------------------------
class Exact:
    """program: pv.ref.dyn instructions over n axes started in |0..0>; measurement keys are 0, 1, 2, ... ."""

    def __init__(self, program, n):
        st = np.zeros((2,) * n, dtype=complex)
        st[(0,) * n] = 1
        self.n = n
        br = dyn.enumerate_branches(program, st)
        self.raw = [(o, float(np.vdot(s, s).real), s) for o, s in br]
        self.p_valid = float(sum(w for _, w, _ in self.raw))  # probability that every postselection succeeds
        self.branches = [(o, w / self.p_valid, s.reshape(-1) / np.sqrt(w)) for o, w, s in self.raw] if self.p_valid > 0 else []

    def rho(self):
        d = 2**self.n
        r = np.zeros((d, d), dtype=complex)
        for _, p, psi in self.branches:
            r += p * np.outer(psi, psi.conj())
        return r

    def dist(self, fn):
        """exact distribution {value: probability} of fn(outcomes) over the surviving histories."""
        out = {}
        for o, p, _ in self.branches:
            v = fn(o)
            out[v] = out.get(v, 0.0) + p
        return out

    def predicate_varies(self, fn):
        return len({bool(fn(o)) for o, _, _ in self.branches}) > 1


def reduced(rho, n, axes):
    """reduced density matrix on `axes` (in that order) of an n-qubit density matrix."""
    axes = list(axes)
    k = len(axes)
    t = rho.reshape((2,) * (2 * n))
    rest = [a for a in range(n) if a not in axes]
    t = np.transpose(t, axes + rest + [n + a for a in axes] + [n + a for a in rest])
    t = t.reshape(2**k, 2 ** (n - k), 2**k, 2 ** (n - k))
    return np.einsum("arbr->ab", t)


def spectrum(O, r):
    """(distinct eigenvalues ascending, Born probabilities) of the Hermitian matrix O in state r."""
    O = (O + O.conj().T) / 2
    ev_, V = np.linalg.eigh(O)
    p = np.real(np.einsum("ik,ij,jk->k", V.conj(), r, V))
    scale = max(1.0, float(np.abs(ev_).max()))
    vals, probs = [], []
    for e, q in zip(ev_, p):
        if vals and abs(e - vals[-1]) <= 1e-7 * scale:
            probs[-1] += q
        else:
            vals.append(float(e))
            probs.append(float(q))
    return np.array(vals), np.clip(np.array(probs), 0.0, 1.0)


# ------------------------------------------------------------------------------------------------------------------
# second interpreter: rotated-basis / conditional measurements, forced histories
#   ("U", M, axes) | ("phase", phi)
#   ("M", axis, key, reset, postselect[, B])   B: 2x2 unitary; outcome b <-> projector B^dagger |b><b| B
#                                               (the post-measurement state is B^dagger|b>, or |0> with reset)
#   ("C", predicate, instruction)              any instruction, measurements included
#   ("CE", predicate, instr_true, instr_false)
# ------------------------------------------------------------------------------------------------------------------
def walk(program, state, forced=None, eps=1e-12):
    """forced=None: enumerate all histories -> [(outcomes, unnormalised state)]. forced=dict key->bit (or a callable
    key -> bit): follow that history only (keys not listed are enumerated)."""
    out = []
    program = list(program)

    def pick(key):
        if forced is None:
            return None
        if callable(forced):
            return forced(key)
        return forced.get(key)

    def run(pos, st, outcomes, pending):
        # `pending`: instructions injected by conditionals, executed before program[pos]
        while pending or pos < len(program):
            if pending:
                ins, pending = pending[0], pending[1:]
            else:
                ins = program[pos]
                pos += 1
            k = ins[0]
            if k == "C":
                if ins[1](outcomes):
                    pending = [ins[2]] + pending
                continue
            if k == "CE":
                pending = [ins[2] if ins[1](outcomes) else ins[3]] + pending
                continue
            if k == "U":
                st = dyn.apply(st, ins[1], list(ins[2]))
            elif k == "phase":
                st = st * np.exp(-1j * ins[1])
            elif k == "M":
                axis, key, reset, post = ins[1], ins[2], ins[3], ins[4]
                B = ins[5] if len(ins) > 5 else None
                f = pick(key)
                for bit in (0, 1):
                    if post is not None and int(post) != bit:
                        continue
                    if f is not None and int(f) != bit:
                        continue
                    nb = st if B is None else dyn.apply(st, B, [axis])
                    nb = dyn.project_bit(nb, axis, bit)
                    if reset:
                        if bit == 1:
                            nb = dyn.apply(nb, dyn.PAULI["X"], [axis])
                    elif B is not None:
                        nb = dyn.apply(nb, np.asarray(B).conj().T, [axis])
                    if np.abs(nb).max() < eps:
                        continue
                    run(pos, nb, {**outcomes, key: bit}, pending)
                return
            else:
                raise ValueError(f"unknown instruction {k!r}")
        out.append((outcomes, st))

    run(0, np.asarray(state, dtype=complex), {}, [])
    return out


# ------------------------------------------------------------------------------------------------------------------
# third interpreter: wire labels instead of axes, qubits appear on first touch (|0>) and disappear when they are
# measured with reset (they are |0> and unentangled afterwards), so that patterns which recycle qubits stay small.
#   ("U", M, wires) | ("phase", phi) | ("M", wire, key, reset, postselect, B or None) | ("C", pred, ins) | ("CE", pred, a, b)
# state: tensor of shape (2,)*len(live) + (batch,)
# ------------------------------------------------------------------------------------------------------------------
def walk_compact(program, live, state, forced=None, eps=1e-13):
    """forced: None (enumerate every history) or a sequence of bits consumed in execution order of the measurements
    (histories are enumerated beyond its end). Returns [(outcomes dict, keys in execution order, live wires, tensor)]."""
    out = []
    program = list(program)

    def touch(t, lv, wires):
        for w in wires:
            if w not in lv:
                nt = np.zeros(t.shape[:-1] + (2,) + t.shape[-1:], dtype=complex)
                nt[..., 0, :] = t
                t = nt
                lv = lv + [w]
        return t, lv

    def app(t, M, axes):
        # dyn.apply treats trailing axes as batch
        return dyn.apply(t, M, axes)

    def run(pos, t, lv, outcomes, order, pending):
        while pending or pos < len(program):
            if pending:
                ins, pending = pending[0], pending[1:]
            else:
                ins = program[pos]
                pos += 1
            k = ins[0]
            if k == "C":
                if ins[1](outcomes):
                    pending = [ins[2]] + pending
                continue
            if k == "CE":
                pending = [ins[2] if ins[1](outcomes) else ins[3]] + pending
                continue
            if k == "U":
                t, lv = touch(t, lv, ins[2])
                t = app(t, ins[1], [lv.index(w) for w in ins[2]])
            elif k == "phase":
                t = t * np.exp(-1j * ins[1])
            elif k == "M":
                w, key, reset, post = ins[1], ins[2], ins[3], ins[4]
                B = ins[5] if len(ins) > 5 else None
                t, lv = touch(t, lv, [w])
                ax = lv.index(w)
                f = forced[len(order)] if forced is not None and len(order) < len(forced) else None
                rot = t if B is None else app(t, B, [ax])
                for bit in (0, 1):
                    if post is not None and int(post) != bit:
                        continue
                    if f is not None and int(f) != bit:
                        continue
                    if reset:
                        nb = np.take(rot, bit, axis=ax)
                        nlv = lv[:ax] + lv[ax + 1:]
                    else:
                        nb = dyn.project_bit(rot, ax, bit)
                        if B is not None:
                            nb = app(nb, np.asarray(B).conj().T, [ax])
                        nlv = lv
                    if np.abs(nb).max() < eps:
                        continue
                    run(pos, nb, nlv, {**outcomes, key: bit}, order + [key], pending)
                return
            else:
                raise ValueError(f"unknown instruction {k!r}")
        out.append((outcomes, order, lv, t))

    run(0, np.asarray(state, dtype=complex), list(live), {}, [], [])
    return out


def arrange(t, lv, wires):
    """tensor of walk_compact -> matrix (2^len(wires), batch) on `wires` (all live wires must be listed)."""
    if sorted(map(repr, lv)) != sorted(map(repr, wires)):
        raise ValueError(f"live wires {lv} != requested {wires}")
    perm = [lv.index(w) for w in wires] + [len(lv)]
    return np.transpose(t, perm).reshape(2 ** len(wires), -1)


def selftest():
    dyn.selftest()
    H = np.array([[1, 1], [1, -1]], dtype=complex) / np.sqrt(2)
    X = dyn.PAULI["X"]
    # expressions
    o = {0: 1, 1: 0, 2: 1}
    m = lambda i: {"m": i}  # noqa: E731
    assert ev({"f": "~", "x": m(1)}, o) is True
    assert ev({"f": "-", "x": {"f": "~", "x": m(0)}, "y": {"f": "*", "x": {"k": 2}, "y": m(2)}}, o) == -2
    assert ev({"f": "==", "x": {"f": "+", "x": m(0), "y": {"f": "*", "x": {"k": 2}, "y": m(1)}}, "y": {"k": 1}}, o) is True
    assert ev({"f": "&", "x": m(0), "y": m(1)}, o) is False and ev({"f": "^", "x": m(0), "y": m(1)}, o) is True
    assert kind({"f": "<", "x": m(0), "y": {"k": 1}}) == "b" and kind({"f": "+", "x": m(0), "y": {"k": 1}}) == "i"
    # exact: RX then measure, conditional X on the second wire copies the bit; postselection renormalises
    t = 0.7
    RX = np.array([[np.cos(t / 2), -1j * np.sin(t / 2)], [-1j * np.sin(t / 2), np.cos(t / 2)]])
    prog = [("U", RX, [0]), ("M", 0, 0, False, None), ("C", lambda oc: oc[0], ("U", X, [1]))]
    ex = Exact(prog, 2)
    assert abs(ex.p_valid - 1) < 1e-12 and len(ex.branches) == 2
    r = ex.rho()
    assert abs(r[3, 3].real - np.sin(t / 2) ** 2) < 1e-12 and abs(r[0, 3]) < 1e-12
    assert abs(reduced(r, 2, [1])[1, 1].real - np.sin(t / 2) ** 2) < 1e-12
    ex = Exact([("U", RX, [0]), ("M", 0, 0, False, None), ("U", H, [0]), ("M", 0, 1, False, 1)], 1)
    assert abs(ex.p_valid - 0.5) < 1e-12
    d = ex.dist(lambda oc: oc[0])
    assert abs(d[1] - np.sin(t / 2) ** 2) < 1e-12  # H makes the second outcome independent of the first
    # the documented pilot case: RX, H, m0, RY, m1 postselected on 0
    ex = Exact([("U", RX, [0]), ("U", H, [0]), ("M", 0, 0, False, None), ("M", 0, 1, False, 0)], 1)
    assert abs(ex.dist(lambda oc: oc[0]).get(1, 0.0)) < 1e-12  # m1 = 0 right after m0 forces m0 = 0
    # walk: agrees with dyn on plain programs; X-basis measurement of |+> is deterministic; forced history
    st = np.zeros((2, 2), dtype=complex)
    st[0, 0] = 1
    a = dyn.enumerate_branches(prog, st)
    b = walk(prog, st)
    assert len(a) == len(b) and all(np.allclose(x[1], y[1]) and x[0] == y[0] for x, y in zip(a, b))
    one = np.array([1, 0], dtype=complex)
    br = walk([("U", H, [0]), ("M", 0, "a", False, None, H)], one)
    assert len(br) == 1 and br[0][0]["a"] == 0 and np.allclose(br[0][1], H @ one)
    br = walk([("U", H, [0]), ("M", 0, "a", False, None)], one, forced={"a": 1})
    assert len(br) == 1 and br[0][0]["a"] == 1 and abs(np.vdot(br[0][1], br[0][1]) - 0.5) < 1e-12
    # conditional measurement: measure in X basis if a == 1 else Z basis
    br = walk([("U", H, [0]), ("M", 0, "a", False, None), ("U", H, [1]),
               ("CE", lambda oc: oc["a"], ("M", 1, "b", False, None, H), ("M", 1, "b", False, None))], st)
    assert sorted((x[0]["a"], x[0]["b"]) for x in br) == [(0, 0), (0, 1), (1, 0)]
    # walk_compact: teleportation-like single step H pattern: |psi> -CZ- |+>, measure X on the first -> H|psi> up to X^m
    CZ = np.diag([1, 1, 1, -1]).astype(complex)
    ident = np.eye(2, dtype=complex).reshape(2, 2)
    prog3 = [("U", H, ["b"]), ("U", CZ, ["a", "b"]), ("M", "a", "m", True, None, H)]
    res = walk_compact(prog3, ["a"], ident)
    assert len(res) == 2
    for oc, order, lv, t in res:
        K = arrange(t, lv, ["b"])
        want = np.linalg.matrix_power(X, oc["m"]) @ H / np.sqrt(2)
        assert order == ["m"] and lv == ["b"] and np.allclose(K, want)
    res = walk_compact(prog3, ["a"], ident, forced=[1])
    assert len(res) == 1 and res[0][0]["m"] == 1
    # without reset the wire stays and holds the basis vector
    res = walk_compact([("M", "a", "m", False, None, H)], ["a"], ident)
    for oc, order, lv, t in res:
        v = H[:, oc["m"]]
        assert np.allclose(arrange(t, lv, ["a"]), np.outer(v, v.conj()))
