"""Fast spec generators: Hypothesis draws one block of raw bytes, `Draws` decodes it into the choices a generator
function asks for (uniform floats, integers, picks, samples).  There is no pseudo-random generator anywhere: every choice is
a Hypothesis-drawn 32-bit word read in order (wrapping around if a case needs more words than were drawn), so the JSON spec is
a pure decoding of the Hypothesis example.

Hypothesis composite strategies with many nested draws cost 20-50 ms per circuit; property modules whose oracle is cheap
use `seeded(fn)` instead."""
import math

from hypothesis import strategies as st

from pv import gen
from pv import specs as _specs

PI = math.pi
N_WORDS = 384


class Draws:
    """Decoder of a Hypothesis-drawn byte block with the subset of the `random.Random` interface the generators use."""

    def __init__(self, data):
        self.words = [int.from_bytes(data[i:i + 4], "big") for i in range(0, len(data) - 3, 4)] or [0]
        self.pos = 0

    def _next(self):
        w = self.words[self.pos % len(self.words)]
        self.pos += 1
        return w

    def random(self):
        return self._next() / 4294967296.0

    def uniform(self, a, b):
        return a + (b - a) * self.random()

    def randint(self, a, b):
        return a + self._next() % (b - a + 1)

    def choice(self, seq):
        return seq[self._next() % len(seq)]

    def shuffle(self, xs):
        for i in range(len(xs) - 1, 0, -1):
            j = self._next() % (i + 1)
            xs[i], xs[j] = xs[j], xs[i]

    def sample(self, seq, k):
        xs = list(seq)
        self.shuffle(xs)
        return xs[:k]


def seeded(fn):
    """Strategy producing fn(Draws(block)) for a Hypothesis-drawn block of bytes."""
    return st.binary(min_size=4 * N_WORDS, max_size=4 * N_WORDS).map(lambda b: fn(Draws(b)))


def angle(R, special=0.0):
    if special and R.random() < special:
        return R.choice(gen.SPECIAL)
    x = round(R.uniform(0.15, 2.9), 5)
    return x if R.random() < 0.5 else -x


def coin(R, p):
    return R.random() < p


def wire_labels(R, n):
    pool = R.choice(gen.WIRE_POOLS)[:max(n, 1)]
    pool = list(pool)
    R.shuffle(pool)
    return pool[:n]


def subset(R, ws, lo=1, hi=None):
    hi = len(ws) if hi is None else min(hi, len(ws))
    lo = min(lo, hi)
    k = R.randint(lo, hi)
    return R.sample(list(ws), k)


def gate(R, ws, pool=None, special=0.0):
    pool = pool or gen.ALL_GATES
    names = sorted(n for n, (_, k) in pool.items() if k <= len(ws))
    name = R.choice(names)
    npar, k = pool[name]
    return {"op": name, "p": [angle(R, special) for _ in range(npar)], "w": R.sample(list(ws), k)}


def op_list(R, ws, lo=0, hi=6, pool=None, p_adjoint=0.08, special=0.0):
    ops = []
    for _ in range(R.randint(lo, hi)):
        if ops and coin(R, p_adjoint):
            ops.append({"op": "adjoint", "base": R.choice(ops)})
        else:
            ops.append(gate(R, ws, pool, special))
    return ops


def pauli_word(R, ws, max_len=3, letters="XYZ", ident=0.0):
    sub = subset(R, ws, 1, max_len)
    names = {"X": "PauliX", "Y": "PauliY", "Z": "PauliZ", "H": "Hadamard", "I": "Identity"}
    fs = [{"op": "Identity" if coin(R, ident) else names[R.choice(letters)], "w": [w]} for w in sub]
    return fs[0] if len(fs) == 1 else {"op": "prod", "operands": fs}


# ------------------------------------------------------------------------------------------- builders (extended obs kinds)

def build_obs(s):
    import pennylane as qp

    k = s["op"]
    if k == "hamiltonian":
        return qp.Hamiltonian([_specs.param(c) for c in s["coeffs"]], [build_obs(o) for o in s["operands"]])
    if k == "lincomb":
        return qp.ops.LinearCombination([_specs.param(c) for c in s["coeffs"]], [build_obs(o) for o in s["operands"]])
    if k == "prod":
        return qp.prod(*[build_obs(o) for o in s["operands"]])
    if k == "sum":
        return qp.sum(*[build_obs(o) for o in s["operands"]])
    if k == "s_prod":
        return qp.s_prod(_specs.param(s["c"]), build_obs(s["base"]))
    return _specs.build_op(s)


def build_meas(m):
    import pennylane as qp

    obs = build_obs(m["obs"]) if m.get("obs") else None
    if obs is None:
        return _specs.build_meas(m)
    k = m["mp"]
    if k == "expval":
        return qp.expval(obs)
    if k == "var":
        return qp.var(obs)
    if k == "probs":
        return qp.probs(op=obs)
    if k == "sample":
        return qp.sample(op=obs)
    if k == "counts":
        return qp.counts(op=obs, all_outcomes=m.get("all_outcomes", False))
    raise ValueError(k)
