"""Full recursive decomposition of templates down to reference-simulable leaves, plus a batched runner.

`flatten(ops)` expands every operator with `op.decomposition()` until only leaves remain:
  * gates of the closed-form table pv.ref.gates (FIXED / PARAM / MultiRZ / PauliRot / PCPhase / MultiControlledX),
  * QubitUnitary / DiagonalQubitUnitary / GlobalPhase / Identity,
  * Adjoint / integer Pow / Controlled wrappers whose base is a leaf (evaluated structurally by pv.ref.sim).
Allocate / Deallocate are removed; their DynamicWire labels are reported so that the caller can append them to the
wire order as fresh |0> wires (DynamicWire objects are hashable and compare by identity).
No oracle lives here and PennyLane matrices are never used (sim.FALLBACKS is checked by `guard`)."""
import numpy as np

from . import gates as G
from . import sim

ADJ = ("Adjoint", "Adjoint2", "AdjointOperation", "AdjointOpObs", "AdjointObs")
POW = ("Pow2", "Pow", "PowOperation", "PowObs", "PowOpObs")
CTRL = ("Controlled", "ControlledOp", "ControlledOp2", "Controlled2")
PLAIN = ("GlobalPhase", "QubitUnitary", "DiagonalQubitUnitary", "Identity", "MultiControlledX", "MultiRZ", "PauliRot", "PCPhase")
SKIP = ("Barrier", "WireCut", "Snapshot")


class NoDecomposition(Exception):
    pass


def is_leaf(op, top=True):
    name = type(op).__name__
    if name in ADJ:
        return is_leaf(op.base, False)
    if name in POW:
        return float(op.z).is_integer() and is_leaf(op.base, False)
    if name in CTRL:
        return hasattr(op, "base") and is_leaf(op.base, False)
    if name in ("Evolution", "Exp"):     # exp(coeff * base) without a gate decomposition: evaluated by leaf_matrix (scipy expm of the
        return top and not getattr(op, "has_decomposition", False) and hasattr(op, "base") and hasattr(op, "coeff")  # structural base matrix)
    if name == "PCPhase":      # evaluated by leaf_matrix below (hyper-parameter is called "dim" in this PennyLane version)
        return top and all(np.ndim(p) == 0 for p in op.data)
    if name in PLAIN or name in G.FIXED or name in G.PARAM:
        return all(np.ndim(p) == 0 for p in op.data) or name in ("QubitUnitary", "DiagonalQubitUnitary")
    return False


def flatten(ops, stats=None, depth=0):
    """-> (leaves, dyn) ; dyn = list of {"wire", "restored"} in allocation order."""
    leaves, dyn = [], []
    _flat(list(ops), leaves, dyn, stats, depth)
    return leaves, dyn


def _flat(ops, leaves, dyn, stats, depth):
    if depth > 60:
        raise NoDecomposition("decomposition depth > 60")
    for op in ops:
        name = type(op).__name__
        if name == "Allocate":
            for w in op.wires:
                dyn.append({"wire": w, "restored": bool(getattr(op, "restored", False)),
                            "state": str(getattr(getattr(op, "state", None), "value", getattr(op, "state", None)))})
            continue
        if name == "Deallocate" or name in SKIP:
            continue
        if is_leaf(op):
            leaves.append(op)
            continue
        if stats is not None:
            stats[name] = stats.get(name, 0) + 1
        if not getattr(op, "has_decomposition", False):
            raise NoDecomposition(f"{name} is neither a reference leaf nor decomposable")
        _flat(list(op.decomposition()), leaves, dyn, stats, depth + 1)


def wires_of(ops):
    out = []
    for o in ops:
        for w in o.wires:
            if w not in out:
                out.append(w)
    return out


def run_batch(leaves, order, states):
    """Apply leaves to the columns of `states` (2^n x D) on wire order `order`; returns 2^n x D."""
    order = list(order)
    n = len(order)
    states = np.asarray(states, dtype=complex)
    D = states.shape[1]
    s = states.reshape((2,) * n + (D,))
    pos = {}
    for i, w in enumerate(order):
        pos[w] = i
    for op in leaves:
        name = type(op).__name__
        if name == "Identity":
            continue
        if name == "GlobalPhase":
            s = s * np.exp(-1j * float(np.asarray(op.data[0])))
            continue
        M = leaf_matrix(op)
        s = sim.apply(s, M, [pos[w] for w in op.wires], batch_axes=1)
    return s.reshape(2**n, D)


def leaf_matrix(op):
    if type(op).__name__ == "PCPhase":
        hyper = getattr(op, "hyperparameters", {}) or {}
        dim = hyper.get("dim", hyper.get("dimension"))
        dim = dim[0] if isinstance(dim, (tuple, list)) else dim
        return G.PCPhase(float(np.asarray(op.data[0])), int(dim), len(op.wires))
    if type(op).__name__ in ("Evolution", "Exp"):
        from scipy.linalg import expm

        B = sim.embed(sim.op_matrix(op.base), list(op.base.wires), list(op.wires))
        return expm(complex(np.asarray(op.coeff)) * B)
    return sim.op_matrix(op)


class guard:
    """Context manager: the reference simulator must not have fallen back to PennyLane matrices."""

    def __enter__(self):
        self.before = sum(sim.FALLBACKS.values())
        return self

    def __exit__(self, *exc):
        if exc[0] is None and sum(sim.FALLBACKS.values()) != self.before:
            raise RuntimeError(f"reference simulator used a PennyLane matrix fallback: {dict(sim.FALLBACKS)}")
        return False


def basis_index(bits):
    v = 0
    for b in bits:
        v = 2 * v + int(b)
    return v


def selftest():
    sim.selftest()
    X = np.zeros((4, 2), dtype=complex)
    X[0, 0] = 1
    X[3, 1] = 1

    class _Op:  # minimal stand-in (CNOT on wires b,a)
        data = ()
        hyperparameters = {}

        def __init__(self, w):
            self.wires = w

    _Op.__name__ = "CNOT"
    out = run_batch([_Op(["b", "a"])], ["a", "b"], X)
    # |a b> = |00> -> |00>, |11> -> control b=1 flips a -> |01>
    assert out[0, 0] == 1 and out[1, 1] == 1
