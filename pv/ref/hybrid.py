"""Hybrid (classical pre-processing + circuit) programs as JSON specs, with a plain-numpy reference.

Program spec
    {"args":  [{"shape": [] | [k], "val": [floats]} ...],           QNode arguments
     "wires": [labels],
     "ops":   [opspec ...],                                           see below
     "meas":  [measurement spec as in pv.specs ...]}

Operator specs are those of pv.specs, except that every entry of "p" is an *expression* of the QNode
arguments:
    ["arg", a, i]   component i of argument a (i = None: the whole argument; a vector argument used whole
                    makes the gate parameter a broadcast batch)
    ["const", c] | ["mul", c, e] | ["sin", e] | ["cos", e] | ["sq", e] | ["add", e, e] | ["prod", e, e]
plus two extra operator kinds
    {"op": "evolve", "H": <observable spec>, "t": expr}               exp(-i t H)
    {"op": "pow", "z": z, "base": opspec}                             fractional power (principal branch)
Wrappers "adjoint" / "ctrl" contain a "base" spec of the same kind.

Reference: `reference(prog)` returns f(x_flat) -> list of numpy arrays (one per measurement, with a leading
batch axis if the program is broadcast), evaluated with math / numpy for the expressions and pv.ref.sim for
the circuit (gate matrices from pv.ref.gates; evolve / fractional powers by an eigendecomposition done here).
"""
import math

import numpy as np

from pv import specs

from . import sim

# ------------------------------------------------------------------------------------------ expressions


def ev(e, vals):
    """Plain evaluation; vals[a] is a float (scalar argument) or 1-D numpy array (vector argument)."""
    op = e[0]
    if op == "arg":
        v = vals[e[1]]
        return v if e[2] is None else v[e[2]]
    if op == "const":
        return e[1]
    if op == "mul":
        return e[1] * ev(e[2], vals)
    if op == "sin":
        return np.sin(ev(e[1], vals))
    if op == "cos":
        return np.cos(ev(e[1], vals))
    if op == "sq":
        return ev(e[1], vals) ** 2
    if op == "add":
        return ev(e[1], vals) + ev(e[2], vals)
    if op == "prod":
        return ev(e[1], vals) * ev(e[2], vals)
    raise ValueError(op)


def ev_iface(e, args, qp):
    """The same expression on interface tensors (qp.math dispatch)."""
    op = e[0]
    if op == "arg":
        return args[e[1]] if e[2] is None else args[e[1]][e[2]]
    if op == "const":
        return e[1]
    if op == "mul":
        return e[1] * ev_iface(e[2], args, qp)
    if op == "sin":
        return qp.math.sin(ev_iface(e[1], args, qp))
    if op == "cos":
        return qp.math.cos(ev_iface(e[1], args, qp))
    if op == "sq":
        return ev_iface(e[1], args, qp) ** 2
    if op == "add":
        return ev_iface(e[1], args, qp) + ev_iface(e[2], args, qp)
    if op == "prod":
        return ev_iface(e[1], args, qp) * ev_iface(e[2], args, qp)
    raise ValueError(op)


def deps(e):
    """Set of (arg, index) leaves the expression depends on."""
    if e[0] == "arg":
        return {(e[1], e[2])}
    if e[0] == "const":
        return set()
    out = set()
    for x in e[1:]:
        if isinstance(x, list):
            out |= deps(x)
    return out


def is_const(e):
    return not deps(e)


def op_exprs(o):
    """All parameter expressions of an operator spec, in PennyLane's parameter order."""
    if o["op"] in ("adjoint", "ctrl", "pow"):
        return op_exprs(o["base"])
    if o["op"] == "evolve":
        return [o["t"]]
    return list(o.get("p", []))


def program_exprs(prog):
    return [e for o in prog["ops"] for e in op_exprs(o)]


def batch_size(prog):
    """Broadcast size (None if no gate parameter uses a whole vector argument)."""
    sizes = set()
    for e in program_exprs(prog):
        for a, i in deps(e):
            if i is None and prog["args"][a]["shape"]:
                sizes.add(prog["args"][a]["shape"][0])
    if not sizes:
        return None
    if len(sizes) > 1:
        raise ValueError("inconsistent batch sizes")
    return sizes.pop()


# ------------------------------------------------------------------------------------------ flat <-> args

def arg_values(prog):
    return [np.array(a["val"], dtype=float) if a["shape"] else float(a["val"][0]) for a in prog["args"]]


def flat_x(prog):
    return np.array([v for a in prog["args"] for v in a["val"]], dtype=float)


def unflatten(prog, x):
    out, k = [], 0
    for a in prog["args"]:
        n = a["shape"][0] if a["shape"] else 1
        out.append(np.array(x[k:k + n], dtype=float) if a["shape"] else float(x[k]))
        k += n
    return out


def arg_slices(prog):
    out, k = [], 0
    for a in prog["args"]:
        n = a["shape"][0] if a["shape"] else 1
        out.append((k, k + n))
        k += n
    return out


# ------------------------------------------------------------------------------------------ building

def subst(o, fn):
    """Operator spec with every expression replaced by fn(expr) (a value)."""
    if o["op"] in ("adjoint", "ctrl", "pow"):
        return {**o, "base": subst(o["base"], fn)}
    if o["op"] == "evolve":
        return {**o, "t": fn(o["t"])}
    return {**o, "p": [fn(e) for e in o.get("p", [])]}


def build_pl_op(o):
    """PennyLane operator from a substituted spec (values may be interface tensors)."""
    import pennylane as qp

    if o["op"] == "evolve":
        return qp.evolve(specs.build_op(o["H"]), o["t"])
    if o["op"] == "pow":
        return qp.pow(build_pl_op(o["base"]), o["z"])
    if o["op"] == "adjoint":
        return qp.adjoint(build_pl_op(o["base"]))
    if o["op"] == "ctrl":
        return qp.ctrl(build_pl_op(o["base"]), control=[specs.wire(w) for w in o["cw"]], control_values=o.get("cv"))
    return specs.build_op(o)


def queue_program(prog, args, qp):
    """Inside a QNode: apply the operators with interface-valued parameters, return the measurements."""
    for o in prog["ops"]:
        build_pl_op(subst(o, lambda e: ev_iface(e, args, qp)))
    ms = [specs.build_meas(m) for m in prog["meas"]]
    return ms[0] if len(ms) == 1 else tuple(ms)


# ------------------------------------------------------------------------------------------ reference

def _frac_power(M, z):
    lam, V = np.linalg.eig(M)
    return (V * lam.astype(complex) ** z) @ np.linalg.inv(V)


def ref_matrix(o):
    """(matrix, wires) of a substituted (numeric, unbatched) operator spec, independent of Operator.matrix()."""
    kind = o["op"]
    if kind == "evolve":
        H = specs.build_op(o["H"])
        ws = list(H.wires)
        Hm = sim.op_matrix(H)
        lam, V = np.linalg.eigh((Hm + Hm.conj().T) / 2)
        return (V * np.exp(-1j * float(o["t"]) * lam)) @ V.conj().T, ws
    if kind == "pow":
        M, ws = ref_matrix(o["base"])
        return _frac_power(M, o["z"]), ws
    if kind == "adjoint":
        M, ws = ref_matrix(o["base"])
        return M.conj().T, ws
    if kind == "ctrl":
        from . import gates as G
        M, ws = ref_matrix(o["base"])
        cw = [specs.wire(w) for w in o["cw"]]
        cv = o.get("cv") or [1] * len(cw)
        return G.controlled(M, len(cw), [int(bool(v)) for v in cv]), cw + ws
    op = specs.build_op(o)
    return sim.op_matrix(op), list(op.wires)


def ref_state(prog, vals, b=None):
    """Final state for numeric argument values (b selects the batch element)."""
    def num(e):
        v = ev(e, vals)
        if np.ndim(v):
            v = v[b]
        return float(v)

    order = [specs.wire(w) for w in prog["wires"]]
    s = sim.zero_state(len(order))
    for o in prog["ops"]:
        M, ws = ref_matrix(subst(o, num))
        if len(ws) == 0:
            s = s * M.reshape(-1)[0]
        else:
            s = sim.apply(s, M, [order.index(w) for w in ws])
    return s.reshape(-1), order


def reference(prog):
    """f(x_flat) -> list of arrays, one per measurement (leading batch axis if broadcast)."""
    B = batch_size(prog)
    mps = [specs.build_meas(m) for m in prog["meas"]]

    def f(x):
        vals = unflatten(prog, x)
        rows = []
        for b in (range(B) if B else [None]):
            psi, order = ref_state(prog, vals, b)
            rows.append([np.asarray(sim.measure(psi, mp, order)) for mp in mps])
        if B is None:
            return rows[0]
        return [np.stack([r[m] for r in rows]) for m in range(len(mps))]

    return f


def reference_flat(prog):
    f = reference(prog)
    return lambda x: np.concatenate([np.real_if_close(np.asarray(r)).reshape(-1) for r in f(x)])


def selftest():
    prog = {"args": [{"shape": [], "val": [0.4]}, {"shape": [2], "val": [0.3, -0.8]}], "wires": [0, 1],
            "ops": [{"op": "RX", "p": [["prod", ["sin", ["arg", 0, None]], ["arg", 1, 1]]], "w": [0]},
                    {"op": "ctrl", "cw": [0], "base": {"op": "RY", "p": [["arg", 1, None]], "w": [1]}}],
            "meas": [{"mp": "expval", "obs": {"op": "PauliZ", "w": [0]}}, {"mp": "probs", "w": [1]}]}
    assert batch_size(prog) == 2
    out = reference(prog)(flat_x(prog))
    a = math.sin(0.4) * -0.8
    assert out[0].shape == (2,) and out[1].shape == (2, 2)
    assert np.allclose(out[0], math.cos(a))
    p1 = math.sin(a / 2) ** 2 * np.sin(np.array([0.3, -0.8]) / 2) ** 2
    assert np.allclose(out[1][:, 1], p1)
    M, ws = ref_matrix({"op": "pow", "z": 2.5, "base": {"op": "RX", "p": [0.6], "w": [0]}})
    from . import gates as G
    assert np.allclose(M, G.matrix("RX", [1.5], 1, {}))
    M, ws = ref_matrix({"op": "evolve", "H": {"op": "PauliX", "w": [0]}, "t": 0.35})
    assert np.allclose(M, G.matrix("RX", [0.7], 1, {}))
