"""Independent state-vector / unitary reference simulator (numpy only).

Matrices of named gates come from pv.ref.gates; symbolic wrappers (adjoint, integer power,
controlled, product, scalar product, sum) are evaluated recursively by matrix arithmetic on the
PennyLane object's *structure*; everything else falls back to op.matrix() (recorded in
`FALLBACKS`). First wire of an operator = most significant axis of its matrix."""
from collections import Counter

import numpy as np

from . import gates as G

FALLBACKS = Counter()


def _params(op):
    return [np.asarray(p) for p in op.data]


def op_matrix(op):
    """Matrix of `op` on op.wires order (unbatched only)."""
    import pennylane as qp

    name = type(op).__name__
    nw = len(op.wires)
    hyper = getattr(op, "hyperparameters", {}) or {}
    # symbolic wrappers first
    if name in ("Adjoint", "Adjoint2", "AdjointOperation", "AdjointOpObs", "AdjointObs"):
        return embed(op_matrix(op.base).conj().T, list(op.base.wires), list(op.wires))
    if name in ("Pow2", "Pow", "PowOperation", "PowObs", "PowOpObs") and float(op.z).is_integer():
        z = int(op.z)
        M = op_matrix(op.base)
        if z < 0:
            M = np.linalg.inv(M)
            z = -z
        return embed(np.linalg.matrix_power(M, z), list(op.base.wires), list(op.wires))
    if name in ("Controlled", "ControlledOp", "ControlledOp2", "Controlled2") and hasattr(op, "base") and hasattr(op, "control_wires"):
        B = op_matrix(op.base)
        cw = list(op.control_wires)
        cv = list(op.control_values)
        M = G.controlled(B, len(cw), cv)
        return embed(M, cw + list(op.base.wires), list(op.wires))
    if name == "Prod":
        order = list(op.wires)
        M = np.eye(2 ** len(order), dtype=complex)
        for o in op.operands:
            M = M @ embed(op_matrix(o), list(o.wires), order)
        return M
    if name == "SProd":
        return complex(np.asarray(op.scalar)) * embed(op_matrix(op.base), list(op.base.wires), list(op.wires))
    if name == "Sum":
        order = list(op.wires)
        M = np.zeros((2 ** len(order),) * 2, dtype=complex)
        for o in op.operands:
            M = M + embed(op_matrix(o), list(o.wires), order)
        return M
    if name == "MultiControlledX":
        return G.controlled(G.X, nw - 1, [int(bool(v)) for v in op.control_values])
    ps = _params(op)
    if all(p.ndim == 0 for p in ps) or name in ():
        try:
            R = G.matrix(name, [complex(p) for p in ps], nw, hyper)
        except Exception:  # noqa: BLE001
            R = None
        if R is not None and R.shape == (2**nw, 2**nw):
            return R
    if name in ("QubitUnitary", "Hermitian") and ps and ps[0].ndim == 2:
        return np.asarray(ps[0], dtype=complex)
    if name == "DiagonalQubitUnitary" and ps[0].ndim == 1:
        return np.diag(np.asarray(ps[0], dtype=complex))
    if name == "Projector" and ps[0].ndim == 1:
        v = np.asarray(ps[0])
        if len(v) == nw and set(np.unique(v).tolist()) <= {0, 1}:
            idx = int("".join(str(int(b)) for b in v), 2) if nw else 0
            P = np.zeros((2**nw, 2**nw), dtype=complex)
            P[idx, idx] = 1
            return P
        v = v.astype(complex)
        return np.outer(v, v.conj())
    FALLBACKS[name] += 1
    M = qp.matrix(op, wire_order=list(op.wires)) if nw else op.matrix()
    return np.asarray(M, dtype=complex)


def embed(M, wires_in, order):
    """Expand matrix M acting on wires_in (first = most significant) to act on `order`."""
    wires_in = list(wires_in)
    order = list(order)
    n = len(order)
    k = len(wires_in)
    if wires_in == order:
        return np.asarray(M, dtype=complex)
    if any(w not in order for w in wires_in):
        raise ValueError(f"embed: wires {wires_in} not in {order}")
    full = np.eye(2**n, dtype=complex).reshape((2,) * n + (2**n,))
    out = apply(full, np.asarray(M, dtype=complex), [order.index(w) for w in wires_in], batch_axes=1)
    return out.reshape(2**n, 2**n)


def apply(state, M, axes, batch_axes=0):
    """Apply matrix M (2^k x 2^k) to the listed axes of a tensor of shape (2,)*n + batch."""
    k = len(axes)
    if k == 0:
        return state * np.asarray(M).reshape(-1)[0]
    n_total = state.ndim
    Mt = np.asarray(M, dtype=complex).reshape((2,) * (2 * k))
    out = np.tensordot(Mt, state, axes=(list(range(k, 2 * k)), list(axes)))
    # result axes: first k are the new target axes, then the remaining axes of state in order
    rest = [a for a in range(n_total) if a not in axes]
    perm = [0] * n_total
    for i, a in enumerate(axes):
        perm[a] = i
    for j, a in enumerate(rest):
        perm[a] = k + j
    return np.transpose(out, perm)


def zero_state(n):
    s = np.zeros((2,) * n, dtype=complex)
    s[(0,) * n] = 1
    return s


def run_ops(ops, order, state=None):
    """Apply ops to |0..0> (or `state`, flat or tensor) on wire order `order`; returns flat vector."""
    order = list(order)
    n = len(order)
    s = zero_state(n) if state is None else np.asarray(state, dtype=complex).reshape((2,) * n)
    for op in ops:
        s = apply_op(s, op, order)
    return s.reshape(-1)


def apply_op(s, op, order):
    name = type(op).__name__
    n = len(order)
    if name in ("Barrier", "WireCut", "Snapshot", "Identity", "Allocate", "Deallocate"):
        return s
    if name == "GlobalPhase":
        return s * np.exp(-1j * float(np.asarray(op.data[0])))
    if name in ("StatePrep", "QubitStateVector", "BasisState", "BasisEmbedding", "AmplitudeEmbedding", "QubitDensityMatrix"):
        vec = state_prep_vector(op)
        ax = [order.index(w) for w in op.wires]
        # only valid on |0> for those wires: project and replace
        idx = [slice(None)] * n
        for a in ax:
            idx[a] = 0
        rest = s[tuple(idx)]
        out = np.tensordot(vec.reshape((2,) * len(ax)), rest, axes=0)
        # axes: first len(ax) = prepared wires, then remaining in order
        restax = [a for a in range(n) if a not in ax]
        perm = [0] * n
        for i, a in enumerate(ax):
            perm[a] = i
        for j, a in enumerate(restax):
            perm[a] = len(ax) + j
        return np.transpose(out, perm)
    M = op_matrix(op)
    return apply(s, M, [order.index(w) for w in op.wires])


def state_prep_vector(op):
    name = type(op).__name__
    nw = len(op.wires)
    d = np.asarray(op.data[0]) if op.data else None
    if name in ("BasisState", "BasisEmbedding"):
        if d is None:
            d = np.asarray(op.hyperparameters.get("basis_state", op.hyperparameters.get("features")))
        bits = [int(b) for b in np.asarray(d).reshape(-1)]
        v = np.zeros(2**nw, dtype=complex)
        v[int("".join(map(str, bits)), 2) if bits else 0] = 1
        return v
    FALLBACKS[name + ".state_vector"] += 1
    return np.asarray(op.state_vector(wire_order=list(op.wires)), dtype=complex).reshape(-1)


def unitary(ops, order):
    """Full unitary of the op list on `order`."""
    order = list(order)
    n = len(order)
    s = np.eye(2**n, dtype=complex).reshape((2,) * n + (2**n,))
    for op in ops:
        name = type(op).__name__
        if name in ("Barrier", "WireCut", "Snapshot", "Identity"):
            continue
        if name == "GlobalPhase":
            s = s * np.exp(-1j * float(np.asarray(op.data[0])))
            continue
        s = apply(s, op_matrix(op), [order.index(w) for w in op.wires], batch_axes=1)
    return s.reshape(2**n, 2**n)


# ---------------------------------------------------------------------------------------------
# measurements
# ---------------------------------------------------------------------------------------------

def obs_matrix(obs, order):
    return embed(op_matrix(obs), list(obs.wires), list(order))


def apply_linear(psi, obs, order):
    """O|psi> for a (possibly non-unitary) operator, without building the full-space matrix."""
    name = type(obs).__name__
    n = len(order)
    if name == "Sum":
        out = np.zeros_like(psi)
        for o in obs.operands:
            out = out + apply_linear(psi, o, order)
        return out
    if name == "SProd":
        return complex(np.asarray(obs.scalar)) * apply_linear(psi, obs.base, order)
    if name == "Prod":
        out = psi
        for o in reversed(obs.operands):
            out = apply_linear(out, o, order)
        return out
    if name in ("LinearCombination", "Hamiltonian"):
        out = np.zeros_like(psi)
        for c, o in zip(*obs.terms()):
            out = out + complex(np.asarray(c)) * apply_linear(psi, o, order)
        return out
    if len(obs.wires) == 0:
        return psi * op_matrix(obs).reshape(-1)[0]
    t = np.asarray(psi, dtype=complex).reshape((2,) * n)
    return apply(t, op_matrix(obs), [order.index(w) for w in obs.wires]).reshape(-1)


def reduced_dm(psi, order, wires):
    order = list(order)
    n = len(order)
    t = psi.reshape((2,) * n)
    keep = [order.index(w) for w in wires]
    rest = [a for a in range(n) if a not in keep]
    t = np.transpose(t, keep + rest).reshape(2 ** len(keep), -1)
    return t @ t.conj().T


def marginal_probs(psi, order, wires):
    order = list(order)
    n = len(order)
    p = (np.abs(psi) ** 2).reshape((2,) * n)
    keep = [order.index(w) for w in wires]
    rest = tuple(a for a in range(n) if a not in keep)
    p = p.sum(axis=rest) if rest else p
    # remaining axes are in ascending original order; permute to requested order
    kept_sorted = sorted(keep)
    perm = [kept_sorted.index(a) for a in keep]
    return np.transpose(p, perm).reshape(-1)


def entropy(rho, base=None):
    ev = np.linalg.eigvalsh((rho + rho.conj().T) / 2)
    ev = ev[ev > 1e-14]
    S = float(-(ev * np.log(ev)).sum())
    return S / np.log(base) if base else S


def measure(psi, mp, order):
    """Evaluate measurement process `mp` on flat state psi (wire order `order`)."""
    kind = type(mp).__name__
    order = list(order)
    if kind == "StateMP":
        return psi
    if kind == "DensityMatrixMP":
        return reduced_dm(psi, order, list(mp.wires))
    if kind in ("ExpectationMP", "VarianceMP"):
        Opsi = apply_linear(psi, mp.obs, order)
        e = np.vdot(psi, Opsi)
        if kind == "ExpectationMP":
            return e.real
        e2 = np.vdot(psi, apply_linear(Opsi, mp.obs, order))
        return (e2 - e * e).real
    if kind == "ProbabilityMP":
        if mp.obs is not None:
            rot = mp.obs.diagonalizing_gates()
            FALLBACKS["diagonalizing_gates"] += 1
            phi = run_ops(rot, order, state=psi)
            return marginal_probs(phi, order, list(mp.obs.wires))
        wires = list(mp.wires) if len(mp.wires) else order
        return marginal_probs(psi, order, wires)
    if kind == "PurityMP":
        r = reduced_dm(psi, order, list(mp.wires))
        return float(np.trace(r @ r).real)
    if kind == "VnEntropyMP":
        return entropy(reduced_dm(psi, order, list(mp.wires)), mp.log_base)
    if kind == "MutualInfoMP":
        w0, w1 = [list(w) for w in mp.raw_wires]
        b = mp.log_base
        return (entropy(reduced_dm(psi, order, w0), b) + entropy(reduced_dm(psi, order, w1), b)
                - entropy(reduced_dm(psi, order, w0 + w1), b))
    raise NotImplementedError(kind)


def run_tape(tape, order=None):
    """Reference results for every measurement of an (unbatched, analytic) tape."""
    order = list(order if order is not None else tape.wires)
    psi = run_ops(tape.operations, order)
    return tuple(measure(psi, mp, order) for mp in tape.measurements)


def allclose_phase(A, B, tol=1e-8):
    """A == e^{i phi} B ?"""
    A = np.asarray(A)
    B = np.asarray(B)
    if A.shape != B.shape:
        return False
    i = np.unravel_index(np.argmax(np.abs(B)), B.shape)
    if abs(B[i]) < 1e-12:
        return np.allclose(A, B, atol=tol)
    ph = A[i] / B[i]
    if abs(abs(ph) - 1) > max(1e-7, 10 * tol):
        return False
    ph = ph / abs(ph)
    return np.allclose(A, ph * B, atol=tol * max(1.0, np.abs(B).max()))


def selftest():
    G.selftest()
    # CNOT embedding: control on second listed wire
    M = embed(G.FIXED["CNOT"], [1, 0], [0, 1])
    exp = np.array([[1, 0, 0, 0], [0, 0, 0, 1], [0, 0, 1, 0], [0, 1, 0, 0]])
    assert np.allclose(M, exp)
    s = zero_state(2)
    s = apply(s, G.H, [0])
    s = apply(s, G.FIXED["CNOT"], [0, 1])
    assert np.allclose(s.reshape(-1), [2**-0.5, 0, 0, 2**-0.5])
    assert np.allclose(marginal_probs(np.array([0, 1, 0, 0], dtype=complex), [0, 1], [1, 0]), [0, 0, 1, 0])
    r = reduced_dm(s.reshape(-1), [0, 1], [0])
    assert np.allclose(r, np.eye(2) / 2)
    # embedding of a 2-qubit op into 3 wires in permuted order equals kron + permutation
    U = G.Rot(0.1, 0.2, 0.3)
    assert np.allclose(embed(U, ["a"], ["b", "a"]), np.kron(np.eye(2), U))
