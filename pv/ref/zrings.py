"""Exact reference arithmetic for C16: the cyclotomic field Q(w), w = exp(i pi/4), written from the definitions.

An element is a 4-tuple (c0, c1, c2, c3) = c0 + c1 w + c2 w^2 + c3 w^3 with int/Fraction coefficients and the
single relation w^4 = -1. sqrt(2) = w - w^3, i = w^2. Also: an independent primality oracle."""
import math
from fractions import Fraction

ZERO = (0, 0, 0, 0)
ONE = (1, 0, 0, 0)
OMEGA = (0, 1, 0, 0)
IMAG = (0, 0, 1, 0)
SQRT2 = (0, 1, 0, -1)
INV_SQRT2 = (0, Fraction(1, 2), 0, Fraction(-1, 2))


def from_zomega(a, b, c, d):
    """PennyLane's ZOmega(a, b, c, d) = a w^3 + b w^2 + c w + d."""
    return (d, c, b, a)


def from_zsqrt2(a, b):
    """a + b sqrt(2)."""
    return (a, b, 0, -b)


def add(x, y):
    return tuple(p + q for p, q in zip(x, y))


def neg(x):
    return tuple(-p for p in x)


def sub(x, y):
    return tuple(p - q for p, q in zip(x, y))


def mul(x, y):
    out = [0, 0, 0, 0]
    for i, p in enumerate(x):
        if p == 0:
            continue
        for j, q in enumerate(y):
            k = i + j
            if k >= 4:
                out[k - 4] -= p * q
            else:
                out[k] += p * q
    return tuple(out)


def scale(x, n):
    return tuple(p * n for p in x)


def power(x, e):
    out = ONE
    for _ in range(e):
        out = mul(out, x)
    return out


def sigma(x, j):
    """Field automorphism w -> w^j (j odd)."""
    out = [0, 0, 0, 0]
    for i, p in enumerate(x):
        e = (i * j) % 8
        if e >= 4:
            out[e - 4] -= p
        else:
            out[e] += p
    return tuple(out)


def conj(x):
    """complex conjugation: w -> w^7 = 1/w"""
    return sigma(x, 7)


def adj2(x):
    """sqrt(2) -> -sqrt(2): w -> w^5 = -w"""
    return sigma(x, 5)


def field_norm(x):
    """Norm of Q(w)/Q: product of the four Galois conjugates (a rational number)."""
    p = mul(mul(x, sigma(x, 3)), mul(sigma(x, 5), sigma(x, 7)))
    assert p[1] == 0 and p[2] == 0 and p[3] == 0
    return p[0]


def inv(x):
    n = field_norm(x)
    m = mul(mul(sigma(x, 3), sigma(x, 5)), sigma(x, 7))
    return tuple(Fraction(c) / n for c in m)


def divides(y, z):
    """y | z in Z[w] (y != 0, both with integer coefficients)."""
    q = mul(z, inv(y))
    return all(Fraction(c).denominator == 1 for c in q)


def as_zsqrt2(x):
    """(a, b) with x = a + b sqrt2, or None if x is not in Q(sqrt2)."""
    if x[2] == 0 and x[1] == -x[3]:
        return (x[0], x[1])
    return None


def to_complex(x):
    r2 = math.sqrt(2.0)
    return complex(float(x[0]) + (float(x[1]) - float(x[3])) / r2, float(x[2]) + (float(x[1]) + float(x[3])) / r2)


def size(x):
    return sum(abs(float(c)) for c in x)


# ---- 2x2 matrices over Q(w): tuples (m00, m01, m10, m11) ---------------------------------------------------------
def mat_add(A, B):
    return tuple(add(p, q) for p, q in zip(A, B))


def mat_scale(A, s):
    return tuple(mul(p, s) for p in A)


def mat_mul(A, B):
    return (add(mul(A[0], B[0]), mul(A[1], B[2])), add(mul(A[0], B[1]), mul(A[1], B[3])),
            add(mul(A[2], B[0]), mul(A[3], B[2])), add(mul(A[2], B[1]), mul(A[3], B[3])))


def mat_map(A, f):
    return tuple(f(p) for p in A)


def sqrt2_power(k):
    """(1/sqrt2)^k for any integer k, as a field element"""
    return power(INV_SQRT2, k) if k >= 0 else power(SQRT2, -k)


def mat_eq(A, B):
    return all(all(Fraction(p) == Fraction(q) for p, q in zip(x, y)) for x, y in zip(A, B))


def mat_complex(A):
    return [[to_complex(A[0]), to_complex(A[1])], [to_complex(A[2]), to_complex(A[3])]]


# ---- primality ------------------------------------------------------------------------------------------------
_SMALL = (2, 3, 5, 7, 11, 13, 17, 19, 23, 29, 31, 37)


def is_prime(n):
    """Deterministic Miller-Rabin with the first 12 prime bases (proven correct for n < 3.3e24) after trial
    division by those primes."""
    if n < 2:
        return False
    for p in _SMALL:
        if n == p:
            return True
        if n % p == 0:
            return False
    assert n < 3 * 10**24
    d, s = n - 1, 0
    while d % 2 == 0:
        d //= 2
        s += 1
    for a in _SMALL:
        x = pow(a, d, n)
        if x in (1, n - 1):
            continue
        for _ in range(s - 1):
            x = x * x % n
            if x == n - 1:
                break
        else:
            return False
    return True


def is_prime_trial(n):
    if n < 2:
        return False
    i = 2
    while i * i <= n:
        if n % i == 0:
            return False
        i += 1
    return True


def sieve(limit):
    """list of booleans is_prime[0..limit]"""
    flags = [True] * (limit + 1)
    flags[0:2] = [False, False][: limit + 1]
    for i in range(2, int(limit**0.5) + 1):
        if flags[i]:
            for j in range(i * i, limit + 1, i):
                flags[j] = False
    return flags


def factorize_trial(n):
    out = []
    i = 2
    while i * i <= n:
        while n % i == 0:
            out.append(i)
            n //= i
        i += 1 if i == 2 else 2
    if n > 1:
        out.append(n)
    return out


def selftest():
    x, y, z = (3, -1, 4, 2), (-5, 7, 0, 1), (2, 2, -3, 6)
    assert mul(x, y) == mul(y, x) and mul(mul(x, y), z) == mul(x, mul(y, z))
    assert mul(x, add(y, z)) == add(mul(x, y), mul(x, z))
    assert mul(SQRT2, SQRT2) == (2, 0, 0, 0) and mul(IMAG, IMAG) == (-1, 0, 0, 0) and power(OMEGA, 8) == ONE
    assert mul(SQRT2, INV_SQRT2) == ONE
    assert conj(mul(x, y)) == mul(conj(x), conj(y)) and adj2(mul(x, y)) == mul(adj2(x), adj2(y))
    assert adj2(SQRT2) == neg(SQRT2) and conj(SQRT2) == SQRT2 and conj(IMAG) == neg(IMAG) and adj2(IMAG) == IMAG
    assert mul(x, inv(x)) == ONE and divides(x, mul(x, y)) and not divides((2, 0, 0, 0), (1, 0, 0, 0))
    assert field_norm(mul(x, y)) == field_norm(x) * field_norm(y)
    assert abs(to_complex(OMEGA) - complex(math.sqrt(0.5), math.sqrt(0.5))) < 1e-15
    assert abs(to_complex(mul(x, y)) - to_complex(x) * to_complex(y)) < 1e-12
    assert as_zsqrt2(mul(x, conj(x))) is not None and as_zsqrt2(from_zsqrt2(3, -2)) == (3, -2)
    assert from_zsqrt2(1, 1) == add(ONE, SQRT2)
    fl = sieve(5000)
    for n in range(5001):
        assert fl[n] == is_prime(n) == is_prime_trial(n), n
    for n in (561, 1105, 1729, 2047, 3215031751, 3825123056546413051, 2**61 - 1, 2**64 - 59, (2**31 - 1) ** 2,
              4294967291 * 4294967279):
        assert is_prime(n) == (n in (2**61 - 1, 2**64 - 59)), n
    try:
        from sympy import isprime

        for n in list(range(10**6, 10**6 + 2000)) + [2**64 - k for k in range(1, 400)]:
            assert is_prime(n) == isprime(n), n
    except ImportError:
        pass
    assert factorize_trial(360) == [2, 2, 2, 3, 3, 5] and factorize_trial(97) == [97]
