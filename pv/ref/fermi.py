"""Dense reference model for fermionic ladder operators (numpy only, never imports PennyLane).

Occupation-number (Fock) basis on n modes, mode 0 = most significant bit of the basis index
(|n_0 n_1 ... n_{n-1}>), i.e. the same ordering as a qubit register with wire 0 first.

Textbook definition:  a_j |..n_j..> = (-1)^{n_0+...+n_{j-1}} n_j |..n_j-1..>,  a_j^dagger = (a_j)^dagger.
Under the Jordan-Wigner identification (qubit j = occupation of mode j) this is Z..Z (X+iY)/2.

Other encodings are bit-linear maps over GF(2), e = E n mod 2, realised as basis permutations:
  parity:        E[i][j] = 1 for j <= i                       (qubit i stores n_0+...+n_i)
  Bravyi-Kitaev: E = leading n x n block of beta_{2^k}, beta_1 = [1],
                 beta_{2m} = [[beta_m, 0], [A, beta_m]] with A = zeros except its last row = ones
                 (Seeley, Richard, Love 2012, with index 0 first).
"""
import itertools

import numpy as np


def bits(idx, n):
    return [(idx >> (n - 1 - k)) & 1 for k in range(n)]


def index(bs):
    out = 0
    for b in bs:
        out = (out << 1) | int(b)
    return out


def ladder(j, n, dagger=False):
    """Matrix of a_j (or a_j^dagger) on n modes from the Fock-space definition."""
    dim = 2**n
    M = np.zeros((dim, dim), dtype=complex)
    for idx in range(dim):
        occ = bits(idx, n)
        if occ[j] == 1:  # annihilation acts non-trivially
            sign = (-1) ** sum(occ[:j])
            new = list(occ)
            new[j] = 0
            M[index(new), idx] = sign
    return M.conj().T if dagger else M


def word_matrix(factors, n):
    """Ordered product of ladder operators; factors = [(orbital, '+'|'-'), ...] left to right."""
    M = np.eye(2**n, dtype=complex)
    for orb, s in factors:
        M = M @ ladder(orb, n, dagger=(s == "+"))
    return M


def sentence_matrix(terms, n):
    """terms = [(coeff, factors), ...]"""
    M = np.zeros((2**n, 2**n), dtype=complex)
    for c, factors in terms:
        M = M + complex(c) * word_matrix(factors, n)
    return M


def parity_encoding(n):
    return np.array([[1 if j <= i else 0 for j in range(n)] for i in range(n)], dtype=int)


def bk_encoding(n):
    beta = np.array([[1]], dtype=int)
    while beta.shape[0] < max(n, 1):
        m = beta.shape[0]
        A = np.zeros((m, m), dtype=int)
        A[-1, :] = 1
        beta = np.block([[beta, np.zeros((m, m), dtype=int)], [A, beta]])
    return beta[:n, :n]


def encoding_unitary(E):
    """Permutation matrix U with U|n> = |E n mod 2>."""
    n = E.shape[0]
    dim = 2**n
    U = np.zeros((dim, dim), dtype=complex)
    for idx in range(dim):
        occ = np.array(bits(idx, n), dtype=int)
        U[index((E @ occ) % 2), idx] = 1
    return U


def selftest():
    X = np.array([[0, 1], [1, 0]], dtype=complex)
    Y = np.array([[0, -1j], [1j, 0]], dtype=complex)
    Z = np.diag([1.0, -1.0]).astype(complex)
    I2 = np.eye(2, dtype=complex)

    def kron(ms):
        out = np.eye(1, dtype=complex)
        for m in ms:
            out = np.kron(out, m)
        return out

    for n in (1, 2, 3, 4):
        for j in range(n):
            jw = kron([Z] * j + [(X + 1j * Y) / 2] + [I2] * (n - j - 1))
            assert np.allclose(ladder(j, n), jw)
            assert np.allclose(ladder(j, n, True), jw.conj().T)
        for i, j in itertools.product(range(n), repeat=2):
            ai, aj, ajd = ladder(i, n), ladder(j, n), ladder(j, n, True)
            assert np.allclose(ai @ aj + aj @ ai, 0)
            assert np.allclose(ai @ ajd + ajd @ ai, np.eye(2**n) * (i == j))
    # a_0^dagger a_1 |01> = |10> on 2 modes
    M = word_matrix([(0, "+"), (1, "-")], 2)
    want = np.zeros((4, 4))
    want[2, 1] = 1
    assert np.allclose(M, want)
    assert bk_encoding(4).tolist() == [[1, 0, 0, 0], [1, 1, 0, 0], [0, 0, 1, 0], [1, 1, 1, 1]]
    assert bk_encoding(3).tolist() == [[1, 0, 0], [1, 1, 0], [0, 0, 1]]
    assert parity_encoding(3).tolist() == [[1, 0, 0], [1, 1, 0], [1, 1, 1]]
    for n in (1, 2, 3, 5, 6):
        for E in (parity_encoding(n), bk_encoding(n)):
            U = encoding_unitary(E)
            assert np.allclose(U @ U.T, np.eye(2**n))  # invertible encodings
