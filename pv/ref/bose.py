"""Dense reference model for truncated bosonic ladder operators and qubit encodings (numpy only).

Truncated Fock space of one mode with d levels |0>..|d-1>:
    b^dagger |s> = sqrt(s+1) |s+1>  (and b^dagger |d-1> = 0 by truncation),   b = (b^dagger)^T.
m modes: basis |k_0, ..., k_{m-1}>, mode 0 most significant (index = sum k_b d^{m-1-b}).
A word is an ordered product of *truncated* single-mode matrices (truncation per factor).

Encodings of a level k of mode b into qubits (global qubit numbers, as documented for each mapping):
    binary       nq = ceil(log2 d) qubits per mode, qubit b*nq + t holds bit t of k (t = 0 least significant)
    unary        d qubits per mode, qubit b*d + k is |1>, the others |0>      (one-hot)
    christiansen d = 2, one qubit per mode: qubit b holds k
Qubit registers use "qubit 0 = most significant bit" (PennyLane wire_order convention).
"""
import itertools

import numpy as np


def ladder(d, dagger=False):
    c = np.zeros((d, d))
    for s in range(d - 1):
        c[s + 1, s] = np.sqrt(s + 1.0)
    return c if dagger else c.T


def embed(M, b, m, d):
    mats = [np.eye(d)] * b + [M] + [np.eye(d)] * (m - b - 1)
    out = np.eye(1)
    for x in mats:
        out = np.kron(out, x)
    return out


def word_matrix(factors, m, d):
    """factors = [(mode, '+'|'-'), ...] in word order (left to right)."""
    M = np.eye(d**m, dtype=complex)
    for b, s in factors:
        M = M @ embed(ladder(d, dagger=(s == "+")), b, m, d)
    return M


def sentence_matrix(terms, m, d):
    M = np.zeros((d**m, d**m), dtype=complex)
    for c, factors in terms:
        M = M + complex(c) * word_matrix(factors, m, d)
    return M


def ceil_log2(d):
    nq = 0
    while 2**nq < d:
        nq += 1
    return nq


def qubits_per_mode(kind, d):
    if kind == "binary":
        return max(ceil_log2(d), 1)
    if kind == "unary":
        return d
    if kind == "christiansen":
        assert d == 2
        return 1
    raise ValueError(kind)


def level_bits(kind, k, d):
    """Bits of the qubits of one mode (in increasing qubit number) that encode level k."""
    if kind == "binary":
        return [(k >> t) & 1 for t in range(qubits_per_mode(kind, d))]
    if kind == "unary":
        return [1 if t == k else 0 for t in range(d)]
    return [k]


def isometry(kind, m, d):
    """V : C^(d^m) -> C^(2^Q), V|k_0..k_{m-1}> = |encoded bits>, Q = m * qubits_per_mode."""
    q = qubits_per_mode(kind, d)
    Q = m * q
    V = np.zeros((2**Q, d**m))
    for col, levels in enumerate(itertools.product(range(d), repeat=m)):
        bits = []
        for k in levels:
            bits += level_bits(kind, k, d)
        row = 0
        for bit in bits:  # qubit 0 first = most significant
            row = (row << 1) | bit
        V[row, col] = 1.0
    return V


def selftest():
    bd, b = ladder(4, True), ladder(4)
    assert np.allclose(bd[1, 0], 1) and np.allclose(bd[3, 2], np.sqrt(3)) and np.allclose(b, bd.T)
    # number operator b^dagger b = diag(0..d-1); b b^dagger is truncated at the top level
    assert np.allclose(bd @ b, np.diag([0, 1, 2, 3]))
    assert np.allclose(b @ bd, np.diag([1, 2, 3, 0]))
    # [b, b^dagger] = 1 below the truncation level
    assert np.allclose((b @ bd - bd @ b)[:3, :3], np.eye(3))
    # modes commute, mode 0 most significant
    A = word_matrix([(0, "+"), (1, "-")], 2, 3)
    B = word_matrix([(1, "-"), (0, "+")], 2, 3)
    assert np.allclose(A, B)
    assert np.allclose(A[3 * 1 + 0, 3 * 0 + 1], 1.0)  # |0,1> -> |1,0>
    assert level_bits("binary", 6, 8) == [0, 1, 1] and level_bits("unary", 2, 4) == [0, 0, 1, 0]
    for kind, m, d in (("binary", 2, 3), ("unary", 2, 3), ("christiansen", 3, 2), ("binary", 1, 8)):
        V = isometry(kind, m, d)
        assert np.allclose(V.T @ V, np.eye(d**m))
    # binary, one mode, 4 levels: level 1 = bit0 set = qubit 0 = most significant of 2 qubits -> index 2
    V = isometry("binary", 1, 4)
    assert V[2, 1] == 1 and V[1, 2] == 1 and V[3, 3] == 1
