"""Deterministic reference *executor* for tapes (numpy + pv.ref.sim), used where a transform's output batch must be
"executed" and post-processed (C20, C19, ...).

* analytic measurements (expval / var / probs) are exact functions of the final state, also when the tape has shots;
* sample / counts are a deterministic function of (final state, measured observable, injected uniforms `u`): shot i is the
  inverse CDF of the *eigenvalue distribution* (ascending eigenvalues; basis-state index order for computational-basis
  samples) evaluated at u[i].  Two measurements that describe the same observable on the same state therefore give
  identical sample arrays, whatever basis change was used to express them, so re-assembly of sample results can be
  compared exactly;
* result structure follows the documented conventions of `default.qubit`: one measurement -> bare result, several ->
  tuple; shot vector -> tuple over copies (outermost); broadcasting -> leading batch axis (counts: list of dicts).

`strict=True` raises NearThreshold if an injected uniform is within 1e-6 of a CDF jump (callers reject such cases on the
*original* tape so that float noise can never flip a sample)."""
import numpy as np

from . import sim


class NearThreshold(Exception):
    pass


def op_batch(op):
    """Broadcast size of an operator, looking through adjoint wrappers (whose own batch_size may be unset)."""
    b = getattr(op, "batch_size", None)
    if b:
        return b
    if type(op).__name__.startswith("Adjoint") and hasattr(op, "base"):
        return op_batch(op.base)
    return None


def slice_op(op, b):
    """Un-broadcast one operator (only used for tapes a transform left broadcasted)."""
    import pennylane as qp

    if not op_batch(op):
        return op
    if type(op).__name__.startswith("Adjoint") and hasattr(op, "base"):
        return qp.adjoint(slice_op(op.base, b))
    new = tuple(p if np.ndim(p) == op.ndim_params[j] else p[b] for j, p in enumerate(op.data))
    return qp.ops.functions.bind_new_parameters(op, new)


def tape_batch(tape):
    for op in tape.operations:
        b = op_batch(op)
        if b:
            return b
    return None


def _mp_eigvals(mp):
    ev = getattr(mp, "_eigvals", None)
    return None if ev is None else np.asarray(ev, dtype=float)


def eig_distribution(psi, mp, order):
    """(values ascending, probabilities) of the measured quantity."""
    ev = _mp_eigvals(mp)
    if mp.obs is None:
        wires = list(mp.wires) if len(mp.wires) else list(order)
        p = sim.marginal_probs(psi, order, wires)
        vals = ev
    else:
        wires = list(mp.obs.wires)
        M = sim.op_matrix(mp.obs)
        M = (M + M.conj().T) / 2
        vals, vecs = np.linalg.eigh(M)
        rho = sim.reduced_dm(psi, order, wires)
        p = np.real(np.einsum("ij,ik,kj->j", vecs.conj(), rho, vecs))
    idx = np.argsort(vals, kind="stable")
    vals, p = np.asarray(vals)[idx], np.asarray(p)[idx]
    gv, gp = [], []
    for v, q in zip(vals, p):
        if gv and abs(v - gv[-1]) < 1e-7:
            gp[-1] += q
        else:
            gv.append(float(v))
            gp.append(float(q))
    return np.array(gv), np.array(gp)


def _inv_cdf(p, u, strict):
    c = np.cumsum(p)
    if strict:
        inner = c[:-1]
        # jumps with no mass on either side are harmless only if u cannot reach them; be conservative
        if inner.size and np.min(np.abs(np.asarray(u)[:, None] - inner[None, :])) < 1e-6:
            raise NearThreshold()
    k = np.searchsorted(c, u, side="right")
    return np.minimum(k, len(p) - 1)


def _samples(psi, mp, order, u, strict):
    if mp.obs is None and _mp_eigvals(mp) is None:
        wires = list(mp.wires) if len(mp.wires) else list(order)
        p = sim.marginal_probs(psi, order, wires)
        k = _inv_cdf(p, u, strict)
        n = len(wires)
        return np.array([[(int(i) >> (n - 1 - j)) & 1 for j in range(n)] for i in k], dtype=int).reshape(len(u), n)
    vals, p = eig_distribution(psi, mp, order)
    return vals[_inv_cdf(p, u, strict)]


def _counts(psi, mp, order, u, strict):
    s = _samples(psi, mp, order, u, strict)
    out = {}
    if mp.obs is None and _mp_eigvals(mp) is None:
        n = s.shape[1]
        if getattr(mp, "all_outcomes", False):
            for i in range(2**n):
                out[format(i, f"0{n}b") if n else ""] = 0
        for row in s:
            key = "".join(str(int(b)) for b in row)
            out[key] = out.get(key, 0) + 1
        return out
    if getattr(mp, "all_outcomes", False):
        vals, _ = eig_distribution(psi, mp, order)
        for v in vals:
            out[round(float(v), 7) + 0.0] = 0
    for v in s:
        key = round(float(v), 7) + 0.0
        out[key] = out.get(key, 0) + 1
    return out


def measure(psi, mp, order, u=None, strict=False):
    kind = type(mp).__name__
    if kind in ("ExpectationMP", "VarianceMP") and mp.obs is None:
        vals, p = eig_distribution(psi, mp, order)
        e = float(p @ vals)
        return e if kind == "ExpectationMP" else float(p @ vals**2 - e * e)
    if kind == "ProbabilityMP" and mp.obs is None:
        wires = list(mp.wires) if len(mp.wires) else list(order)
        return sim.marginal_probs(psi, order, wires)
    if kind == "SampleMP":
        return _samples(psi, mp, order, u, strict)
    if kind == "CountsMP":
        return _counts(psi, mp, order, u, strict)
    return sim.measure(psi, mp, order)


def _stack(items):
    if isinstance(items[0], dict):
        return list(items)
    return np.stack([np.asarray(x) for x in items])


def exec_tape(tape, order, u=(), strict=False, states=None):
    """Reference result of `tape` with the documented result structure.  `states` (optional) overrides the final
    state(s): a flat vector, or a list of vectors for a broadcasted evaluation."""
    order = list(order)
    if states is None:
        B = tape_batch(tape)
        if B:
            states = [sim.run_ops([slice_op(op, b) for op in tape.operations], order) for b in range(B)]
        else:
            states = sim.run_ops(tape.operations, order)
    batched = isinstance(states, list)
    sh = tape.shots
    copies = [None] if not sh else list(sh)
    u = np.asarray(u, dtype=float)
    need = sum(c for c in copies if c)
    if need > len(u) and any(type(m).__name__ in ("SampleMP", "CountsMP") for m in tape.measurements):
        raise ValueError("not enough injected uniforms")
    out = []
    pos = 0
    for c in copies:
        uc = u[pos:pos + c] if c else None
        pos += c or 0
        res = []
        for mp in tape.measurements:
            if batched:
                res.append(_stack([measure(s, mp, order, uc, strict) for s in states]))
            else:
                res.append(measure(states, mp, order, uc, strict))
        out.append(res[0] if len(res) == 1 else tuple(res))
    if sh and sh.has_partitioned_shots:
        return tuple(out)
    return out[0]


# ------------------------------------------------------------------------------------------- comparison

def _is_counts(x):
    return isinstance(x, dict)


def _norm_counts(d):
    out = {}
    for k, v in d.items():
        if isinstance(k, (str, np.str_)):
            kk = str(k)
        else:
            kk = round(float(np.real(k)), 6) + 0.0
        out[kk] = out.get(kk, 0) + int(v)
    return out


def same(got, exp, tol=1e-8, path="res"):
    """None if `got` has the structure and values of `exp`, else a short description of the first difference."""
    if isinstance(exp, tuple):
        if not isinstance(got, (tuple, list)) or len(got) != len(exp):
            return f"{path}: expected tuple of {len(exp)}, got {type(got).__name__}" + (f" of {len(got)}" if hasattr(got, '__len__') else "")
        for i, (g, e) in enumerate(zip(got, exp)):
            d = same(g, e, tol, f"{path}[{i}]")
            if d:
                return d
        return None
    if _is_counts(exp):
        if not _is_counts(got):
            return f"{path}: expected counts dict, got {type(got).__name__}"
        a, b = _norm_counts(got), _norm_counts(exp)
        return None if a == b else f"{path}: counts {a} != {b}"
    if isinstance(exp, list):  # broadcasted counts: any sequence of dicts
        if isinstance(got, np.ndarray) and got.dtype == object:
            got = list(got)
        if not isinstance(got, (list, tuple)) or len(got) != len(exp):
            return f"{path}: expected {len(exp)} counts dicts, got {type(got).__name__}"
        for i, (g, e) in enumerate(zip(got, exp)):
            d = same(g, e, tol, f"{path}[{i}]")
            if d:
                return d
        return None
    if isinstance(got, (tuple, list, dict)):
        return f"{path}: expected array of shape {np.shape(exp)}, got {type(got).__name__}"
    try:
        g = np.asarray(got)
        if g.dtype == object:
            return f"{path}: object array"
        g = g.astype(complex)
    except (TypeError, ValueError):
        return f"{path}: not numeric ({type(got).__name__})"
    e = np.asarray(exp, dtype=complex)
    if g.shape != e.shape:
        return f"{path}: shape {g.shape} != {e.shape}"
    if g.size and not np.all(np.isfinite(g)):
        return f"{path}: non-finite"
    scale = max(1.0, float(np.abs(e).max()) if e.size else 1.0)
    if g.size and float(np.abs(g - e).max()) > tol * scale:
        def fmt(x):
            x = np.round(x, 9)
            return x.real.tolist() if np.allclose(x.imag, 0) else x.tolist()
        return f"{path}: got {fmt(g)} expected {fmt(e)}"
    return None


def selftest():
    import pennylane as qp

    sim.selftest()
    ops = [qp.RX(0.4, 0), qp.RY(1.1, 1), qp.CNOT([0, 1])]
    u = [0.05, 0.5, 0.93, 0.31]
    ms = [qp.sample(qp.X(0) @ qp.Y(1)), qp.sample(wires=[1, 0]), qp.counts(qp.Z(0)), qp.expval(qp.X(0)), qp.probs(wires=[1])]
    t = qp.tape.QuantumScript(ops, ms, shots=4)
    r = exec_tape(t, [0, 1], u)
    assert r[0].shape == (4,) and r[1].shape == (4, 2) and isinstance(r[2], dict) and r[4].shape == (2,)
    # basis independence of the sampler: X0@Y1 measured directly == Z0@Z1 after the textbook rotations
    t2 = qp.tape.QuantumScript(ops + [qp.Hadamard(0), qp.adjoint(qp.S(1)), qp.Hadamard(1)], [qp.sample(qp.Z(0) @ qp.Z(1))], shots=4)
    assert np.allclose(exec_tape(t2, [0, 1], u), r[0])
    # structure agrees with default.qubit for analytic + shot-vector + broadcast shapes
    dev = qp.device("default.qubit", seed=0)
    t3 = qp.tape.QuantumScript([qp.RX(np.array([0.1, 0.2, 0.3]), 0)] + ops, ms, shots=[3, 1])
    a = dev.execute(t3)
    b = exec_tape(t3, [0, 1], u)

    def shape(x):
        if isinstance(x, tuple):
            return tuple(shape(y) for y in x)
        if isinstance(x, (list, dict)):
            return ("counts", len(x))
        return np.shape(x)

    assert shape(a) == shape(b), (shape(a), shape(b))
    t4 = qp.tape.QuantumScript(ops, [qp.expval(qp.X(0) + 2 * qp.Z(1)), qp.var(qp.Hermitian(np.array([[1, 1j], [-1j, 0.5]]), 1)), qp.probs(op=qp.Y(0))])
    assert same(dev.execute(t4), exec_tape(t4, [0, 1])) is None
    assert same((1.0, np.zeros(2)), (1.0, np.zeros(3))) is not None
