"""Reference semantics of templates, written from their docstrings (numpy only; never calls PennyLane).

`reference(leaf, wires, sub)` -> W (2^n x 2^n complex) on the wire order `wires`, or None when this file has no
model for the class.  W is a *partial isometry*: columns of computational-basis inputs outside the documented
domain (registers >= modulus, work wires not |0>, state preparations on anything but |0..0>) are zero, so that
adjoints / controls of W compose correctly and the caller can read the domain off the non-zero columns.
`leaf` is the JSON spec (registers are read from the spec, not from the PennyLane object); `sub(spec)` returns
(matrix, wires) of a nested operator spec.
"""
from math import gcd

import numpy as np

from . import gates as G


def _w(x):
    return tuple(x) if isinstance(x, list) else x


def _bits(i, n):
    return [(i >> (n - 1 - j)) & 1 for j in range(n)]


def _val(bits, wires, reg):
    v = 0
    for w in reg:
        v = 2 * v + bits[wires.index(_w(w))]
    return v


def _put(bits, wires, reg, v):
    out = list(bits)
    k = len(reg)
    for j, w in enumerate(reg):
        out[wires.index(_w(w))] = (v >> (k - 1 - j)) & 1
    return out


def _idx(bits):
    v = 0
    for b in bits:
        v = 2 * v + b
    return v


def _classical(wires, fn):
    """fn(bits) -> new bits, or None when the input is outside the domain."""
    n = len(wires)
    W = np.zeros((2**n, 2**n), dtype=complex)
    for i in range(2**n):
        out = fn(_bits(i, n))
        if out is not None:
            W[_idx(out), i] = 1
    return W


def dft(n):
    """QFT|x> = 2^{-n/2} sum_y exp(2 pi i x y / 2^n) |y>."""
    N = 2**n
    k = np.arange(N)
    return np.exp(2j * np.pi * np.outer(k, k) / N) / np.sqrt(N)


def _zero(bits, wires, regs):
    return all(bits[wires.index(_w(w))] == 0 for w in regs)


def reference(leaf, wires, sub=None):
    name = leaf["op"]
    kw = leaf.get("kw", {})
    wires = list(wires)
    n = len(wires)
    ww = [w for w in (kw.get("work_wires") or []) if _w(w) in wires]
    if "work_wire" in kw and kw["work_wire"] is not None:
        ww = [w for w in kw["work_wire"] if _w(w) in wires]

    if name == "Adder":
        x, k = kw["x_wires"], kw["k"]
        mod = kw.get("mod") or 2 ** len(x)

        def f(b):
            v = _val(b, wires, x)
            if v >= mod or not _zero(b, wires, ww):
                return None
            return _put(b, wires, x, (v + k) % mod)
        return _classical(wires, f)
    if name == "PhaseAdder":
        x, k = kw["x_wires"], kw["k"]
        m = len(x)
        mod = kw.get("mod") or 2**m
        lim = mod if mod == 2**m else min(mod, 2 ** (m - 1))

        def f(b):
            v = _val(b, wires, x)
            if v >= lim or not _zero(b, wires, ww):
                return None
            return _put(b, wires, x, (v + k) % mod)
        P = _classical(wires, f)
        F = _embed(dft(m), [_w(w) for w in x], wires)
        return F @ P @ F.conj().T
    if name == "OutAdder":
        x, y, o = kw["x_wires"], kw["y_wires"], kw["output_wires"]
        mod = kw.get("mod") or 2 ** len(o)

        def f(b):
            vx, vy, vo = _val(b, wires, x), _val(b, wires, y), _val(b, wires, o)
            if max(vx, vy, vo) >= mod or not _zero(b, wires, ww):
                return None
            return _put(b, wires, o, (vo + vx + vy) % mod)
        return _classical(wires, f)
    if name == "Multiplier":
        x, k = kw["x_wires"], kw["k"]
        mod = kw.get("mod") or 2 ** len(x)
        assert gcd(k, mod) == 1

        def f(b):
            v = _val(b, wires, x)
            if v >= mod or not _zero(b, wires, ww):
                return None
            return _put(b, wires, x, (v * k) % mod)
        return _classical(wires, f)
    if name == "OutMultiplier":
        x, y, o = kw["x_wires"], kw["y_wires"], kw["output_wires"]
        mod = kw.get("mod") or 2 ** len(o)
        zeroed = kw.get("output_wires_zeroed", False)

        def f(b):
            vx, vy, vo = _val(b, wires, x), _val(b, wires, y), _val(b, wires, o)
            if max(vx, vy, vo) >= mod or not _zero(b, wires, ww) or (zeroed and vo):
                return None
            return _put(b, wires, o, (vo + vx * vy) % mod)
        return _classical(wires, f)
    if name == "ModExp":
        x, o, base = kw["x_wires"], kw["output_wires"], kw["base"]
        mod = kw.get("mod") or 2 ** len(o)
        assert gcd(base, mod) == 1

        def f(b):
            vx, vo = _val(b, wires, x), _val(b, wires, o)
            if vx >= mod or vo >= mod or not _zero(b, wires, ww):
                return None
            return _put(b, wires, o, (vo * pow(base, vx, mod)) % mod)
        return _classical(wires, f)
    if name == "OutSquare":
        x, o = kw["x_wires"], kw["output_wires"]
        zeroed = kw.get("output_wires_zeroed", False)

        def f(b):
            vx, vo = _val(b, wires, x), _val(b, wires, o)
            if not _zero(b, wires, ww) or (zeroed and vo):
                return None
            return _put(b, wires, o, (vo + vx * vx) % 2 ** len(o))
        return _classical(wires, f)
    if name == "SemiAdder":
        x, y = kw["x_wires"], kw["y_wires"]

        def f(b):
            if not _zero(b, wires, ww):
                return None
            return _put(b, wires, y, (_val(b, wires, x) + _val(b, wires, y)) % 2 ** len(y))
        return _classical(wires, f)
    if name == "Incrementer":
        x = leaf["w"]

        def f(b):
            if not _zero(b, wires, ww):
                return None
            return _put(b, wires, x, (_val(b, wires, x) + 1) % 2 ** len(x))
        return _classical(wires, f)
    if name == "IntegerComparator":
        L, geq = leaf["p"][0] if leaf.get("p") else kw["value"], kw.get("geq", True)
        reg = leaf["w"]
        ctrl, tgt = reg[:-1], reg[-1]

        def f(b):
            if not _zero(b, wires, ww):
                return None
            v = _val(b, wires, ctrl)
            flip = (v >= L) if geq else (v < L)
            out = list(b)
            if flip:
                out[wires.index(_w(tgt))] ^= 1
            return out
        return _classical(wires, f)
    if name == "QROM":
        cw, tw = kw["control_wires"], kw["target_wires"]
        bs = kw["bitstrings"]

        def f(b):
            if not _zero(b, wires, ww):
                return None
            i = _val(b, wires, cw)
            if i >= len(bs):
                return None
            if not _zero(b, wires, tw):
                return None
            return _put(b, wires, tw, int(bs[i], 2))
        return _classical(wires, f)
    if name == "BasisState":
        bits = leaf["p"][0]
        return _prep(_basis_vec(bits), [_w(w) for w in leaf["w"]], wires)
    if name in ("StatePrep", "MottonenStatePreparation", "AmplitudeEmbedding"):
        from pv.specs import param

        v = np.asarray(param(leaf["p"][0] if leaf.get("p") else kw.get("state_vector", kw.get("features"))), dtype=complex)
        v = v / np.linalg.norm(v)
        regs = leaf["w"]
        return _prep(v, [_w(w) for w in regs], wires)
    if name == "CosineWindow":
        m = len(leaf["w"])
        k = np.arange(2**m)
        v = np.sqrt(2.0 ** (1 - m)) * np.cos(np.pi * k / 2**m - np.pi / 2)
        return _prep(v.astype(complex), [_w(w) for w in leaf["w"]], wires)
    if name == "AngleEmbedding":
        rot = {"X": G.RX, "Y": G.RY, "Z": G.RZ}[kw.get("rotation", "X")]
        U = np.eye(2**n, dtype=complex)
        for t, w in zip(leaf["p"][0], leaf["w"]):
            U = _embed(rot(t), [_w(w)], wires) @ U
        return U
    if name == "BasicEntanglerLayers":
        rot = {"RX": G.RX, "RY": G.RY, "RZ": G.RZ, None: G.RX}[kw.get("rotation")]
        ws = [_w(w) for w in leaf["w"]]
        U = np.eye(2**n, dtype=complex)
        for layer in leaf["p"][0]:
            for t, w in zip(layer, ws):
                U = _embed(rot(t), [w], wires) @ U
            if len(ws) == 2:
                U = _embed(G.FIXED["CNOT"], ws, wires) @ U
            elif len(ws) > 2:
                for i in range(len(ws)):
                    U = _embed(G.FIXED["CNOT"], [ws[i], ws[(i + 1) % len(ws)]], wires) @ U
        return U
    if name == "StronglyEntanglingLayers":
        ws = [_w(w) for w in leaf["w"]]
        m = len(ws)
        wts = leaf["p"][0]
        ranges = kw.get("ranges") or ([(l % (m - 1)) + 1 for l in range(len(wts))] if m > 1 else [0] * len(wts))
        imp = G.FIXED[kw.get("imprimitive", "CNOT")]
        U = np.eye(2**n, dtype=complex)
        for l, layer in enumerate(wts):
            for ang, w in zip(layer, ws):
                U = _embed(G.Rot(*ang), [w], wires) @ U
            if m > 1:
                for i in range(m):
                    U = _embed(imp, [ws[i], ws[(i + ranges[l]) % m]], wires) @ U
        return U
    if name == "ChangeOpBasis" and sub is not None:
        U = np.eye(2**n, dtype=complex)
        for s in (leaf["compute"], leaf["target"], leaf["uncompute"]):
            M, mw = sub(s)
            U = _embed(M, mw, wires) @ U
        return U
    if name == "Select" and sub is not None:
        cw = [_w(w) for w in leaf["cw"]]
        rest = [w for w in wires if w not in cw]
        blocks = []
        for s in leaf["ops"]:
            M, mw = sub(s)
            blocks.append(_embed(M, mw, rest))
        d = 2 ** len(rest)
        full = np.zeros((2 ** len(cw) * d,) * 2, dtype=complex)
        for i in range(2 ** len(cw)):
            B = blocks[i] if i < len(blocks) else (np.zeros((d, d)) if leaf.get("partial") else np.eye(d))
            full[i * d:(i + 1) * d, i * d:(i + 1) * d] = B
        W = _embed(full, cw + rest, wires)
        wwl = [_w(w) for w in leaf.get("ww", []) if _w(w) in wires]
        if wwl:
            P = _classical(wires, lambda b: b if _zero(b, wires, wwl) else None)
            W = W @ P
        return W
    if name == "ControlledSequence" and sub is not None:
        cw = [_w(w) for w in leaf["cw"]]
        M, mw = sub(leaf["base"])
        U = np.eye(2**n, dtype=complex)
        for i, c in enumerate(cw):
            P = np.linalg.matrix_power(M, 2 ** (len(cw) - 1 - i))
            U = _embed(G.controlled(P, 1), [c] + list(mw), wires) @ U
        return U
    return None


def _embed(M, sub_wires, wires):
    from . import sim

    return sim.embed(M, list(sub_wires), list(wires))


def _basis_vec(bits):
    v = np.zeros(2 ** len(bits), dtype=complex)
    v[_idx([int(b) for b in bits])] = 1
    return v


def _prep(vec, reg, wires):
    """|vec><0..0| on `reg`, identity structure elsewhere is NOT implied: remaining wires untouched."""
    k = len(reg)
    M = np.zeros((2**k, 2**k), dtype=complex)
    M[:, 0] = vec
    if list(reg) == list(wires):
        return M
    # partial isometry on reg, identity on the rest
    rest = [w for w in wires if w not in reg]
    full = np.kron(M, np.eye(2 ** len(rest)))
    perm = _embed(np.eye(2 ** len(wires)), wires, wires)
    del perm
    return _permute(full, list(reg) + rest, wires)


def _permute(M, order_in, order_out):
    """Re-express matrix M given on wire order `order_in` on wire order `order_out`."""
    n = len(order_in)
    T = np.asarray(M).reshape((2,) * (2 * n))
    perm = [order_in.index(w) for w in order_out]
    T = np.transpose(T, perm + [n + p for p in perm])
    return T.reshape(2**n, 2**n)


def selftest():
    assert np.allclose(dft(1), G.H)
    W = reference({"op": "Adder", "kw": {"k": 3, "x_wires": [0, 1, 2], "mod": 5, "work_wires": [3, 4]}}, [0, 1, 2, 3, 4])
    # |x=4, work=00> -> |(4+3)%5 = 2>
    col = W[:, 4 << 2]
    assert col[2 << 2] == 1 and abs(col).sum() == 1
    assert not W[:, (5 << 2)].any() and not W[:, (1 << 2) | 1].any()
    A = np.arange(16).reshape(4, 4)
    assert np.allclose(_permute(np.kron(G.X, G.Z), ["a", "b"], ["b", "a"]), np.kron(G.Z, G.X))
    del A
