"""Tiny evaluator for OpenQASM 2.0 programs over qelib1.inc, on top of the independent `openqasm3` parser.

Gate semantics are written from the OpenQASM 2 paper / qelib1.inc definitions (u3, u2, u1, cx and the gates
defined from them). Returns the program's unitary on the declared quantum register (q[0] most significant,
matching "wire i -> q[i]" with wire order = PennyLane's first-wire-most-significant convention) and the list of
(qubit index, classical bit index) terminal measurements. Never calls PennyLane."""
import math

import numpy as np

from . import gates as G
from .sim import apply


def u3(t, p, l):
    c, s = math.cos(t / 2), math.sin(t / 2)
    return np.array([[c, -np.exp(1j * l) * s], [np.exp(1j * p) * s, np.exp(1j * (p + l)) * c]], dtype=complex)


def u1(l):
    return np.diag([1, np.exp(1j * l)])


def _ctrl(U):
    return G.controlled(U)


QELIB = {
    "u3": (3, 1, u3), "u2": (2, 1, lambda p, l: u3(math.pi / 2, p, l)), "u1": (1, 1, u1), "U": (3, 1, u3),
    "id": (0, 1, lambda: np.eye(2)), "x": (0, 1, lambda: u3(math.pi, 0, math.pi)), "y": (0, 1, lambda: u3(math.pi, math.pi / 2, math.pi / 2)),
    "z": (0, 1, lambda: u1(math.pi)), "h": (0, 1, lambda: u3(math.pi / 2, 0, math.pi)), "s": (0, 1, lambda: u1(math.pi / 2)),
    "sdg": (0, 1, lambda: u1(-math.pi / 2)), "t": (0, 1, lambda: u1(math.pi / 4)), "tdg": (0, 1, lambda: u1(-math.pi / 4)),
    "rx": (1, 1, lambda t: u3(t, -math.pi / 2, math.pi / 2)), "ry": (1, 1, lambda t: u3(t, 0, 0)), "rz": (1, 1, lambda p: u1(p)),
    "cx": (0, 2, lambda: _ctrl(u3(math.pi, 0, math.pi))), "CX": (0, 2, lambda: _ctrl(u3(math.pi, 0, math.pi))),
    "cz": (0, 2, lambda: _ctrl(u1(math.pi))), "cy": (0, 2, lambda: _ctrl(u3(math.pi, math.pi / 2, math.pi / 2))),
    "ch": (0, 2, lambda: _ctrl(G.H)), "swap": (0, 2, lambda: G.SWAP),
    "ccx": (0, 3, lambda: G.controlled(u3(math.pi, 0, math.pi), 2)), "cswap": (0, 3, lambda: _ctrl(G.SWAP)),
    # crz(l) = u1(l/2) b; cx a,b; u1(-l/2) b; cx a,b
    "crz": (1, 2, lambda l: np.diag([1, 1, np.exp(-0.5j * l), np.exp(0.5j * l)])),
    "cu1": (1, 2, lambda l: np.diag([1, 1, 1, np.exp(1j * l)])),
    # crx / cry as in later qelib1.inc revisions: controlled versions of rx / ry
    "crx": (1, 2, lambda t: _ctrl(G.RX(t))), "cry": (1, 2, lambda t: _ctrl(G.RY(t))),
    "cu3": (3, 2, lambda t, p, l: _ctrl(u3(t, p, l))),
}


def _val(e):
    k = type(e).__name__
    if k in ("FloatLiteral", "IntegerLiteral"):
        return float(e.value)
    if k == "Identifier":
        if e.name in ("pi", "π"):
            return math.pi
        raise ValueError("unknown identifier " + e.name)
    if k == "UnaryExpression":
        v = _val(e.expression)
        return -v if e.op.name == "-" else v
    if k == "BinaryExpression":
        a, b = _val(e.lhs), _val(e.rhs)
        return {"+": a + b, "-": a - b, "*": a * b, "/": a / b, "**": a ** b}[e.op.name]
    raise ValueError("unsupported expression " + k)


def evaluate(text):
    import openqasm3

    ast = openqasm3.parse(text)
    n = None
    U = None
    phase = 0.0
    measured = []
    creg = {}
    for st in ast.statements:
        k = type(st).__name__
        if k == "Include":
            if st.filename != "qelib1.inc":
                raise ValueError("unexpected include")
        elif k == "QubitDeclaration":
            if n is not None:
                raise ValueError("second quantum register")
            n = int(st.size.value)
            U = np.eye(2**n, dtype=complex).reshape((2,) * n + (2**n,))
        elif k == "ClassicalDeclaration":
            creg[st.identifier.name] = int(st.type.size.value)
        elif k == "QuantumGate":
            name = st.name.name
            npar, nq, f = QELIB[name]
            ps = [_val(a) for a in st.arguments]
            qs = [int(q.indices[0][0].value) for q in st.qubits]
            if len(ps) != npar or len(qs) != nq or len(set(qs)) != nq or any(q >= n for q in qs):
                raise ValueError(f"malformed gate call {name}")
            U = apply(U, f(*ps), qs, batch_axes=1)
        elif k == "QuantumPhase":
            phase += _val(st.argument)
        elif k == "QuantumMeasurementStatement":
            q = int(st.measure.qubit.indices[0][0].value)
            c = st.target
            measured.append((q, c.name.name, int(c.indices[0][0].value)))
            if measured[-1][2] >= creg.get(measured[-1][1], 0):
                raise ValueError("classical bit out of range")
        else:
            raise ValueError("unsupported statement " + k)
    return {"n": n or 0, "U": None if U is None else U.reshape(2**n, 2**n), "gphase": phase, "measured": measured}


def selftest():
    r = evaluate('OPENQASM 2.0;\ninclude "qelib1.inc";\nqreg q[2];\ncreg c[2];\nh q[0];\ncx q[0],q[1];\nmeasure q[1] -> c[1];\n')
    psi = r["U"][:, 0]
    assert np.allclose(psi, [2**-0.5, 0, 0, 2**-0.5]) and r["measured"] == [(1, "c", 1)]
    assert np.allclose(QELIB["rx"][2](0.3), G.RX(0.3)) and np.allclose(QELIB["ry"][2](0.3), G.RY(0.3))
    assert np.allclose(QELIB["crz"][2](0.7), G.controlled(G.RZ(0.7)))
    assert np.allclose(QELIB["y"][2](), G.Y) and np.allclose(QELIB["h"][2](), G.H)
