"""Reference models for quantum-information quantities (plain numpy, written from the textbook definitions).

States are built deterministically from a JSON spec {"t": kind, "n": qubits, "seed": int, "rank": int}; the seed is
drawn by Hypothesis, so a spec determines its state exactly.
"""
import itertools

import numpy as np

KINDS = ("haar", "basis", "ghz", "sparse", "ginibre", "spectrum", "diag", "mm", "product", "realsym")


def _rng(seed):
    return np.random.default_rng(int(seed))


def haar_vec(rng, d):
    v = rng.normal(size=d) + 1j * rng.normal(size=d)
    return v / np.linalg.norm(v)


def haar_unitary(rng, d):
    G = rng.normal(size=(d, d)) + 1j * rng.normal(size=(d, d))
    Q, R = np.linalg.qr(G)
    ph = np.diag(R) / np.abs(np.diag(R))
    return Q * ph


def spectrum(rng, d, r):
    """r non-zero eigenvalues (each >= 0.02/r, with a chance of exact degeneracy), d-r exact zeros."""
    r = max(1, min(r, d))
    mode = rng.integers(0, 3)
    if mode == 0:
        p = np.full(r, 1.0 / r)
    else:
        p = rng.dirichlet(np.ones(r)) * 0.9 + 0.1 / r
        if mode == 2 and r >= 2:
            p[1] = p[0]
        p = p / p.sum()
    out = np.zeros(d)
    out[:r] = p
    return out


def build_state(s):
    """Returns dict(rho=(d,d) array, psi=vector or None, rank=int by construction)."""
    t, n, seed = s["t"], int(s["n"]), s.get("seed", 0)
    d = 2 ** n
    rng = _rng(seed)
    psi = None
    if t == "haar":
        psi = haar_vec(rng, d)
    elif t == "basis":
        psi = np.zeros(d, dtype=complex)
        psi[int(seed) % d] = 1.0
    elif t == "ghz":
        psi = np.zeros(d, dtype=complex)
        phi = [0.0, np.pi, np.pi / 2, float(rng.uniform(0, 6.28))][int(seed) % 4]
        psi[0] += 1 / np.sqrt(2)
        psi[d - 1] += np.exp(1j * phi) / np.sqrt(2)
        psi = psi / np.linalg.norm(psi)
    elif t == "sparse":
        k = min(d, 1 + int(rng.integers(1, 3)))
        idx = rng.choice(d, size=k, replace=False)
        psi = np.zeros(d, dtype=complex)
        psi[idx] = haar_vec(rng, k)
    if psi is not None:
        return {"rho": np.outer(psi, psi.conj()), "psi": psi, "rank": 1}
    if t == "ginibre":
        r = max(1, min(int(s.get("rank", d)), d))
        G = rng.normal(size=(d, r)) + 1j * rng.normal(size=(d, r))
        rho = G @ G.conj().T
        return {"rho": rho / np.trace(rho).real, "psi": None, "rank": r}
    if t == "realsym":
        r = max(1, min(int(s.get("rank", d)), d))
        G = rng.normal(size=(d, r))
        rho = G @ G.T
        return {"rho": rho / np.trace(rho), "psi": None, "rank": r}
    if t == "spectrum":
        r = max(1, min(int(s.get("rank", d)), d))
        p = spectrum(rng, d, r)
        U = haar_unitary(rng, d)
        rho = (U * p) @ U.conj().T
        return {"rho": (rho + rho.conj().T) / 2, "psi": None, "rank": r}
    if t == "diag":
        r = max(1, min(int(s.get("rank", d)), d))
        w = rng.integers(1, 5, size=r).astype(float)
        p = np.zeros(d)
        p[rng.choice(d, size=r, replace=False)] = w / w.sum()
        return {"rho": np.diag(p).astype(complex), "psi": None, "rank": r}
    if t == "mm":
        return {"rho": np.eye(d, dtype=complex) / d, "psi": None, "rank": d}
    if t == "product":
        rho = np.ones((1, 1), dtype=complex)
        rank = 1
        for _ in range(n):
            c = int(rng.integers(0, 4))
            if c == 0:
                v = haar_vec(rng, 2)
                f, r1 = np.outer(v, v.conj()), 1
            elif c == 1:
                f, r1 = np.diag([1.0, 0.0]).astype(complex), 1
            elif c == 2:
                f, r1 = np.eye(2, dtype=complex) / 2, 2
            else:
                U = haar_unitary(rng, 2)
                q = float(rng.uniform(0.1, 0.9))
                f, r1 = (U * np.array([q, 1 - q])) @ U.conj().T, 2
            rho = np.kron(rho, f)
            rank *= r1
        return {"rho": rho, "psi": None, "rank": rank}
    raise ValueError(t)


# ---------------------------------------------------------------- reference quantities

def nq(M):
    d = M.shape[-1]
    n = int(round(np.log2(d)))
    assert 2 ** n == d
    return n


def reduce(rho, keep):
    """Reduced matrix on the wires `keep` (in that order): explicit index contraction of rho[i_0..i_{n-1}, j_0..j_{n-1}]."""
    rho = np.asarray(rho)
    n = nq(rho)
    T = rho.reshape([2] * (2 * n))
    subs = list(range(n)) + [i + n if i in keep else i for i in range(n)]
    out = [k for k in keep] + [k + n for k in keep]
    R = np.einsum(T, subs, out)
    return R.reshape(2 ** len(keep), 2 ** len(keep))


def reduce_bruteforce(rho, keep):
    """Same as reduce(), by summing over bit strings (used only in the self test)."""
    n = nq(rho)
    k = len(keep)
    rest = [i for i in range(n) if i not in keep]
    out = np.zeros((2 ** k, 2 ** k), dtype=complex)
    for a in itertools.product((0, 1), repeat=k):
        for b in itertools.product((0, 1), repeat=k):
            acc = 0
            for r in itertools.product((0, 1), repeat=len(rest)):
                bi, bj = [0] * n, [0] * n
                for w, x, y in zip(keep, a, b):
                    bi[w], bj[w] = x, y
                for w, x in zip(rest, r):
                    bi[w] = bj[w] = x
                i = int("".join(map(str, bi)), 2) if n else 0
                j = int("".join(map(str, bj)), 2) if n else 0
                acc += rho[i, j]
            ia = int("".join(map(str, a)), 2) if k else 0
            ib = int("".join(map(str, b)), 2) if k else 0
            out[ia, ib] = acc
    return out


def expand(mat, wires, order):
    """mat acting on `wires` re-expressed on `order`: out[I,J] = mat[I|wires, J|wires] * [I|rest == J|rest]."""
    mat = np.asarray(mat)
    N = len(order)
    pos = [order.index(w) for w in wires]
    rest = [i for i in range(N) if i not in pos]
    I = np.arange(2 ** N)
    bit = lambda p: (I >> (N - 1 - p)) & 1  # noqa: E731
    iw = np.zeros_like(I)
    for p in pos:
        iw = (iw << 1) | bit(p)
    ir = np.zeros_like(I)
    for p in rest:
        ir = (ir << 1) | bit(p)
    return mat[iw[:, None], iw[None, :]] * (ir[:, None] == ir[None, :])


def psd_sqrt(rho):
    w, V = np.linalg.eigh((rho + rho.conj().T) / 2)
    w = np.clip(w, 0, None)
    return (V * np.sqrt(w)) @ V.conj().T


def fidelity(rho, sigma):
    """Uhlmann fidelity as the squared nuclear norm of sqrt(rho) sqrt(sigma)."""
    s = np.linalg.svd(psd_sqrt(rho) @ psd_sqrt(sigma), compute_uv=False)
    return float(s.sum() ** 2)


def trace_distance(rho, sigma):
    return 0.5 * float(np.linalg.svd(rho - sigma, compute_uv=False).sum())


def spectrum_of(rho):
    """Eigenvalues of a PSD matrix via singular values (descending)."""
    return np.linalg.svd((rho + rho.conj().T) / 2, compute_uv=False)


def entropy_from(evs, base=None):
    p = evs[evs > 1e-14]
    S = float(-(p * np.log(p)).sum())
    return S / np.log(base) if base else S


def relative_entropy(rho, sigma, base=None):
    """(value, status): status 'finite' | 'inf' | 'ambiguous' (support relation numerically unclear)."""
    ws, Vs = np.linalg.eigh((sigma + sigma.conj().T) / 2)
    ker = ws < 1e-10
    if np.any((ws > 1e-12) & (ws < 1e-6)):
        return None, "ambiguous"
    weight = 0.0
    if ker.any():
        K = Vs[:, ker]
        weight = float(np.real(np.trace(K.conj().T @ rho @ K)))
    if weight > 1e-8:
        return np.inf, "inf"
    if weight > 1e-13:
        return None, "ambiguous"
    wr = spectrum_of(rho)
    if np.any((wr > 1e-12) & (wr < 1e-6)):
        return None, "ambiguous"
    logs = np.where(ker, 0.0, np.log(np.where(ker, 1.0, ws)))
    logsig = (Vs * logs) @ Vs.conj().T
    val = -entropy_from(wr) - float(np.real(np.trace(rho @ logsig)))
    return (val / np.log(base) if base else val), "finite"


def selftest():
    rng = _rng(7)
    G = rng.normal(size=(8, 8)) + 1j * rng.normal(size=(8, 8))
    for keep in ([0], [2, 0], [1, 2, 0], [], [2, 1]):
        assert np.allclose(reduce(G, keep), reduce_bruteforce(G, keep))
    # product state: reduced states are the factors
    a = build_state({"t": "ginibre", "n": 1, "seed": 1, "rank": 2})["rho"]
    b = build_state({"t": "haar", "n": 1, "seed": 2})["rho"]
    assert np.allclose(reduce(np.kron(a, b), [1]), b) and np.allclose(reduce(np.kron(a, b), [1, 0]), np.kron(b, a))
    # expand: kron with identity and SWAP conjugation
    M = rng.normal(size=(4, 4))
    assert np.allclose(expand(M, ["a", "b"], ["a", "b", 3]), np.kron(M, np.eye(2)))
    assert np.allclose(expand(M, ["a", "b"], [3, "a", "b"]), np.kron(np.eye(2), M))
    SW = np.eye(4)[[0, 2, 1, 3]]
    assert np.allclose(expand(M, [0, 1], [1, 0]), SW @ M @ SW)
    m1 = rng.normal(size=(2, 2))
    assert np.allclose(expand(m1, [5], [0, 5, 1]), np.kron(np.kron(np.eye(2), m1), np.eye(2)))
    # fidelity / trace distance on closed forms
    p, q = haar_vec(rng, 4), haar_vec(rng, 4)
    P, Q = np.outer(p, p.conj()), np.outer(q, q.conj())
    F = abs(np.vdot(p, q)) ** 2
    assert abs(fidelity(P, Q) - F) < 1e-12 and abs(trace_distance(P, Q) - np.sqrt(1 - F)) < 1e-12
    assert abs(fidelity(np.diag([.5, .5]), np.diag([.9, .1])) - (np.sqrt(.45) + np.sqrt(.05)) ** 2) < 1e-12
    assert abs(entropy_from(np.array([.5, .5, 0, 0]), 2) - 1) < 1e-12
    v, st = relative_entropy(np.diag([.3, .7]).astype(complex), np.eye(2) / 2 + 0j)
    assert st == "finite" and abs(v - 0.0822828) < 1e-6
    assert relative_entropy(P, Q)[1] == "inf" and abs(relative_entropy(P, P)[0]) < 1e-12
    for t in KINDS:
        for n in (1, 2, 3):
            s = build_state({"t": t, "n": n, "seed": 5, "rank": 2})
            ev = np.linalg.eigvalsh(s["rho"])
            assert abs(np.trace(s["rho"]) - 1) < 1e-12 and ev.min() > -1e-12, t
            assert int((ev > 1e-9).sum()) == s["rank"], (t, n, ev, s["rank"])
