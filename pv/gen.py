"""Hypothesis strategies producing JSON specs (see pv/specs.py)."""
import math

from hypothesis import strategies as st

PI = math.pi
SPECIAL = [0.0, PI / 4, -PI / 4, PI / 2, -PI / 2, PI, -PI, 2 * PI, -2 * PI, 4 * PI, 3 * PI / 2, 1e-9, 1e-12, 0.5, 1.0]


def angles(special=0.3):
    """Mixture biased to values the code branches on."""
    u = st.floats(-7, 7, allow_nan=False, allow_infinity=False).map(lambda x: round(x, 6))
    return st.one_of(u, u, st.sampled_from(SPECIAL)) if special else u


def generic_angles():
    """Angles well away from special values (for properties that exclude thresholds)."""
    return st.floats(0.15, 2.9, allow_nan=False).map(lambda x: round(x, 5)).flatmap(
        lambda x: st.sampled_from([x, -x]))


floats01 = st.floats(-1, 1, allow_nan=False).map(lambda x: round(x, 4))


def float_list(n):
    return st.lists(floats01, min_size=n, max_size=n)


# name -> (n_params, n_wires)
GATES1 = {"PauliX": (0, 1), "PauliY": (0, 1), "PauliZ": (0, 1), "Hadamard": (0, 1), "S": (0, 1), "T": (0, 1), "SX": (0, 1),
          "RX": (1, 1), "RY": (1, 1), "RZ": (1, 1), "PhaseShift": (1, 1), "Rot": (3, 1), "U1": (1, 1), "U2": (2, 1), "U3": (3, 1)}
GATES2 = {"CNOT": (0, 2), "CZ": (0, 2), "CY": (0, 2), "CH": (0, 2), "SWAP": (0, 2), "ISWAP": (0, 2), "SISWAP": (0, 2), "ECR": (0, 2),
          "CRX": (1, 2), "CRY": (1, 2), "CRZ": (1, 2), "CRot": (3, 2), "ControlledPhaseShift": (1, 2),
          "CPhaseShift00": (1, 2), "CPhaseShift01": (1, 2), "CPhaseShift10": (1, 2),
          "IsingXX": (1, 2), "IsingYY": (1, 2), "IsingZZ": (1, 2), "IsingXY": (1, 2), "PSWAP": (1, 2),
          "SingleExcitation": (1, 2), "SingleExcitationPlus": (1, 2), "SingleExcitationMinus": (1, 2), "FermionicSWAP": (1, 2)}
GATES3 = {"Toffoli": (0, 3), "CSWAP": (0, 3), "CCZ": (0, 3)}
GATES4 = {"DoubleExcitation": (1, 4), "DoubleExcitationPlus": (1, 4), "DoubleExcitationMinus": (1, 4), "OrbitalRotation": (1, 4)}
ALL_GATES = {**GATES1, **GATES2, **GATES3, **GATES4}

WIRE_POOLS = [[0, 1, 2, 3, 4, 5], ["a", "b", "c", "d", "e", "f"], [3, "x", 0, "q1", 7, 2]]


def wire_labels(n):
    """n distinct wire labels (ints, strings or mixed) in a random order."""
    return st.sampled_from(WIRE_POOLS).flatmap(lambda pool: st.permutations(pool[:max(n, 1)])).map(lambda p: list(p)[:n])


def subset(wires, k):
    return st.permutations(wires).map(lambda p: list(p)[:k])


def gate(wires, pool=None, ang=None):
    """One gate spec from `pool` (dict name -> (n_params, n_wires)) on a random subset of `wires`."""
    pool = pool or ALL_GATES
    ang = angles() if ang is None else ang
    names = sorted(n for n, (_, k) in pool.items() if k <= len(wires))

    def mk(name):
        npar, k = pool[name]
        return st.tuples(st.lists(ang, min_size=npar, max_size=npar), subset(wires, k)).map(
            lambda t: {"op": name, "p": t[0], "w": t[1]})

    return st.sampled_from(names).flatmap(mk)


def extra_gate(wires, ang=None):
    """Gates with non-uniform signatures."""
    ang = angles() if ang is None else ang
    n = len(wires)
    opts = [st.tuples(ang, subset(wires, 1)).map(lambda t: {"op": "GlobalPhase", "p": [t[0]], "w": t[1]})]
    if n >= 1:
        opts.append(st.integers(1, min(n, 3)).flatmap(lambda k: st.tuples(ang, subset(wires, k)).map(
            lambda t: {"op": "MultiRZ", "p": [t[0]], "w": t[1]})))
        opts.append(st.integers(1, min(n, 3)).flatmap(lambda k: st.tuples(ang, subset(wires, k), st.text("XYZI", min_size=k, max_size=k)).map(
            lambda t: {"op": "PauliRot", "p": [t[0]], "w": t[1], "kw": {"pauli_word": t[2]}})))
        opts.append(st.integers(1, min(n, 2)).flatmap(lambda k: st.tuples(float_list(6), subset(wires, k)).map(
            lambda t: {"op": "QubitUnitary", "p": [{"U": t[0], "n": len(t[1])}], "w": t[1]})))
    if n >= 2:
        opts.append(st.integers(2, min(n, 4)).flatmap(lambda k: st.tuples(subset(wires, k), st.lists(st.integers(0, 1), min_size=k - 1, max_size=k - 1)).map(
            lambda t: {"op": "MultiControlledX", "p": [], "w": t[0], "kw": {"control_values": t[1]}})))
    return st.one_of(*opts)


def derive(prev, wires, ang=None):
    """An op derived from `prev`: its adjoint, same class with a new angle, same op again, wires permuted."""
    ang = angles() if ang is None else ang
    opts = [st.just({"op": "adjoint", "base": prev}), st.just(prev)]
    if prev.get("p") and all(isinstance(x, (int, float)) for x in prev["p"]):
        n = len(prev["p"])
        opts.append(st.lists(ang, min_size=n, max_size=n).map(lambda ps: {**prev, "p": ps}))
        opts.append(st.just({**prev, "p": [-x for x in prev["p"]]}))
        # angles that add up to a multiple of 2*pi with the previous gate (periodicity slips)
        opts.append(st.sampled_from([2 * PI, -2 * PI, 4 * PI, PI]).map(lambda t: {**prev, "p": [round(t - x, 9) for x in prev["p"]]}))
    if prev.get("w") and len(prev["w"]) >= 2:
        opts.append(st.permutations(prev["w"]).map(lambda w: {**prev, "w": list(w)}))
    return st.one_of(*opts)


@st.composite
def op_list(draw, wires, pool=None, max_depth=10, min_depth=1, ang=None, extras=False, p_derive=0.3):
    n = draw(st.integers(min_depth, max_depth))
    ops = []
    for _ in range(n):
        if ops and draw(st.floats(0, 1)) < p_derive:
            ops.append(draw(derive(ops[-1], wires, ang)))
        elif extras and draw(st.floats(0, 1)) < 0.2:
            ops.append(draw(extra_gate(wires, ang)))
        else:
            ops.append(draw(gate(wires, pool, ang)))
    return ops


def pauli_word_obs(wires, max_len=3):
    """Tensor product of Paulis on distinct wires."""
    def mk(ws):
        return st.lists(st.sampled_from(["PauliX", "PauliY", "PauliZ"]), min_size=len(ws), max_size=len(ws)).map(
            lambda names: {"op": names[0], "w": [ws[0]]} if len(ws) == 1 else
            {"op": "prod", "operands": [{"op": nm, "w": [w]} for nm, w in zip(names, ws)]})
    return st.integers(1, min(max_len, len(wires))).flatmap(lambda k: subset(wires, k)).flatmap(mk)


def observable(wires):
    herm = st.integers(1, min(2, len(wires))).flatmap(lambda k: st.tuples(float_list(5), subset(wires, k)).map(
        lambda t: {"op": "Hermitian", "p": [{"H": t[0], "n": len(t[1])}], "w": t[1]}))
    lin = st.lists(st.tuples(floats01, pauli_word_obs(wires)), min_size=1, max_size=3).map(
        lambda ts: {"op": "sum", "operands": [{"op": "s_prod", "c": c, "base": o} for c, o in ts]} if len(ts) > 1 else
        {"op": "s_prod", "c": ts[0][0], "base": ts[0][1]})
    return st.one_of(pauli_word_obs(wires), pauli_word_obs(wires), herm, lin)


def analytic_measurement(wires, with_state=True):
    opts = [
        observable(wires).map(lambda o: {"mp": "expval", "obs": o}),
        observable(wires).map(lambda o: {"mp": "var", "obs": o}),
        st.integers(1, len(wires)).flatmap(lambda k: subset(wires, k)).map(lambda w: {"mp": "probs", "w": w}),
    ]
    if with_state:
        opts.append(st.just({"mp": "state"}))
        opts.append(st.integers(1, len(wires)).flatmap(lambda k: subset(wires, k)).map(lambda w: {"mp": "density_matrix", "w": w}))
    return st.one_of(*opts)


@st.composite
def circuit(draw, max_wires=4, min_wires=1, max_depth=10, pool=None, extras=True, meas=True, with_state=False, ang=None, max_meas=3):
    n = draw(st.integers(min_wires, max_wires))
    wires = draw(wire_labels(n))
    ops = draw(op_list(wires, pool, max_depth, ang=ang, extras=extras))
    out = {"ops": ops, "wires": wires}
    if meas:
        out["meas"] = draw(st.lists(analytic_measurement(wires, with_state), min_size=1, max_size=max_meas))
    return out
