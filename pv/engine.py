"""Survey engine: generated-input search against per-property oracles.

A property module (pv/props/cNN_*.py) exposes

    ID, RULE, ASSUMPTIONS (list[str]), TECHNIQUE (str)
    BUDGET = {"quick": {"examples": n, "shards": k}, "thorough": {...}}
    strategy(tier)            -> hypothesis strategy producing JSON-able specs
    check(spec)               -> Result   (or raises Viol / Reject)
    enumerate_cases(tier)     -> optional iterable of specs (finite sub-domains, run in full)
    selftest()                -> optional, raises on reference-model failure (exit 2)
    EXHAUSTIVE                -> optional bool

Exit codes: 0 held / only known findings; 1 VIOLATION; 2 harness error.
"""
from __future__ import annotations

import hashlib
import importlib
import json
import os
import sys
import time
import traceback
import warnings
from collections import Counter

ROOT = os.path.dirname(os.path.dirname(os.path.abspath(__file__)))
REPO = os.environ.get("PV_REPO", "/repo")
# runs against a scratch tree (sensitivity testing) never touch the committed evidence / replays
OUT = ROOT if REPO == "/repo" else os.path.join(ROOT, "scratch", "mut")


class Viol(Exception):
    """The property is violated on this case."""

    def __init__(self, clause, detail="", sig=None, features=None):
        super().__init__(f"{clause}: {detail}")
        self.clause = clause
        self.detail = str(detail)[:2000]
        self.sig = sig or clause
        self.features = features or {}


class Reject(Exception):
    """The case is outside the documented domain / rejected with a documented error."""

    def __init__(self, reason="rejected"):
        super().__init__(reason)
        self.reason = reason


class Result:
    __slots__ = ("nontrivial", "labels")

    def __init__(self, nontrivial=True, labels=()):
        self.nontrivial = bool(nontrivial)
        self.labels = tuple(labels)


def canon(spec):
    return json.dumps(spec, sort_keys=True, default=_jsonable)


def _jsonable(o):
    import numpy as np

    if isinstance(o, (np.integer,)):
        return int(o)
    if isinstance(o, (np.floating,)):
        return float(o)
    if isinstance(o, complex):
        return {"re": o.real, "im": o.imag}
    if isinstance(o, np.ndarray):
        return o.tolist()
    if isinstance(o, (set, frozenset)):
        return sorted(o, key=repr)
    if isinstance(o, tuple):
        return list(o)
    return repr(o)


def spec_hash(spec):
    return hashlib.sha1(canon(spec).encode()).hexdigest()[:16]


def _origin(tb):
    """Walk the traceback from the innermost frame outward and say whether the exception first
    passes through the code under test ('sut') or through the harness ('harness')."""
    frames = traceback.extract_tb(tb)
    for fr in reversed(frames):
        fn = fr.filename
        if "/pennylane/" in fn and "/verif/" not in fn:
            return "sut", f"{os.path.basename(fn)}:{fr.name}"
        if "/verif/pv/" in fn or fn.endswith("/pv/engine.py"):
            return "harness", f"{os.path.basename(fn)}:{fr.name}"
    return "harness", "?"


def evaluate(mod, spec):
    """Run the oracle once. Returns (status, payload). status in ok/trivial/rejected/violation/error."""
    try:
        with warnings.catch_warnings():
            warnings.simplefilter("ignore")
            res = mod.check(spec)
        if res is None:
            res = Result(True)
        return ("ok" if res.nontrivial else "trivial"), res
    except Reject as r:
        return "rejected", r.reason
    except Viol as v:
        return "violation", v
    except (KeyboardInterrupt, SystemExit):
        raise
    except MemoryError:
        # the per-process memory cap (limit_memory) was hit: the case is too large for this harness -> inconclusive, never a violation
        import gc

        gc.collect()
        return "rejected", "memory limit of the harness reached"
    except RecursionError as e:
        origin, where = _origin(e.__traceback__)
        if origin == "sut":
            return "violation", Viol("unexpected-exception", "RecursionError", sig=f"RecursionError@{where}",
                                     features={"exc": "RecursionError"})
        return "error", "RecursionError in harness"
    except BaseException as e:  # noqa: BLE001
        origin, where = _origin(e.__traceback__)
        if origin == "sut" and not getattr(mod, "SUT_EXCEPTIONS_ARE_ERRORS", False):
            return "violation", Viol(
                "unexpected-exception",
                f"{type(e).__name__}: {e}",
                sig=f"{type(e).__name__}@{where}",
                features={"exc": type(e).__name__, "where": where},
            )
        return "error", "".join(traceback.format_exception(type(e), e, e.__traceback__))[-3000:]


class Stats:
    def __init__(self):
        self.generated = 0
        self.evaluations = 0
        self.rejected = Counter()
        self.labels = Counter()
        self.nontrivial = set()
        self.samples = []
        self.buckets = {}  # (clause, sig) -> {"count", "spec", "detail", "features"}
        self.errors = []
        self.seen = set()

    def add(self, spec, status, payload):
        self.generated += 1
        if status == "rejected":
            self.rejected[str(payload)[:80]] += 1
            return
        if status == "error":
            if len(self.errors) < 3:
                self.errors.append({"spec": spec, "trace": payload})
            else:
                self.errors.append(None)
            return
        self.evaluations += 1
        if status == "violation":
            v = payload
            key = (v.clause, v.sig)
            b = self.buckets.get(key)
            size = len(canon(spec))
            if b is None:
                self.buckets[key] = {"count": 1, "spec": spec, "detail": v.detail, "features": v.features, "size": size}
            else:
                b["count"] += 1
                if size < b["size"]:
                    b.update(spec=spec, detail=v.detail, features=v.features, size=size)
            h = spec_hash(spec)
            self.nontrivial.add(h)
            return
        res = payload
        for lab in res.labels:
            self.labels[lab] += 1
        if status == "ok":
            h = spec_hash(spec)
            if h not in self.nontrivial:
                self.nontrivial.add(h)
                if len(self.samples) < 4:
                    self.samples.append(spec)

    def dump(self):
        return {
            "generated": self.generated,
            "evaluations": self.evaluations,
            "rejected": dict(self.rejected),
            "labels": dict(self.labels),
            "nontrivial": sorted(self.nontrivial),
            "samples": self.samples,
            "buckets": [
                {"clause": k[0], "sig": k[1], **{kk: vv for kk, vv in b.items()}} for k, b in self.buckets.items()
            ],
            "errors": [e for e in self.errors if e][:3],
            "n_errors": len(self.errors),
        }


def merge(dumps):
    out = Stats()
    n_err = 0
    for d in dumps:
        out.generated += d["generated"]
        out.evaluations += d["evaluations"]
        out.rejected.update(d["rejected"])
        out.labels.update(d["labels"])
        out.nontrivial.update(d["nontrivial"])
        for s in d["samples"]:
            if len(out.samples) < 5:
                out.samples.append(s)
        for b in d["buckets"]:
            key = (b["clause"], b["sig"])
            cur = out.buckets.get(key)
            if cur is None:
                out.buckets[key] = {k: b[k] for k in ("count", "spec", "detail", "features", "size")}
            else:
                cur["count"] += b["count"]
                if b["size"] < cur["size"]:
                    cur.update({k: b[k] for k in ("spec", "detail", "features", "size")})
        out.errors.extend(d["errors"])
        n_err += d["n_errors"]
    out._n_errors = n_err
    return out


def setup_env():
    os.environ.setdefault("PYTHONHASHSEED", "0")
    os.environ.setdefault("JAX_ENABLE_X64", "1")
    os.environ.setdefault("JAX_PLATFORMS", "cpu")
    os.environ.setdefault("OMP_NUM_THREADS", "1")
    os.environ.setdefault("OPENBLAS_NUM_THREADS", "1")
    os.environ.setdefault("MKL_NUM_THREADS", "1")
    if REPO != "/repo" and REPO not in sys.path:
        sys.path.insert(0, REPO)
    if ROOT not in sys.path:
        sys.path.insert(0, ROOT)


def limit_memory():
    """Cap the data segment of this process (PV_MEM_GB, default 10 GB) so that one oversized generated case raises MemoryError (counted as
    a rejected case) instead of driving the machine into the OOM killer, which would take a worker down and lose the whole run."""
    try:
        import resource

        gb = float(os.environ.get("PV_MEM_GB", "10"))
        if gb > 0:
            lim = int(gb * 2**30)
            soft, hard = resource.getrlimit(resource.RLIMIT_DATA)
            if hard != resource.RLIM_INFINITY:
                lim = min(lim, hard)
            resource.setrlimit(resource.RLIMIT_DATA, (lim, hard))
    except Exception:  # noqa: BLE001  (platform without RLIMIT_DATA: run uncapped)
        pass


def load(pid):
    setup_env()
    pdir = os.path.join(ROOT, "pv", "props")
    for fn in sorted(os.listdir(pdir)):
        if fn.lower().startswith(pid.lower() + "_") and fn.endswith(".py"):
            return importlib.import_module("pv.props." + fn[:-3])
    raise SystemExit(f"no module for {pid}")


def run_shard(args):
    pid, tier, seed, shard, n_examples, do_enum = args
    limit_memory()
    mod = load(pid)
    import hypothesis
    from hypothesis import HealthCheck, Phase, given, settings

    st = Stats()
    t0 = time.time()
    budget_s = float(os.environ.get("PV_BUDGET_S", mod.BUDGET[tier].get("budget_s", 3000 if tier == "thorough" else 600)))

    if do_enum and hasattr(mod, "enumerate_cases"):
        for spec in mod.enumerate_cases(tier):
            status, payload = evaluate(mod, spec)
            st.add(spec, status, payload)

    if n_examples > 0:
        strat = mod.strategy(tier)
        derived = int(hashlib.sha1(f"{pid}:{seed}:{shard}".encode()).hexdigest()[:12], 16)

        class _Stop(Exception):
            pass

        @hypothesis.seed(derived)
        @settings(
            max_examples=n_examples,
            phases=[Phase.generate],
            database=None,
            deadline=None,
            derandomize=False,
            report_multiple_bugs=False,
            suppress_health_check=[HealthCheck.too_slow, HealthCheck.data_too_large, HealthCheck.large_base_example],
        )
        @given(strat)
        def survey(spec):
            if time.time() - t0 > budget_s:
                raise _Stop()
            h = spec_hash(spec)
            if h in st.seen:
                return
            st.seen.add(h)
            status, payload = evaluate(mod, spec)
            st.add(spec, status, payload)

        try:
            survey()
        except _Stop:
            st.labels["_budget_hit"] += 1
        except hypothesis.errors.FailedHealthCheck as e:
            st.errors.append({"spec": None, "trace": "generator health check failed: " + str(e)[:1500]})
    return st.dump()


def shrink(mod, spec, key, time_box):
    """Greedy structural shrinking: delete list elements anywhere in the spec while the same
    (clause, sig) violation persists."""
    t0 = time.time()

    def still(s):
        status, payload = evaluate(mod, s)
        return status == "violation" and (payload.clause, payload.sig) == key

    def paths(node, pre=()):
        if isinstance(node, dict):
            for k, v in node.items():
                yield from paths(v, pre + (k,))
        elif isinstance(node, list):
            if len(node) >= 1 and pre and pre[-1] in getattr(mod, "SHRINK_LISTS", ("ops", "meas", "steps", "items", "terms")):
                yield pre
            for i, v in enumerate(node):
                yield from paths(v, pre + (i,))

    def get(node, p):
        for k in p:
            node = node[k]
        return node

    def replaced(node, p, val):
        if not p:
            return val
        if isinstance(node, dict):
            out = dict(node)
            out[p[0]] = replaced(node[p[0]], p[1:], val)
            return out
        out = list(node)
        out[p[0]] = replaced(node[p[0]], p[1:], val)
        return out

    changed = True
    while changed and time.time() - t0 < time_box:
        changed = False
        for p in list(paths(spec)):
            try:
                lst = get(spec, p)
            except (KeyError, IndexError, TypeError):
                continue
            i = len(lst) - 1
            while i >= 0 and time.time() - t0 < time_box:
                cand = replaced(spec, p, lst[:i] + lst[i + 1:])
                try:
                    ok = still(cand)
                except Exception:  # noqa: BLE001
                    ok = False
                if ok:
                    spec = cand
                    lst = get(spec, p)
                    changed = True
                i -= 1
    return spec


def load_known():
    p = os.path.join(ROOT, "known_findings.json")
    if not os.path.exists(p):
        return []
    return json.load(open(p)).get("findings", [])


def match_known(pid, clause, sig, features, known):
    for k in known:
        if "fixed" in k:
            continue
        if k.get("property") != pid:
            continue
        if k.get("clause") not in (None, clause):
            continue
        m = k.get("match", {})
        feats = dict(features or {})
        feats.setdefault("sig", sig)
        if all(_feat_match(feats.get(kk), vv) for kk, vv in m.items()):
            return k
    return None


def _feat_match(have, want):
    if isinstance(want, list):
        return have in want
    if isinstance(want, str) and want.startswith("re:"):
        import re

        return isinstance(have, str) and re.fullmatch(want[3:], have) is not None
    return have == want


def write_evidence(mod, tier, seed, st, wall, violations, known_hits, extra=None):
    rule = mod.RULE
    cov = {
        "evaluations": st.evaluations,
        "distinct_nontrivial": len(st.nontrivial),
        "rule": rule,
        "samples": st.samples[:5] if st.samples else [],
        "generated": st.generated,
        "rejected": dict(st.rejected),
        "class_histogram": dict(sorted(st.labels.items(), key=lambda kv: -kv[1])[:80]),
        "known_finding_hits": known_hits,
    }
    if getattr(mod, "EXHAUSTIVE", False):
        cov["exhaustive"] = True
    if extra:
        cov.update(extra)
    ev = {
        "property_id": mod.ID,
        "tier": tier,
        "seed": int(seed),
        "level": "exploration",
        "coverage": cov,
        "assumptions": list(getattr(mod, "ASSUMPTIONS", [])),
        "wall_s": round(wall, 2),
        "violations": violations,
    }
    os.makedirs(os.path.join(OUT, "evidence"), exist_ok=True)
    with open(os.path.join(OUT, "evidence", f"{mod.ID}.json"), "w") as f:
        json.dump(ev, f, indent=1, default=_jsonable)


def run_check(pid, tier, seed):
    t0 = time.time()
    mod = load(pid)
    if hasattr(mod, "selftest"):
        try:
            mod.selftest()
        except Exception:  # noqa: BLE001
            traceback.print_exc()
            print(f"HARNESS-ERROR property={pid} reference self-test failed")
            return 2
    b = mod.BUDGET[tier]
    shards = int(os.environ.get("PV_SHARDS", b.get("shards", 1)))
    n = int(os.environ.get("PV_EXAMPLES", b["examples"]))
    per = max(1, n // shards) if n > 0 else 0
    known = load_known()

    # regression tier: committed replays first
    rdir = os.path.join(ROOT, "replays", pid)
    replay_stats = Stats()
    if os.path.isdir(rdir):
        for fn in sorted(os.listdir(rdir)):
            if fn.endswith(".json"):
                spec = json.load(open(os.path.join(rdir, fn)))["spec"]
                status, payload = evaluate(mod, spec)
                replay_stats.add(spec, status, payload)

    jobs = [(pid, tier, seed, s, per, s == 0) for s in range(shards)]
    if shards == 1:
        dumps = [run_shard(jobs[0])]
    else:
        import multiprocessing as mp
        from concurrent.futures import ProcessPoolExecutor

        # an executor (unlike mp.Pool) fails with BrokenProcessPool when a worker dies, instead of waiting forever
        ctx = mp.get_context("spawn")
        with ProcessPoolExecutor(min(shards, os.cpu_count() or 1), mp_context=ctx) as pool:
            dumps = list(pool.map(run_shard, jobs))
    st = merge(dumps + [replay_stats.dump()])

    n_err = getattr(st, "_n_errors", 0)
    rc = 0
    known_hits = []
    new = []
    for (clause, sig), bk in sorted(st.buckets.items()):
        k = match_known(pid, clause, sig, bk["features"], known)
        if k is not None:
            known_hits.append({"what": k["what"], "count": bk["count"]})
            print(f"KNOWN-FINDING: property={pid} {k['what']} (hit {bk['count']}x this run)")
        else:
            new.append(((clause, sig), bk))
    nviol = 0
    if new:
        wdir = os.path.join(OUT, "replays", pid)
        os.makedirs(wdir, exist_ok=True)
        tb = 15 if tier == "quick" else 120
        for key, bk in new:
            spec = bk["spec"]
            try:
                spec = shrink(mod, spec, key, tb / max(1, len(new)))
            except Exception:  # noqa: BLE001
                pass
            status, payload = evaluate(mod, spec)
            detail = payload.detail if status == "violation" else bk["detail"]
            path = os.path.join(wdir, "viol_" + hashlib.sha1(f"{key}".encode()).hexdigest()[:10] + ".json")
            with open(path, "w") as f:
                json.dump({"property": pid, "clause": key[0], "sig": key[1], "detail": detail,
                           "features": bk["features"], "count": bk["count"], "spec": spec}, f, indent=1, default=_jsonable)
            rel = os.path.relpath(path, ROOT)
            print(f"VIOLATION property={pid} replay={rel}")
            print(f"  clause={key[0]} sig={key[1]} count={bk['count']} detail={detail[:400]}")
            nviol += 1
        rc = 1
    min_nt = b.get("min_nontrivial", 2)
    wall = time.time() - t0
    write_evidence(mod, tier, seed, st, wall, nviol, known_hits,
                   extra={"harness_errors": n_err, "shards": shards})
    if n_err:
        for e in st.errors[:2]:
            if e:
                print("HARNESS-ERROR sample:", json.dumps(e.get("spec"), default=_jsonable)[:500])
                print(e.get("trace"))
        print(f"HARNESS-ERROR property={pid} {n_err} cases raised inside the harness")
        if rc == 0:
            rc = 2
    if rc == 0 and len(st.nontrivial) < min_nt:
        print(f"HARNESS-ERROR property={pid} only {len(st.nontrivial)} non-trivial cases (< {min_nt})")
        rc = 2
    print(f"[{pid}] tier={tier} seed={seed} generated={st.generated} evaluated={st.evaluations} "
          f"nontrivial={len(st.nontrivial)} rejected={sum(st.rejected.values())} violations={nviol} "
          f"known={len(known_hits)} wall={wall:.1f}s rc={rc}")
    return rc


def run_replay(pid, path):
    mod = load(pid)
    known = load_known()
    data = json.load(open(path))
    spec = data["spec"] if "spec" in data else data
    status, payload = evaluate(mod, spec)
    if status == "violation":
        k = match_known(pid, payload.clause, payload.sig, payload.features, known)
        if k:
            print(f"KNOWN-FINDING: property={pid} {k['what']}")
            return 0
        print(f"VIOLATION property={pid} replay={path}")
        print(f"  clause={payload.clause} sig={payload.sig} detail={payload.detail[:800]}")
        return 1
    if status == "error":
        print(payload)
        return 2
    print(f"[{pid}] replay {path}: {status}")
    return 0
