"""Additional zoo builders for the decomposition-registry properties (C10/C11/C13): arithmetic subroutines,
state preparations, layer templates and composite operators.  Registers into pv.zoo.ZOO with tag "decomp"
(never "unitary", so circuit generators of other properties are not affected).

Spec conventions on top of pv/specs.py:
  {"op": NAME, "ctor": "kw", "kw": {...}, "w": [all wires]}     -> cls(**kw)      (wire-valued kwargs converted)
  {"op": "ChangeOpBasis", "compute": s, "target": s, "uncompute": s}
  {"op": "Select", "ops": [s...], "cw": [...], "ww": [...], "partial": bool}
  {"op": "ControlledSequence", "base": s, "cw": [...]}
CUSTOM[name](spec, build) builds these; pv.ref.rules.build_target consults CUSTOM first.
"""
from math import gcd

from hypothesis import strategies as st

from pv import gen
from pv.zoo import reg

CUSTOM = {}


def _kwctor(spec, build):
    import pennylane as qp

    from pv.specs import param, wire

    cls = getattr(qp, spec["op"], None) or getattr(qp.templates, spec["op"])
    kw = {}
    for k, v in spec["kw"].items():
        if k.endswith("wires") or k in ("work_wire", "control", "target_wire"):
            kw[k] = None if v is None else [wire(w) for w in v]
        elif isinstance(v, dict):
            kw[k] = param(v)
        else:
            kw[k] = v
    return cls(**kw)


def _split(wires, sizes):
    out, i = [], 0
    for s in sizes:
        out.append(list(wires[i:i + s]))
        i += s
    return out


def _perm(wires):
    return st.permutations(wires).map(list)


# --------------------------------------------------------------------------------------------- arithmetic

@reg("Adder", 5, "decomp", "arith")
def _adder(wires):
    @st.composite
    def mk(draw):
        w = draw(_perm(wires))
        n = draw(st.integers(1, 3))
        full = draw(st.booleans())
        mod = 2**n if full or n == 1 else draw(st.integers(2, 2**n - 1))
        k = draw(st.integers(0, mod - 1))
        nww = 2 if mod != 2**n else draw(st.sampled_from([0, 2]))
        x, ww = _split(w, [n, nww])
        return {"op": "Adder", "ctor": "kw", "w": x + ww,
                "kw": {"k": k, "x_wires": x, "mod": (None if full and draw(st.booleans()) else mod), "work_wires": ww}}
    return mk()


@reg("PhaseAdder", 5, "decomp", "arith")
def _phase_adder(wires):
    @st.composite
    def mk(draw):
        w = draw(_perm(wires))
        n = draw(st.integers(1, 4))
        full = draw(st.booleans()) or n == 1
        # mod != 2^n: "one extra wire in x_wires is required", i.e. mod (and x) must fit into n-1 wires
        mod = 2**n if full else draw(st.integers(2, 2 ** (n - 1)))
        k = draw(st.integers(0, mod - 1))
        nww = 1 if not full else draw(st.sampled_from([0, 1]))
        x, ww = _split(w, [n, nww])
        return {"op": "PhaseAdder", "ctor": "kw", "w": x + ww, "kw": {"k": k, "x_wires": x, "mod": mod, "work_wire": ww}}
    return mk()


@reg("OutAdder", 8, "decomp", "arith")
def _out_adder(wires):
    @st.composite
    def mk(draw):
        w = draw(_perm(wires))
        no = draw(st.integers(1, 2))
        full = draw(st.booleans()) or no == 1
        mod = 2**no if full else draw(st.integers(2, 2**no - 1))
        nx, ny = draw(st.integers(1, 2)), draw(st.integers(1, 2))
        nww = 2 if not full else draw(st.sampled_from([0, 2]))
        x, y, o, ww = _split(w, [nx, ny, no, nww])
        return {"op": "OutAdder", "ctor": "kw", "w": x + y + o + ww,
                "kw": {"x_wires": x, "y_wires": y, "output_wires": o, "mod": mod, "work_wires": ww}}
    return mk()


@reg("Multiplier", 8, "decomp", "arith")
def _multiplier(wires):
    @st.composite
    def mk(draw):
        w = draw(_perm(wires))
        n = draw(st.integers(1, 3))
        full = draw(st.booleans()) or n == 1
        mod = 2**n if full else draw(st.integers(2, 2**n - 1))
        k = draw(st.sampled_from([k for k in range(1, max(mod, 2)) if gcd(k, mod) == 1]))
        nww = n if full else n + 2
        x, ww = _split(w, [n, nww])
        return {"op": "Multiplier", "ctor": "kw", "w": x + ww, "kw": {"k": k, "x_wires": x, "mod": mod, "work_wires": ww}}
    return mk()


@reg("OutMultiplier", 9, "decomp", "arith")
def _out_multiplier(wires):
    @st.composite
    def mk(draw):
        w = draw(_perm(wires))
        nx, ny, no = draw(st.integers(1, 2)), draw(st.integers(1, 2)), draw(st.integers(1, 3))
        full = draw(st.sampled_from([True, True, False])) or no == 1
        mod = 2**no if full else draw(st.integers(2, 2**no - 1))
        avail = len(w) - nx - ny - no
        nww = draw(st.integers(0 if full else 2, max(avail, 2 if not full else 0)))
        nww = min(nww, avail)
        if not full and nww < 2:
            full, mod = True, 2**no
        x, y, o, ww = _split(w, [nx, ny, no, nww])
        kw = {"x_wires": x, "y_wires": y, "output_wires": o, "mod": mod, "work_wires": ww}
        if draw(st.booleans()):
            kw["output_wires_zeroed"] = draw(st.booleans())
        return {"op": "OutMultiplier", "ctor": "kw", "w": x + y + o + ww, "kw": kw}
    return mk()


@reg("ModExp", 8, "decomp", "arith")
def _mod_exp(wires):
    @st.composite
    def mk(draw):
        w = draw(_perm(wires))
        nx, no = draw(st.integers(1, 2)), draw(st.integers(1, 2))
        full = draw(st.booleans()) or no == 1
        mod = 2**no if full else draw(st.integers(2, 2**no - 1))
        base = draw(st.sampled_from([k for k in range(1, max(mod, 2) + 2) if gcd(k, mod) == 1]))
        nww = no if full else no + 2
        x, o, ww = _split(w, [nx, no, nww])
        return {"op": "ModExp", "ctor": "kw", "w": x + o + ww,
                "kw": {"x_wires": x, "output_wires": o, "base": base, "mod": mod, "work_wires": ww}}
    return mk()


@reg("OutSquare", 8, "decomp", "arith")
def _out_square(wires):
    @st.composite
    def mk(draw):
        w = draw(_perm(wires))
        n, m = draw(st.integers(1, 2)), draw(st.integers(1, 3))
        zeroed = draw(st.booleans())
        need = min(m, n + 1) if zeroed else m
        nww = min(need + draw(st.integers(0, 1)), len(w) - n - m)
        x, o, ww = _split(w, [n, m, nww])
        return {"op": "OutSquare", "ctor": "kw", "w": x + o + ww,
                "kw": {"x_wires": x, "output_wires": o, "work_wires": ww, "output_wires_zeroed": zeroed}}
    return mk()


@reg("SemiAdder", 7, "decomp", "arith")
def _semi_adder(wires):
    @st.composite
    def mk(draw):
        w = draw(_perm(wires))
        nx, ny = draw(st.integers(1, 3)), draw(st.integers(1, 3))
        nww = draw(st.integers(0, max(ny - 1, 0)))
        x, y, ww = _split(w, [nx, ny, nww])
        return {"op": "SemiAdder", "ctor": "kw", "w": x + y + ww, "kw": {"x_wires": x, "y_wires": y, "work_wires": ww}}
    return mk()


@reg("Incrementer", 6, "decomp", "arith")
def _incrementer(wires):
    @st.composite
    def mk(draw):
        w = draw(_perm(wires))
        n = draw(st.integers(1, 4))
        nww = draw(st.integers(0, min(2, len(w) - n)))
        x, ww = _split(w, [n, nww])
        return {"op": "Incrementer", "ctor": "kw", "w": x, "ww": ww, "kw": {"wires": x, "work_wires": ww}}
    return mk()


@reg("IntegerComparator", 5, "decomp", "arith")
def _integer_comparator(wires):
    @st.composite
    def mk(draw):
        w = draw(_perm(wires))
        n = draw(st.integers(1, 3))
        L = draw(st.integers(0, 2**n + 1))
        nww = draw(st.integers(0, min(2, len(w) - n - 1)))
        reg_, ww = _split(w, [n + 1, nww])
        return {"op": "IntegerComparator", "ctor": "kw", "w": reg_, "ww": ww,
                "kw": {"value": L, "wires": reg_, "geq": draw(st.booleans()), "work_wires": ww}}
    return mk()


@reg("QubitSum", 3, "decomp")
def _qubit_sum(wires):
    return gen.subset(wires, 3).map(lambda w: {"op": "QubitSum", "p": [], "w": w})


@reg("QubitCarry", 4, "decomp")
def _qubit_carry(wires):
    return gen.subset(wires, 4).map(lambda w: {"op": "QubitCarry", "p": [], "w": w})


@reg("QROM", 7, "decomp", "arith")
def _qrom(wires):
    @st.composite
    def mk(draw):
        w = draw(_perm(wires))
        nc, nt = draw(st.integers(1, 2)), draw(st.integers(1, 2))
        nb = draw(st.integers(2 ** (nc - 1) + (1 if nc > 1 else 0), 2**nc)) if nc > 0 else 1
        bs = draw(st.lists(st.text("01", min_size=nt, max_size=nt), min_size=nb, max_size=nb))
        nww = draw(st.sampled_from([0, nt, 2 * nt]))
        nww = min(nww, len(w) - nc - nt)
        c, t, ww = _split(w, [nc, nt, nww])
        return {"op": "QROM", "ctor": "kw", "w": c + t + ww,
                "kw": {"bitstrings": bs, "control_wires": c, "target_wires": t, "work_wires": ww or None, "clean": True}}
    return mk()


# --------------------------------------------------------------------------------------------- state preparation

@reg("BasisState", 1, "decomp", "stateprep")
def _basis_state(wires):
    return st.integers(1, min(4, len(wires))).flatmap(
        lambda k: st.tuples(st.lists(st.integers(0, 1), min_size=k, max_size=k), gen.subset(wires, k))).map(
        lambda t: {"op": "BasisState", "p": [t[0]], "w": t[1]})


@reg("StatePrep", 1, "decomp", "stateprep")
def _state_prep(wires):
    return st.integers(1, min(3, len(wires))).flatmap(lambda k: st.tuples(gen.float_list(6), gen.subset(wires, k))).map(
        lambda t: {"op": "StatePrep", "p": [{"vec": t[0], "n": len(t[1])}], "w": t[1]})


@reg("MottonenStatePreparation", 1, "decomp", "stateprep")
def _mottonen(wires):
    return st.integers(1, min(3, len(wires))).flatmap(lambda k: st.tuples(gen.float_list(6), gen.subset(wires, k), st.booleans())).map(
        lambda t: {"op": "MottonenStatePreparation", "ctor": "kw", "w": t[1], "p": [{"vec": t[0], "n": len(t[1]), "real": t[2]}],
                   "kw": {"state_vector": {"vec": t[0], "n": len(t[1]), "real": t[2]}, "wires": t[1]}})


@reg("CosineWindow", 1, "decomp", "stateprep")
def _cosine_window(wires):
    return st.integers(1, min(4, len(wires))).flatmap(lambda k: gen.subset(wires, k)).map(lambda w: {"op": "CosineWindow", "p": [], "w": w})


# --------------------------------------------------------------------------------------------- layers / embeddings

def _angles(n):
    return st.lists(gen.angles(), min_size=n, max_size=n)


@reg("AngleEmbedding", 1, "decomp", "layer")
def _angle_embedding(wires):
    return st.integers(1, min(4, len(wires))).flatmap(
        lambda k: st.tuples(st.integers(1, k).flatmap(_angles), gen.subset(wires, k), st.sampled_from("XYZ"))).map(
        lambda t: {"op": "AngleEmbedding", "p": [t[0]], "w": t[1], "kw": {"rotation": t[2]}})


@reg("BasicEntanglerLayers", 1, "decomp", "layer")
def _basic_entangler(wires):
    def mk(k):
        return st.tuples(st.lists(_angles(k), min_size=1, max_size=2), gen.subset(wires, k)).map(
            lambda t: {"op": "BasicEntanglerLayers", "p": [t[0]], "w": t[1]})
    return st.integers(1, min(4, len(wires))).flatmap(mk)


@reg("StronglyEntanglingLayers", 1, "decomp", "layer")
def _strongly_entangling(wires):
    def mk(k):
        def with_layers(L):
            rng = st.lists(st.integers(1, max(k - 1, 1)), min_size=L, max_size=L) if k > 1 else st.none()
            return st.tuples(st.lists(st.lists(_angles(3), min_size=k, max_size=k), min_size=L, max_size=L), gen.subset(wires, k), rng).map(
                lambda t: {"op": "StronglyEntanglingLayers", "p": [t[0]], "w": t[1], "kw": ({"ranges": t[2]} if t[2] else {})})
        return st.integers(1, 2).flatmap(with_layers)
    return st.integers(1, min(4, len(wires))).flatmap(mk)


def _legacy_only(name, nw_range, pshape):
    """Templates whose reference is PennyLane's own (legacy-decomposition) matrix: builder only."""
    def b(wires):
        def mk(k):
            shapes = pshape(k)

            def arr(shape):
                if not shape:
                    return gen.angles()
                return st.lists(arr(shape[1:]), min_size=shape[0], max_size=shape[0])
            return st.tuples(st.tuples(*[arr(s) for s in shapes]), gen.subset(wires, k)).map(
                lambda t: {"op": name, "p": list(t[0]), "w": t[1]})
        return st.integers(nw_range[0], min(nw_range[1], len(wires))).flatmap(mk)
    return b


reg("SimplifiedTwoDesign", 2, "decomp", "layer")(_legacy_only("SimplifiedTwoDesign", (2, 4), lambda k: [(k,), (1, k - 1, 2)]))
reg("IQPEmbedding", 1, "decomp", "layer")(_legacy_only("IQPEmbedding", (1, 3), lambda k: [(k,)]))
reg("ArbitraryUnitary", 1, "decomp", "layer")(_legacy_only("ArbitraryUnitary", (1, 2), lambda k: [(4**k - 1,)]))
reg("ArbitraryStatePreparation", 1, "decomp", "layer")(_legacy_only("ArbitraryStatePreparation", (1, 3), lambda k: [(2 ** (k + 1) - 2,)]))
reg("FermionicSingleExcitation", 2, "decomp", "layer")(_legacy_only("FermionicSingleExcitation", (2, 4), lambda k: [()]))
reg("ParticleConservingU2", 2, "decomp", "layer")(_legacy_only("ParticleConservingU2", (2, 3), lambda k: [(1, 2 * k - 1)]))
reg("ParticleConservingU1", 2, "decomp", "layer")(_legacy_only("ParticleConservingU1", (2, 3), lambda k: [(1, k - 1, 2)]))


@reg("QAOAEmbedding", 1, "decomp", "layer")
def _qaoa_embedding(wires):
    def mk(k):
        wshape = 1 if k == 1 else (3 if k == 2 else 2 * k)
        return st.tuples(st.integers(1, k).flatmap(_angles), st.lists(_angles(wshape), min_size=1, max_size=2), gen.subset(wires, k),
                         st.sampled_from("XYZ")).map(
            lambda t: {"op": "QAOAEmbedding", "p": [t[0], t[1]], "w": t[2], "kw": {"local_field": t[3]}})
    return st.integers(1, min(3, len(wires))).flatmap(mk)


@reg("FermionicDoubleExcitation", 4, "decomp", "layer")
def _fermionic_double(wires):
    return st.tuples(gen.angles(), gen.subset(wires, 4)).map(
        lambda t: {"op": "FermionicDoubleExcitation", "ctor": "kw", "w": t[1],
                   "kw": {"weight": t[0], "wires1": t[1][:2], "wires2": t[1][2:]}})


# --------------------------------------------------------------------------------------------- composite operators

def _small_unitary(wires):
    from pv import zoo

    return zoo.leaf(wires, "unitary", "named")


@reg("Prod", 2, "decomp", "composite")
def _prod(wires):
    return st.lists(_small_unitary(wires[:3]), min_size=2, max_size=3).map(lambda ops: {"op": "prod", "operands": ops})


@reg("ChangeOpBasis", 2, "decomp", "composite")
def _change_op_basis(wires):
    w = wires[:3]
    # compute-uncompute pattern: the uncompute operator is the inverse of the compute operator (given explicitly or defaulted)
    return st.tuples(_small_unitary(w), _small_unitary(w), st.booleans()).map(
        lambda t: {"op": "ChangeOpBasis", "w": list(w), "compute": t[0], "target": t[1], "uncompute": {"op": "adjoint", "base": t[0]},
                   "explicit": t[2]})


def _build_cob(spec, build):
    import pennylane as qp

    c, t = build(spec["compute"]), build(spec["target"])
    if spec.get("explicit"):
        return qp.ops.ChangeOpBasis(c, t, build(spec["uncompute"]))
    return qp.ops.ChangeOpBasis(c, t)


@reg("Select", 4, "decomp", "composite")
def _select(wires):
    @st.composite
    def mk(draw):
        w = draw(_perm(wires))
        nc = draw(st.integers(1, 2))
        K = draw(st.integers(2 ** (nc - 1) + (1 if nc > 1 else 1), 2**nc)) if nc > 1 else draw(st.integers(1, 2))
        tw = w[nc:nc + 2]
        ops = [draw(_small_unitary(tw)) for _ in range(K)]
        rest = w[nc + 2:]
        nww = draw(st.integers(0, min(len(rest), 2)))
        return {"op": "Select", "ops": ops, "cw": w[:nc], "ww": rest[:nww], "partial": draw(st.booleans())}
    return mk()


def _build_select(spec, build):
    import pennylane as qp

    from pv.specs import wire

    return qp.Select([build(s) for s in spec["ops"]], control=[wire(w) for w in spec["cw"]],
                     work_wires=[wire(w) for w in spec["ww"]] or None, partial=spec.get("partial", False))


@reg("ControlledSequence", 2, "decomp", "composite")
def _controlled_sequence(wires):
    @st.composite
    def mk(draw):
        w = draw(_perm(wires))
        nc = draw(st.integers(1, min(3, len(w) - 1)))
        base = draw(_small_unitary(w[nc:nc + 2]))
        return {"op": "ControlledSequence", "base": base, "cw": w[:nc]}
    return mk()


def _build_cseq(spec, build):
    import pennylane as qp

    from pv.specs import wire

    return qp.ControlledSequence(build(spec["base"]), control=[wire(w) for w in spec["cw"]])


CUSTOM.update({"ChangeOpBasis": _build_cob, "Select": _build_select, "ControlledSequence": _build_cseq})
