"""Adapters for compilation passes: per pass a circuit generator inside the documented domain,
option strategy, and the equivalence mode the pass documents. Shared by C17 and C18."""
import math

from hypothesis import strategies as st

from pv import gen
from pv.specs import spec_wires as specs_wires

PI = math.pi
CLIFF_T = {"Hadamard": (0, 1), "S": (0, 1), "T": (0, 1), "PauliX": (0, 1), "PauliY": (0, 1), "PauliZ": (0, 1),
           "CNOT": (0, 2), "CZ": (0, 2), "SWAP": (0, 2)}
PHASEPOLY_H = {"Hadamard": (0, 1), "S": (0, 1), "T": (0, 1), "PauliZ": (0, 1), "CNOT": (0, 2), "CZ": (0, 2), "PauliX": (0, 1)}
ROTS = {k: v for k, v in gen.ALL_GATES.items()}


def _wires(n_min, n_max):
    return st.integers(n_min, n_max).flatmap(gen.wire_labels)


def _general(draw, max_wires=4, max_depth=10, pool=None, extras=True, min_wires=1):
    wires = draw(_wires(min_wires, max_wires))
    ops = draw(gen.op_list(wires, pool, max_depth, extras=extras))
    return wires, ops


@st.composite
def case_for(draw, name):
    """Returns {"pass": name, "opts": {...}, "ops": [...], "wires": [...], "meas": [...]}"""
    opts = {}
    if name == "cancel_inverses":
        wires, ops = _general(draw)
        opts = {"recursive": draw(st.booleans())}
    elif name == "merge_rotations":
        if draw(st.booleans()):
            # only composable rotations, high derivation rate: many adjacent same-class pairs whose angles add up to
            # 0 / pi / 2*pi / 4*pi (periodicity slips are invisible elsewhere)
            wires = draw(_wires(1, 4))
            rot = {k: v for k, v in gen.ALL_GATES.items() if v[0] >= 1 and k not in ("U2", "U3")}
            ops = draw(gen.op_list(wires, rot, 8, p_derive=0.6))
        else:
            wires, ops = _general(draw)
        # adjacent same-class pairs whose angles add up to 0, +-2*pi or 4*pi exactly
        for _ in range(draw(st.integers(0, 2))):
            g = draw(gen.gate(wires, {k: v for k, v in gen.ALL_GATES.items() if v[0] == 1}, gen.generic_angles()))
            t = draw(st.sampled_from([2 * PI, -2 * PI, 4 * PI, 0.0, 2 * PI]))
            pos = draw(st.integers(0, len(ops)))
            ops[pos:pos] = [g, {**g, "p": [round(t - g["p"][0], 9)]}]
        inc = draw(st.sampled_from([None, None, ["RX", "CRX"], ["Rot", "RZ", "PhaseShift"], ["RY"]]))
        opts = {"include_gates": inc}
    elif name == "commute_controlled":
        wires = draw(_wires(2, 3))
        pool = {k: gen.ALL_GATES[k] for k in ("CNOT", "CZ", "CRX", "CRY", "CRZ", "Toffoli", "CY", "PauliX", "PauliY", "PauliZ", "S", "T",
                                              "RZ", "RX", "RY", "PhaseShift", "Hadamard", "SX")}
        ops = draw(gen.op_list(wires, pool, 10, p_derive=0.1)) if draw(st.booleans()) else _general(draw, min_wires=2)[1]
        for o in ops:
            for w in specs_wires(o):
                if w not in wires:
                    wires = wires + [w]
        opts = {"direction": draw(st.sampled_from(["left", "right"]))}
    elif name == "single_qubit_fusion":
        wires, ops = _general(draw)
        opts = {"exclude_gates": draw(st.sampled_from([None, None, ["RX"], ["Hadamard", "RZ"]]))}
    elif name == "undo_swaps":
        wires = draw(_wires(2, 4))
        pool = {**gen.GATES1, "CNOT": (0, 2), "SWAP": (0, 2), "CRX": (1, 2), "Toffoli": (0, 3)}
        ops = draw(gen.op_list(wires, pool, 10, p_derive=0.1))
        k = draw(st.integers(0, 3))
        for _ in range(k):
            pos = draw(st.integers(0, len(ops)))
            ops.insert(pos, {"op": "SWAP", "p": [], "w": draw(gen.subset(wires, 2))})
    elif name == "combine_global_phases":
        wires, ops = _general(draw)
        k = draw(st.integers(0, 3))
        for _ in range(k):
            pos = draw(st.integers(0, len(ops)))
            gp = {"op": "GlobalPhase", "p": [draw(gen.angles())], "w": draw(st.sampled_from([[], wires[:1]]))}
            ops.insert(pos, gp)
    elif name == "remove_barrier":
        wires, ops = _general(draw)
        k = draw(st.integers(0, 3))
        for _ in range(k):
            pos = draw(st.integers(0, len(ops)))
            nb = draw(st.integers(1, len(wires)))
            ops.insert(pos, {"op": "Barrier", "p": [], "w": draw(gen.subset(wires, nb))})
    elif name == "unitary_to_rot":
        wires = draw(_wires(2, 4))
        ops = draw(gen.op_list(wires, None, 6, extras=False))
        k = draw(st.integers(1, 3))
        for _ in range(k):
            pos = draw(st.integers(0, len(ops)))
            nq = draw(st.integers(1, 2))
            ops.insert(pos, {"op": "QubitUnitary", "p": [{"U": draw(gen.float_list(7)), "n": nq}], "w": draw(gen.subset(wires, nq))})
    elif name == "compile":
        wires, ops = _general(draw, extras=False)
        opts = {"basis_set": draw(st.sampled_from([None, None, ["CNOT", "RX", "RY", "RZ", "GlobalPhase"], ["CNOT", "Rot", "Hadamard", "GlobalPhase", "PhaseShift"], ["CNOT", "RX", "RZ"]])),
                "num_passes": draw(st.integers(1, 3)),
                "pipeline": draw(st.sampled_from([None, None, ["cancel_inverses", "merge_rotations"],
                                                  ["commute_controlled", "single_qubit_fusion", "cancel_inverses"],
                                                  ["merge_rotations", "cancel_inverses", "commute_controlled"]]))}
    elif name == "merge_amplitude_embedding":
        wires = draw(_wires(2, 4))
        k = draw(st.integers(1, min(3, len(wires))))
        perm = draw(st.permutations(wires))
        groups, i = [], 0
        for g in range(k):
            size = draw(st.integers(1, max(1, (len(wires) - i) - (k - g - 1))))
            groups.append(list(perm[i:i + size]))
            i += size
            if i >= len(wires):
                break
        groups = [g for g in groups if g]
        ops = [{"op": "AmplitudeEmbedding", "p": [{"vec": draw(gen.float_list(5)), "n": len(g)}], "w": g} for g in groups]
        ops += draw(gen.op_list(wires, None, 5, extras=False))
    elif name in ("match_relative_phase_toffoli", "match_controlled_iX_gate"):
        wires = draw(_wires(4, 5))
        pre = draw(gen.op_list(wires, {**CLIFF_T, "Toffoli": (0, 3), "CCZ": (0, 3)}, 4, p_derive=0.1))
        post = draw(gen.op_list(wires, {**CLIFF_T, "Toffoli": (0, 3), "CCZ": (0, 3)}, 4, p_derive=0.1))
        w = draw(gen.subset(wires, 4))
        if name == "match_relative_phase_toffoli":
            pat = [{"op": "CCZ", "p": [], "w": [w[0], w[1], w[3]]},
                   {"op": "ctrl", "base": {"op": "S", "p": [], "w": [w[1]]}, "cw": [w[0]]},
                   {"op": "ctrl", "base": {"op": "S", "p": [], "w": [w[2]]}, "cw": [w[0], w[1]]},
                   {"op": "MultiControlledX", "p": [], "w": w}]
        else:
            nc = draw(st.integers(1, 2))
            opts = {"num_controls": nc}
            cws = w[:nc]
            tgt = w[3]
            pat = [{"op": "ctrl", "base": {"op": "S", "p": [], "w": [w[2]]}, "cw": cws},
                   {"op": "MultiControlledX", "p": [], "w": cws + [w[2], tgt]} if nc == 2 else {"op": "Toffoli", "p": [], "w": cws + [w[2], tgt]}]
        keep = draw(st.integers(0, len(pat)))
        ops = pre + (pat if draw(st.booleans()) else pat[:keep]) + post
    elif name == "pattern_matching_optimization":
        wires = draw(_wires(2, 4))
        pool = {"Hadamard": (0, 1), "S": (0, 1), "PauliX": (0, 1), "PauliZ": (0, 1), "CNOT": (0, 2), "CZ": (0, 2), "SWAP": (0, 2), "Toffoli": (0, 3)}
        ops = draw(gen.op_list(wires, pool, 12, p_derive=0.25))
        opts = {"patterns": draw(st.lists(st.sampled_from(["hzh_x", "cnot3_swap", "ss_z", "hcnoth", "xx", "cz_sym"]), min_size=1, max_size=2, unique=True))}
    elif name in ("zx.push_hadamards",):
        wires = draw(_wires(1, 4))
        ops = draw(gen.op_list(wires, PHASEPOLY_H, 14, p_derive=0.2))
    elif name in ("zx.todd", "zx.optimize_t_count", "zx.reduce_non_clifford"):
        wires = draw(_wires(1, 4))
        pool = dict(PHASEPOLY_H)
        ops = draw(gen.op_list(wires, pool, 14, p_derive=0.2))
        if name == "zx.reduce_non_clifford":
            k = draw(st.integers(0, 2))
            for _ in range(k):
                ops.insert(draw(st.integers(0, len(ops))), {"op": "RZ", "p": [draw(gen.angles())], "w": draw(gen.subset(wires, 1))})
    elif name in ("rowcol", "parity_matrix_roundtrip"):
        wires = draw(_wires(2, 5))
        ops = draw(gen.op_list(wires, {"CNOT": (0, 2)}, 14, p_derive=0.0))
    else:
        raise ValueError(name)
    meas = draw(st.lists(gen.analytic_measurement(wires, with_state=False), min_size=1, max_size=3))
    return {"pass": name, "opts": opts, "ops": ops, "wires": wires, "meas": meas}


PASS_NAMES = ["cancel_inverses", "merge_rotations", "commute_controlled", "single_qubit_fusion", "undo_swaps",
              "combine_global_phases", "remove_barrier", "unitary_to_rot", "compile", "merge_amplitude_embedding",
              "match_relative_phase_toffoli", "match_controlled_iX_gate", "pattern_matching_optimization",
              "zx.push_hadamards", "zx.todd", "zx.optimize_t_count", "zx.reduce_non_clifford", "rowcol"]

# equivalence mode per pass
MODE = {"undo_swaps": "state0", "merge_amplitude_embedding": "state0", "rowcol": "perm"}


def patterns(names):
    import pennylane as qp

    P = {
        "hzh_x": [qp.Hadamard(0), qp.PauliZ(0), qp.Hadamard(0), qp.PauliX(0)],
        "cnot3_swap": [qp.CNOT([0, 1]), qp.CNOT([1, 0]), qp.CNOT([0, 1]), qp.SWAP([0, 1])],
        "ss_z": [qp.S(0), qp.S(0), qp.PauliZ(0)],
        "hcnoth": [qp.Hadamard(1), qp.CNOT([0, 1]), qp.Hadamard(1), qp.CZ([0, 1])],
        "xx": [qp.PauliX(0), qp.PauliX(0)],
        "cz_sym": [qp.CZ([0, 1]), qp.CZ([1, 0])],
    }
    return [qp.tape.QuantumScript(P[n]) for n in names]


def apply_pass(case, tape):
    """Run the pass on `tape`; returns (tapes, postprocessing)."""
    import pennylane as qp

    name, o = case["pass"], case["opts"]
    T = qp.transforms
    if name == "cancel_inverses":
        return T.cancel_inverses(tape, recursive=o["recursive"])
    if name == "merge_rotations":
        return T.merge_rotations(tape, include_gates=o["include_gates"])
    if name == "commute_controlled":
        return T.commute_controlled(tape, direction=o["direction"])
    if name == "single_qubit_fusion":
        return T.single_qubit_fusion(tape, exclude_gates=o["exclude_gates"])
    if name == "compile":
        kw = {"num_passes": o["num_passes"]}
        if o["basis_set"]:
            kw["basis_set"] = o["basis_set"]
        if o["pipeline"]:
            kw["pipeline"] = [getattr(T, n) for n in o["pipeline"]]
        return T.compile(tape, **kw)
    if name == "match_controlled_iX_gate":
        return T.match_controlled_iX_gate(tape, num_controls=o.get("num_controls", 1))
    if name == "pattern_matching_optimization":
        return T.pattern_matching_optimization(tape, pattern_tapes=patterns(o["patterns"]))
    if name.startswith("zx."):
        import pennylane.transforms.zx as zx

        return getattr(zx, name[3:])(tape)
    return getattr(T, name)(tape)
