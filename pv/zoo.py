"""Operator zoo: one spec strategy per concrete operator class, producing only instances the class
documents as valid, at bounded size. `instance(tags)` draws from all builders carrying the tags.

ZOO[name] = (builder(wires) -> strategy of op spec, min_wires, tags)
tags: "unitary" (has a unitary matrix), "matrix" (has a matrix), "herm" (hermitian observable),
      "named" (in the closed-form gate table), "template", "channel", "stateprep", "param" (has float params)
"""
from hypothesis import strategies as st

from pv import gen

ZOO = {}


def reg(name, min_wires, *tags):
    def deco(f):
        ZOO[name] = (f, min_wires, set(tags))
        return f
    return deco


def _table_builder(name):
    npar, k = gen.ALL_GATES[name]

    def b(wires):
        return st.tuples(st.lists(gen.angles(), min_size=npar, max_size=npar), gen.subset(wires, k)).map(
            lambda t: {"op": name, "p": t[0], "w": t[1]})
    return b


for _n, (_np, _k) in gen.ALL_GATES.items():
    ZOO[_n] = (_table_builder(_n), _k, {"unitary", "matrix", "named"} | ({"param"} if _np else set()) |
               ({"herm"} if _n in ("PauliX", "PauliY", "PauliZ", "Hadamard") else set()))


@reg("Identity", 1, "unitary", "matrix", "herm", "named")
def _identity(wires):
    return st.integers(1, min(3, len(wires))).flatmap(lambda k: gen.subset(wires, k)).map(lambda w: {"op": "Identity", "p": [], "w": w})


@reg("GlobalPhase", 1, "unitary", "matrix", "named", "param")
def _gphase(wires):
    return st.tuples(gen.angles(), st.integers(0, min(2, len(wires))).flatmap(lambda k: gen.subset(wires, k))).map(
        lambda t: {"op": "GlobalPhase", "p": [t[0]], "w": t[1]})


@reg("MultiRZ", 1, "unitary", "matrix", "named", "param")
def _multirz(wires):
    return st.integers(1, min(4, len(wires))).flatmap(lambda k: st.tuples(gen.angles(), gen.subset(wires, k))).map(
        lambda t: {"op": "MultiRZ", "p": [t[0]], "w": t[1]})


@reg("PauliRot", 1, "unitary", "matrix", "named", "param")
def _paulirot(wires):
    return st.integers(1, min(3, len(wires))).flatmap(
        lambda k: st.tuples(gen.angles(), gen.subset(wires, k), st.text("XYZI", min_size=k, max_size=k))).map(
        lambda t: {"op": "PauliRot", "p": [t[0]], "w": t[1], "kw": {"pauli_word": t[2]}})


@reg("PCPhase", 1, "unitary", "matrix", "named", "param")
def _pcphase(wires):
    return st.integers(1, min(3, len(wires))).flatmap(
        lambda k: st.tuples(gen.angles(), gen.subset(wires, k), st.integers(0, 2**k))).map(
        lambda t: {"op": "PCPhase", "p": [t[0]], "w": t[1], "kw": {"dim": t[2]}})


@reg("MultiControlledX", 2, "unitary", "matrix", "named")
def _mcx(wires):
    return st.integers(2, min(5, len(wires))).flatmap(
        lambda k: st.tuples(gen.subset(wires, k), st.lists(st.integers(0, 1), min_size=k - 1, max_size=k - 1))).map(
        lambda t: {"op": "MultiControlledX", "p": [], "w": t[0], "kw": {"control_values": t[1]}})


@reg("QubitUnitary", 1, "unitary", "matrix")
def _qubit_unitary(wires):
    return st.integers(1, min(3, len(wires))).flatmap(lambda k: st.tuples(gen.float_list(6), gen.subset(wires, k))).map(
        lambda t: {"op": "QubitUnitary", "p": [{"U": t[0], "n": len(t[1])}], "w": t[1]})


@reg("DiagonalQubitUnitary", 1, "unitary", "matrix")
def _diag_unitary(wires):
    def mk(k):
        return st.tuples(st.lists(gen.angles(), min_size=2**k, max_size=2**k), gen.subset(wires, k)).map(
            lambda t: {"op": "DiagonalQubitUnitary", "p": [{"phases": t[0]}], "w": t[1]})
    return st.integers(1, min(3, len(wires))).flatmap(mk)


@reg("ControlledQubitUnitary", 2, "unitary", "matrix")
def _ctrl_qubit_unitary(wires):
    def mk(kc, kt):
        return st.tuples(gen.float_list(6), gen.subset(wires, kc + kt), st.lists(st.integers(0, 1), min_size=kc, max_size=kc)).map(
            lambda t: {"op": "ControlledQubitUnitary", "p": [{"U": t[0], "n": kt}], "w": t[1], "kw": {"control_values": t[2]}})
    return st.integers(1, min(2, len(wires) - 1)).flatmap(lambda kc: st.integers(1, min(2, len(wires) - kc)).flatmap(lambda kt: mk(kc, kt)))


@reg("SpecialUnitary", 1, "unitary", "matrix", "param")
def _special_unitary(wires):
    def mk(k):
        return st.tuples(st.lists(gen.floats01, min_size=4**k - 1, max_size=4**k - 1), gen.subset(wires, k)).map(
            lambda t: {"op": "SpecialUnitary", "p": [t[0]], "w": t[1]})
    return st.integers(1, min(2, len(wires))).flatmap(mk)


@reg("Hermitian", 1, "matrix", "herm")
def _hermitian(wires):
    return st.integers(1, min(2, len(wires))).flatmap(lambda k: st.tuples(gen.float_list(6), gen.subset(wires, k))).map(
        lambda t: {"op": "Hermitian", "p": [{"H": t[0], "n": len(t[1])}], "w": t[1]})


@reg("Projector", 1, "matrix", "herm")
def _projector(wires):
    basis = st.integers(1, min(3, len(wires))).flatmap(
        lambda k: st.tuples(st.lists(st.integers(0, 1), min_size=k, max_size=k), gen.subset(wires, k))).map(
        lambda t: {"op": "Projector", "p": [t[0]], "w": t[1]})
    vec = st.integers(1, min(2, len(wires))).flatmap(lambda k: st.tuples(gen.float_list(5), gen.subset(wires, k))).map(
        lambda t: {"op": "Projector", "p": [{"vec": t[0], "n": len(t[1])}], "w": t[1]})
    return st.one_of(basis, vec)


@reg("QFT", 1, "unitary", "matrix", "template")
def _qft(wires):
    return st.integers(1, min(4, len(wires))).flatmap(lambda k: gen.subset(wires, k)).map(lambda w: {"op": "QFT", "p": [], "w": w})


@reg("Permute", 2, "template", "decomp")
def _permute(wires):
    return st.integers(2, min(4, len(wires))).flatmap(lambda k: gen.subset(wires, k)).flatmap(
        lambda w: st.permutations(w).map(lambda p: {"op": "Permute", "p": [], "w": w, "kw": {"permutation": list(p)}}))


@reg("GroverOperator", 2, "unitary", "matrix", "template")
def _grover(wires):
    return st.integers(2, min(4, len(wires))).flatmap(lambda k: gen.subset(wires, k)).map(lambda w: {"op": "GroverOperator", "p": [], "w": w})


@reg("FlipSign", 1, "template", "decomp")
def _flipsign(wires):
    return st.integers(1, min(3, len(wires))).flatmap(
        lambda k: st.tuples(st.lists(st.integers(0, 1), min_size=k, max_size=k), gen.subset(wires, k))).map(
        lambda t: {"op": "FlipSign", "p": [], "w": t[1], "kw": {"state": t[0]}})


@reg("BasisRotation", 2, "template", "decomp")
def _basis_rotation(wires):
    return st.integers(2, min(3, len(wires))).flatmap(lambda k: st.tuples(gen.float_list(6), gen.subset(wires, k))).map(
        lambda t: {"op": "BasisRotation", "p": [], "w": t[1], "kw": {"unitary_matrix": {"Udim": t[0], "d": len(t[1])}}})


def names(*tags, exclude=()):
    tags = set(tags)
    return sorted(n for n, (_, _, t) in ZOO.items() if tags <= t and n not in exclude)


def leaf(wires, *tags, exclude=()):
    """Strategy for one zoo instance with all `tags`, on a subset of `wires`."""
    ns = [n for n in names(*tags, exclude=exclude) if ZOO[n][1] <= len(wires)]
    return st.sampled_from(ns).flatmap(lambda n: ZOO[n][0](wires))


def wrapped(wires, *tags, max_depth=2, exclude=()):
    """Zoo leaf under up to `max_depth` symbolic wrappers (adjoint / integer pow / ctrl / s_prod / prod)."""
    base = leaf(wires, *(set(tags) | {"unitary"}), exclude=exclude)

    def extend(inner):
        def ctrl(b):
            from pv.specs import spec_wires
            used = spec_wires(b)
            free = [w for w in wires if w not in used]
            if not free:
                return st.just(b)
            return st.integers(1, min(2, len(free))).flatmap(
                lambda k: st.tuples(gen.subset(free, k), st.lists(st.integers(0, 1), min_size=k, max_size=k))).map(
                lambda t: {"op": "ctrl", "base": b, "cw": t[0], "cv": t[1]})
        return st.one_of(
            inner.map(lambda b: {"op": "adjoint", "base": b}),
            st.tuples(inner, st.sampled_from([2, 3, -1, -2, 0, 1])).map(lambda t: {"op": "pow", "base": t[0], "z": t[1]}),
            inner.flatmap(ctrl),
        )
    return st.recursive(base, extend, max_leaves=max_depth)


@reg("AQFT", 2, "unitary", "matrix", "template")
def _aqft(wires):
    return st.integers(2, min(4, len(wires))).flatmap(lambda k: st.tuples(gen.subset(wires, k), st.integers(1, k - 1))).map(
        lambda t: {"op": "AQFT", "p": [], "w": t[0], "kw": {"order": t[1]}})


@reg("SelectPauliRot", 2, "unitary", "matrix", "template", "param")
def _select_pauli_rot(wires):
    def mk(k):
        return st.tuples(st.lists(gen.angles(), min_size=2**k, max_size=2**k), gen.subset(wires, k + 1), st.sampled_from("XYZ")).map(
            lambda t: {"op": "SelectPauliRot", "p": [t[0]], "w": [], "kw": {"control_wires": t[1][:-1], "target_wire": t[1][-1], "rot_axis": t[2]}})
    return st.integers(1, min(2, len(wires) - 1)).flatmap(mk)


@reg("TemporaryAND", 3, "unitary", "matrix", "template")
def _temporary_and(wires):
    return st.tuples(gen.subset(wires, 3), st.lists(st.integers(0, 1), min_size=2, max_size=2)).map(
        lambda t: {"op": "TemporaryAND", "p": [], "w": t[0], "kw": {"control_values": t[1]}})


def instance(wires, *tags, exclude=()):
    """Leaf (60 %) or wrapped leaf (40 %)."""
    return st.one_of(leaf(wires, *tags, exclude=exclude), leaf(wires, *tags, exclude=exclude),
                     leaf(wires, *tags, exclude=exclude), wrapped(wires, *tags, exclude=exclude), wrapped(wires, *tags, exclude=exclude))
