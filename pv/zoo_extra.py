"""Additional operator-zoo entries (registered into pv.zoo.ZOO on import) and an extended spec -> object
builder `build(spec)` that understands every node kind of pv.specs.build_op plus

  {"op": "ctrl", ..., "via": "ctrl"|"class"|"callable"}     qp.ctrl(op) | Controlled/ControlledOp2(...) | qp.ctrl(cls, ...)(*args)
  {"op": "prod"|"sum"|"s_prod", ..., "lazy": bool, "via": "fn"|"dunder"}
  {"op": "dot", "coeffs": [...], "operands": [...]}          qp.dot
  {"op": "cob", "compute": e, "target": e, "uncompute": e|None}   qp.change_op_basis
  {"op": "evolution", "base": e, "c": x}                      qp.evolve(H, x) = exp(-i x H)

Leaf classes whose constructor does not fit `cls(*params, wires=..., **kw)` register a function in BUILDERS.
"""
from hypothesis import strategies as st

from pv import gen, specs
from pv.zoo import ZOO, reg  # noqa: F401

BUILDERS = {}


def builder(name):
    def deco(f):
        BUILDERS[name] = f
        return f
    return deco


def _c(x):
    return complex(x["c"][0], x["c"][1]) if isinstance(x, dict) and "c" in x else specs.param(x)


def _w(ws):
    return [specs.wire(w) for w in ws]


def build(s):
    import pennylane as qp

    kind = s["op"]
    if kind == "adjoint":
        return qp.adjoint(build(s["base"]), lazy=s.get("lazy", True))
    if kind == "pow":
        b = build(s["base"])
        if s.get("via") == "dunder":
            return b ** s["z"]
        return qp.pow(b, s["z"], lazy=s.get("lazy", True))
    if kind == "ctrl":
        kw = {}
        if s.get("ww"):
            kw["work_wires"] = _w(s["ww"])
        if s.get("wwt"):
            kw["work_wire_type"] = s["wwt"]
        cw = _w(s["cw"])
        via = s.get("via", "ctrl")
        if via == "callable":
            # qp.ctrl of a quantum function: the function applies the base (a product: its factors in circuit order);
            # the controlled operations it queues, multiplied back in matrix order, are the controlled base
            bs = s["base"]
            parts = list(reversed(bs["operands"])) if bs["op"] == "prod" else [bs]

            def qfunc():
                for part in parts:
                    with qp.QueuingManager.stop_recording():
                        o = build(part)
                    qp.apply(o)

            with qp.queuing.AnnotatedQueue() as q:
                qp.ctrl(qfunc, control=cw, control_values=s.get("cv"), **kw)()
            ops = [o for o in q.queue if isinstance(o, qp.operation.Operator)]
            return ops[0] if len(ops) == 1 else qp.prod(*reversed(ops))
        b = build(s["base"])
        if via == "class":
            from pennylane.core.operator.operator2 import Operator2

            cls = qp.ops.op_math.ControlledOp2 if isinstance(b, Operator2) else qp.ops.Controlled
            return cls(b, cw, control_values=s.get("cv"), **kw)
        return qp.ctrl(b, control=cw, control_values=s.get("cv"), **kw)
    if kind == "prod":
        ops = [build(o) for o in s["operands"]]
        if s.get("via") == "dunder":
            out = ops[0]
            for o in ops[1:]:
                out = out @ o
            return out
        return qp.prod(*ops, lazy=s.get("lazy", True))
    if kind == "sum":
        ops = [build(o) for o in s["operands"]]
        if s.get("via") == "dunder":
            out = ops[0]
            for o in ops[1:]:
                out = out + o
            return out
        return qp.sum(*ops, lazy=s.get("lazy", True))
    if kind == "s_prod":
        b = build(s["base"])
        if s.get("via") == "dunder":
            return _c(s["c"]) * b
        return qp.s_prod(_c(s["c"]), b, lazy=s.get("lazy", True))
    if kind == "exp":
        return qp.exp(build(s["base"]), _c(s["c"]))
    if kind == "evolution":
        return qp.evolve(build(s["base"]), _c(s["c"]))
    if kind == "lincomb":
        return qp.ops.LinearCombination([_c(c) for c in s["coeffs"]], [build(o) for o in s["operands"]])
    if kind == "dot":
        return qp.dot([_c(c) for c in s["coeffs"]], [build(o) for o in s["operands"]])
    if kind == "cob":
        un = build(s["uncompute"]) if s.get("uncompute") is not None else None
        return qp.change_op_basis(build(s["compute"]), build(s["target"]), un)
    if kind in BUILDERS:
        return BUILDERS[kind](s)
    return specs.build_op(s)


def spec_wires(s):
    """Ordered wires of an expression spec (including the extra node kinds)."""
    seen = []

    def add(w):
        w = specs.wire(w)
        if w not in seen:
            seen.append(w)

    def visit(x):
        if not isinstance(x, dict):
            return
        for k in ("cw", "w", "ww"):
            for w in x.get(k) or []:
                add(w)
        kw = x.get("kw") or {}
        for k, v in kw.items():
            if k.endswith("wires") and isinstance(v, list):
                for w in v:
                    if isinstance(w, list) and k in ("x_wires_list",):
                        continue
                    add(w)
            elif k in ("target_wire", "work_wire") and v is not None:
                add(v)
            elif k in ("wires1", "wires2", "control") and isinstance(v, list):
                for w in v:
                    add(w)
            elif isinstance(v, dict) and "op" in v:
                visit(v)
            elif isinstance(v, list) and v and isinstance(v[0], dict) and "op" in v[0]:
                for o in v:
                    visit(o)
        for k in ("base", "compute", "target", "uncompute", "obs"):
            if isinstance(x.get(k), dict):
                visit(x[k])
        for o in x.get("operands") or []:
            visit(o)

    visit(s)
    return seen


# ---------------------------------------------------------------------------------------------------
# discovery / coverage
# ---------------------------------------------------------------------------------------------------

def discovered_classes():
    """Concrete classes found by walking Operator / Operator2 subclasses under pennylane.*"""
    import pennylane as qp  # noqa: F401
    from pennylane.core.operator import Operator
    from pennylane.core.operator.operator2 import Operator2

    seen = {}

    def walk(c):
        for sub in c.__subclasses__():
            if sub in seen.values():
                continue
            if sub.__module__.startswith("pennylane."):
                seen[sub.__module__ + "." + sub.__qualname__] = sub
            walk(sub)

    walk(Operator)
    walk(Operator2)
    return {k.rsplit(".", 1)[1]: v for k, v in sorted(seen.items())}


# classes documented (tests/ops/functions/conftest.py::_ABSTRACT_OR_META_TYPES) as abstract / meta, plus the
# symbolic wrappers that are reached through the wrapper node kinds instead of a leaf builder
ABSTRACT_OR_META = {
    "Operation", "Channel", "StatePrepBase", "StatePrepBase2", "SymbolicOp", "SymbolicOp2", "ScalarSymbolicOp", "CompositeOp",
    "Controlled2", "CollectedSubroutine", "LabelledOp", "MarkedOp", "FromBloq", "Allocate", "Deallocate",
    "BasisStateProjector", "StateVectorProjector",  # reached through Projector
}
VIA_WRAPPER = {
    "Adjoint": "adjoint", "AdjointOperation": "adjoint", "Adjoint2": "adjoint", "Pow": "pow", "PowOperation": "pow", "Pow2": "pow",
    "Controlled": "ctrl", "ControlledOp": "ctrl", "ControlledOp2": "ctrl", "Prod": "prod", "Sum": "sum", "SProd": "s_prod", "Exp": "exp",
    "Evolution": "evolution", "LinearCombination": "lincomb", "ChangeOpBasis": "cob",
}


_COV = []


def coverage_labels(reached=None):
    """Labels describing zoo coverage: classes discovered vs classes with a builder (leaf or wrapper). Cached; modules attach
    them to every case so that they stay inside the engine's top-80 histogram."""
    if _COV:
        return list(_COV)
    labs = _coverage_labels()
    _COV.extend(labs)
    return list(labs)


def _coverage_labels():
    disc = discovered_classes()
    have = set(ZOO) | set(VIA_WRAPPER)
    concrete = [n for n in disc if n not in ABSTRACT_OR_META]
    unc = sorted(n for n in concrete if n not in have)
    labs = [f"zoo:discovered={len(disc)} concrete={len(concrete)} with_builder={len(concrete) - len(unc)}"]
    if unc:
        labs.append("zoo:uncovered=" + ",".join(unc))
    return labs


# ---------------------------------------------------------------------------------------------------
# additional zoo entries
# ---------------------------------------------------------------------------------------------------
# extra tags: "nomatrix" (no matrix representation), "meta", "mcm", "opargs" (operator-valued arguments),
#             "workwires" (declares work wires), "nonunitary", "breaks:<convention>" (documented in
#             tests/ops/functions/conftest.py::_INSTANCES_TO_FAIL)

PROB = st.sampled_from([0.0, 1.0, 0.5, 0.25]) | st.floats(0, 1).map(lambda x: round(x, 4))


def _arr(shape):
    n = 1
    for d in shape:
        n *= d
    return st.lists(gen.angles(), min_size=min(n, 6), max_size=min(n, 6)).map(lambda fl: {"arr": fl, "shape": list(shape)})


def _p(x):
    """specs.param plus {"arr": floats, "shape": [...]} (cyclic fill, deterministic) and {"kraus": ...}."""
    import numpy as np

    if isinstance(x, dict) and "arr" in x:
        n = int(np.prod(x["shape"])) if x["shape"] else 1
        fl = list(x["arr"]) or [0.0]
        if "scale" in x:  # bounded fill: |entry| <= scale * max|fl|
            vals = np.array([x["scale"] * fl[i % len(fl)] * (1.0 if (i // len(fl)) % 2 == 0 else -0.7) for i in range(n)], dtype=float)
        else:
            vals = np.array([fl[i % len(fl)] + 0.173 * (i // len(fl)) for i in range(n)], dtype=float)
        return vals.reshape(x["shape"])
    if isinstance(x, dict) and "kraus" in x:
        p = x["p"]
        U0 = specs.unitary_from_floats(x["kraus"], x["n"])
        U1 = specs.unitary_from_floats(list(reversed(x["kraus"])), x["n"])
        return [np.sqrt(p) * U0, np.sqrt(1 - p) * U1]
    if isinstance(x, dict) and "rho" in x:
        v1 = specs.vec_from_floats(x["rho"], x["n"])
        v2 = specs.vec_from_floats(list(reversed(x["rho"])), x["n"])
        q = x["q"]
        return q * np.outer(v1, v1.conj()) + (1 - q) * np.outer(v2, v2.conj())
    if isinstance(x, dict) and "sparseH" in x:
        import scipy.sparse as sp

        return sp.csr_matrix(specs.hermitian_from_floats(x["sparseH"], x["n"]) * (np.abs(specs.hermitian_from_floats(x["sparseH"], x["n"])) > 0.3))
    return specs.param(x)


WIRE_KEYS = ("work_wires", "control_wires", "x_wires", "y_wires", "output_wires", "target_wires", "estimation_wires", "control",
             "reflection_wires", "precision_wires", "wires1", "wires2")


def generic_build(s, cls=None):
    """cls(*params, wires=..., **kw) with wire-valued keyword arguments converted and operator-valued ones built."""
    import pennylane as qp

    kind = s["op"]
    cls = cls or getattr(qp, kind, None) or getattr(qp.ops, kind, None) or getattr(qp.templates, kind, None)
    ps = [_p(p) for p in s.get("p", [])]
    kw = {}
    for k, v in (s.get("kw") or {}).items():
        if k in WIRE_KEYS and isinstance(v, list):
            kw[k] = _w(v)
        elif k in ("work_wire", "target_wire") and v is not None:
            kw[k] = specs.wire(v)
        elif isinstance(v, dict) and "op" in v:
            kw[k] = build(v)
        elif isinstance(v, list) and v and isinstance(v[0], dict) and "op" in v[0]:
            kw[k] = [build(o) for o in v]
        elif isinstance(v, dict):
            kw[k] = _p(v)
        else:
            kw[k] = v
    if s.get("w") is not None:
        kw["wires"] = _w(s["w"])
    return cls(*ps, **kw)


def _reg_generic(name, min_wires, *tags, cls_path=None):
    """Register a zoo entry built by generic_build."""
    def deco(f):
        ZOO[name] = (f, min_wires, set(tags))

        def b(s):
            cls = None
            if cls_path:
                import importlib

                mod, attr = cls_path.rsplit(".", 1)
                cls = getattr(importlib.import_module(mod), attr)
            return generic_build(s, cls)
        BUILDERS[name] = b
        return f
    return deco


def _sub(wires, lo, hi=None):
    hi = min(hi if hi is not None else len(wires), len(wires))
    return st.integers(lo, hi).flatmap(lambda k: gen.subset(wires, k))


# ---- channels --------------------------------------------------------------------------------------
for _n, _np in (("AmplitudeDamping", 1), ("BitFlip", 1), ("DepolarizingChannel", 1), ("PhaseDamping", 1), ("PhaseFlip", 1),
                ("GeneralizedAmplitudeDamping", 2)):
    def _mk(name=_n, npar=_np):
        def f(wires):
            return st.tuples(st.lists(PROB, min_size=npar, max_size=npar), gen.subset(wires, 1)).map(
                lambda t: {"op": name, "p": t[0], "w": t[1]})
        return f
    _reg_generic(_n, 1, "channel", "nomatrix", "nonunitary", "param")(_mk())


@_reg_generic("ResetError", 1, "channel", "nomatrix", "nonunitary", "param")
def _reset_error(wires):
    return st.tuples(PROB, PROB, gen.subset(wires, 1)).map(lambda t: {"op": "ResetError", "p": [round(t[0] * 0.5, 4), round(t[1] * 0.5, 4)], "w": t[2]})


@_reg_generic("ThermalRelaxationError", 1, "channel", "nomatrix", "nonunitary", "param")
def _thermal(wires):
    # documented domain: 0<=pe<=1, t1>0, 0<t2<=2*t1, tg>=0 (both regimes t2<=t1 and t1<t2<=2t1)
    return st.tuples(PROB, st.sampled_from([0.5, 1.0, 3.0]), st.sampled_from([0.25, 0.5, 1.0, 1.5, 2.0]), st.sampled_from([0.0, 0.1, 1.0]),
                     gen.subset(wires, 1)).map(lambda t: {"op": "ThermalRelaxationError", "p": [t[0], t[1], round(t[1] * t[2], 4), t[3]], "w": t[4]})


@reg("PauliError", 1, "channel", "nomatrix", "nonunitary", "breaks:decomposition")
def _pauli_error(wires):
    return _sub(wires, 1, 2).flatmap(lambda w: st.tuples(st.text("XYZI", min_size=len(w), max_size=len(w)), PROB).map(
        lambda t: {"op": "PauliError", "p": [], "w": w, "kw": {"operators": t[0], "p": t[1]}}))


@builder("PauliError")
def _b_pauli_error(s):
    import pennylane as qp

    return qp.PauliError(s["kw"]["operators"], s["kw"]["p"], wires=_w(s["w"]))


@_reg_generic("QubitChannel", 1, "channel", "nomatrix", "nonunitary")
def _qubit_channel(wires):
    return _sub(wires, 1, 2).flatmap(lambda w: st.tuples(gen.float_list(6), PROB).map(
        lambda t: {"op": "QubitChannel", "p": [{"kraus": t[0], "p": t[1], "n": len(w)}], "w": w}))


# ---- meta -----------------------------------------------------------------------------------------
@_reg_generic("Barrier", 1, "meta")
def _barrier(wires):
    return st.tuples(_sub(wires, 1, 3), st.booleans()).map(lambda t: {"op": "Barrier", "p": [], "w": t[0], "kw": {"only_visual": t[1]}})


@_reg_generic("WireCut", 1, "meta", "nomatrix")
def _wirecut(wires):
    return _sub(wires, 1, 2).map(lambda w: {"op": "WireCut", "p": [], "w": w})


@reg("Snapshot", 0, "meta", "nomatrix")
def _snapshot(wires):
    return st.sampled_from([None, "tag", "a b"]).map(lambda t: {"op": "Snapshot", "p": [], "w": [], "kw": {"tag": t}})


@reg("MidMeasure", 1, "mcm", "nomatrix", "nonunitary")
def _midmeasure(wires):
    return st.tuples(gen.subset(wires, 1), st.booleans(), st.sampled_from([None, 0, 1])).map(
        lambda t: {"op": "MidMeasure", "p": [], "w": t[0], "kw": {"reset": t[1], "postselect": t[2], "meas_uid": "m0"}})


@builder("MidMeasure")
def _b_midmeasure(s):
    import pennylane as qp

    return qp.ops.MidMeasure(wires=_w(s["w"]), **s["kw"])


@reg("PauliMeasure", 1, "mcm", "nomatrix", "nonunitary")
def _paulimeasure(wires):
    return _sub(wires, 1, 3).flatmap(lambda w: st.tuples(st.text("XYZ", min_size=len(w), max_size=len(w)), st.sampled_from([None, 0, 1])).map(
        lambda t: {"op": "PauliMeasure", "p": [], "w": w, "kw": {"pauli_word": t[0], "postselect": t[1], "meas_uid": "m1"}}))


@builder("PauliMeasure")
def _b_paulimeasure(s):
    import pennylane as qp

    return qp.ops.PauliMeasure(s["kw"]["pauli_word"], wires=_w(s["w"]), postselect=s["kw"]["postselect"], meas_uid=s["kw"]["meas_uid"])


# ---- qubit arithmetic / matrix ops / observables ------------------------------------------------------
@reg("IntegerComparator", 2, "unitary", "matrix")
def _int_comparator(wires):
    return _sub(wires, 2, 4).flatmap(lambda w: st.tuples(st.integers(0, 2 ** (len(w) - 1) + 1), st.booleans()).map(
        lambda t: {"op": "IntegerComparator", "p": [], "w": w, "kw": {"value": t[0], "geq": t[1]}}))


@builder("IntegerComparator")
def _b_int_comparator(s):
    import pennylane as qp

    return qp.IntegerComparator(s["kw"]["value"], geq=s["kw"]["geq"], wires=_w(s["w"]))


@_reg_generic("QubitCarry", 4, "unitary", "matrix")
def _qubit_carry(wires):
    return gen.subset(wires, 4).map(lambda w: {"op": "QubitCarry", "p": [], "w": w})


@_reg_generic("QubitSum", 3, "unitary", "matrix")
def _qubit_sum(wires):
    return gen.subset(wires, 3).map(lambda w: {"op": "QubitSum", "p": [], "w": w})


@_reg_generic("BlockEncode", 1, "unitary", "matrix")
def _block_encode(wires):
    # A is r x c with spectral norm <= 1 (entries in [-0.3, 0.3], r, c <= 3), on enough wires to hold r + c rows
    def mk(t):
        r, c, fl, ws = t
        return {"op": "BlockEncode", "p": [{"arr": fl, "shape": [r, c], "scale": 0.3}], "w": ws}
    return st.tuples(st.integers(1, 3), st.integers(1, 3), gen.float_list(5), _sub(wires, 3, 3) if len(wires) >= 3 else st.nothing()).map(mk)


ZOO["BlockEncode"] = (ZOO["BlockEncode"][0], 3, ZOO["BlockEncode"][2])


@reg("SparseHamiltonian", 1, "herm", "sparse", "nomatrix", "breaks:data")
def _sparse_ham(wires):
    return _sub(wires, 1, 3).flatmap(lambda w: gen.float_list(6).map(lambda fl: {"op": "SparseHamiltonian", "p": [{"sparseH": fl, "n": len(w)}], "w": w}))


BUILDERS["SparseHamiltonian"] = generic_build


@reg("TmpPauliRot", 1, "unitary", "param", "breaks:has_matrix")
def _tmp_pauli_rot(wires):
    return _sub(wires, 1, 2).flatmap(lambda w: st.tuples(gen.angles(), st.text("XYZ", min_size=len(w), max_size=len(w))).map(
        lambda t: {"op": "TmpPauliRot", "p": [t[0]], "w": w, "kw": {"pauli_word": t[1]}}))


@builder("TmpPauliRot")
def _b_tmp_pauli_rot(s):
    from pennylane.ops.qubit.special_unitary import TmpPauliRot

    return TmpPauliRot(s["p"][0], s["kw"]["pauli_word"], wires=_w(s["w"]))


# ---- state preparations --------------------------------------------------------------------------------
@_reg_generic("BasisState", 1, "stateprep", "nomatrix")
def _basis_state(wires):
    return _sub(wires, 1, 4).flatmap(lambda w: st.lists(st.integers(0, 1), min_size=len(w), max_size=len(w)).map(
        lambda b: {"op": "BasisState", "p": [b], "w": w}))


@_reg_generic("StatePrep", 1, "stateprep", "nomatrix")
def _state_prep(wires):
    return _sub(wires, 1, 3).flatmap(lambda w: gen.float_list(5).map(lambda fl: {"op": "StatePrep", "p": [{"vec": fl, "n": len(w)}], "w": w}))


@_reg_generic("QubitDensityMatrix", 1, "stateprep", "nomatrix")
def _qdm(wires):
    return _sub(wires, 1, 2).flatmap(lambda w: st.tuples(gen.float_list(5), PROB).map(
        lambda t: {"op": "QubitDensityMatrix", "p": [{"rho": t[0], "q": t[1], "n": len(w)}], "w": w}))


@_reg_generic("AmplitudeEmbedding", 1, "stateprep", "template", "nomatrix")
def _amp_embedding(wires):
    return _sub(wires, 1, 3).flatmap(lambda w: gen.float_list(5).map(lambda fl: {"op": "AmplitudeEmbedding", "p": [{"vec": fl, "n": len(w)}], "w": w}))


@_reg_generic("MottonenStatePreparation", 1, "stateprep", "template", "nomatrix", "decomp")
def _mottonen(wires):
    return _sub(wires, 1, 3).flatmap(lambda w: gen.float_list(5).map(lambda fl: {"op": "MottonenStatePreparation", "p": [{"vec": fl, "n": len(w)}], "w": w}))


@_reg_generic("MultiplexerStatePreparation", 1, "stateprep", "template", "nomatrix", "decomp")
def _multiplexer_sp(wires):
    return _sub(wires, 1, 3).flatmap(lambda w: gen.float_list(5).map(lambda fl: {"op": "MultiplexerStatePreparation", "p": [{"vec": fl, "n": len(w)}], "w": w}))


@_reg_generic("ArbitraryStatePreparation", 1, "stateprep", "template", "nomatrix", "decomp", "param")
def _arb_sp(wires):
    return _sub(wires, 1, 3).flatmap(lambda w: _arr((2 ** (len(w) + 1) - 2,)).map(lambda a: {"op": "ArbitraryStatePreparation", "p": [a], "w": w}))


@_reg_generic("CosineWindow", 1, "stateprep", "template", "nomatrix", "decomp")
def _cosine_window(wires):
    return _sub(wires, 1, 4).map(lambda w: {"op": "CosineWindow", "p": [], "w": w})


# ---- embeddings / layers (unitary templates without a matrix) ----------------------------------------------
@_reg_generic("AngleEmbedding", 1, "template", "nomatrix", "decomp", "param")
def _angle_embedding(wires):
    return _sub(wires, 1, 4).flatmap(lambda w: st.tuples(st.integers(1, len(w)), st.sampled_from("XYZ")).flatmap(
        lambda t: _arr((t[0],)).map(lambda a: {"op": "AngleEmbedding", "p": [a], "w": w, "kw": {"rotation": t[1]}})))


@_reg_generic("IQPEmbedding", 1, "template", "nomatrix", "decomp", "param")
def _iqp_embedding(wires):
    return _sub(wires, 1, 4).flatmap(lambda w: st.tuples(_arr((len(w),)), st.integers(1, 2)).map(
        lambda t: {"op": "IQPEmbedding", "p": [t[0]], "w": w, "kw": {"n_repeats": t[1]}}))


@_reg_generic("QAOAEmbedding", 1, "template", "nomatrix", "decomp", "param")
def _qaoa_embedding(wires):
    def mk(w):
        n = len(w)
        cols = 1 if n == 1 else 3 if n == 2 else 2 * n
        return st.tuples(st.integers(1, n), st.integers(1, 2), st.sampled_from("XYZ")).flatmap(
            lambda t: st.tuples(_arr((t[0],)), _arr((t[1], cols))).map(
                lambda a: {"op": "QAOAEmbedding", "p": [a[0], a[1]], "w": w, "kw": {"local_field": t[2]}}))
    return _sub(wires, 1, 4).flatmap(mk)


@_reg_generic("BasicEntanglerLayers", 1, "template", "nomatrix", "decomp", "param")
def _basic_entangler(wires):
    return _sub(wires, 1, 4).flatmap(lambda w: st.tuples(st.integers(1, 2), st.sampled_from(["RX", "RY", "RZ", None])).flatmap(
        lambda t: _arr((t[0], len(w))).map(lambda a: {"op": "BasicEntanglerLayers", "p": [a], "w": w, "kw": {"rotation": t[1]}})))


@builder("BasicEntanglerLayers")
def _b_basic_entangler(s):
    import pennylane as qp

    rot = s["kw"].get("rotation")
    return qp.BasicEntanglerLayers(_p(s["p"][0]), wires=_w(s["w"]), rotation=getattr(qp, rot) if rot else None)


@_reg_generic("StronglyEntanglingLayers", 1, "template", "nomatrix", "decomp", "param")
def _strongly_entangling(wires):
    def mk(w):
        n = len(w)
        return st.integers(1, 2).flatmap(lambda L: st.tuples(
            _arr((L, n, 3)), st.none() if n == 1 else st.one_of(st.none(), st.lists(st.integers(1, n - 1), min_size=L, max_size=L))).map(
            lambda t: {"op": "StronglyEntanglingLayers", "p": [t[0]], "w": w, "kw": {"ranges": t[1]}}))
    return _sub(wires, 1, 4).flatmap(mk)


@_reg_generic("RandomLayers", 1, "template", "nomatrix", "decomp", "param")
def _random_layers(wires):
    return _sub(wires, 1, 4).flatmap(lambda w: st.tuples(st.integers(1, 2), st.integers(1, 3), st.integers(0, 5)).flatmap(
        lambda t: _arr((t[0], t[1])).map(lambda a: {"op": "RandomLayers", "p": [a], "w": w, "kw": {"seed": t[2]}})))


@_reg_generic("SimplifiedTwoDesign", 1, "template", "nomatrix", "decomp", "param")
def _simplified_two_design(wires):
    return _sub(wires, 2, 4).flatmap(lambda w: st.integers(1, 2).flatmap(lambda L: st.tuples(_arr((len(w),)), _arr((L, len(w) - 1, 2))).map(
        lambda t: {"op": "SimplifiedTwoDesign", "p": [t[0], t[1]], "w": w})))


ZOO["SimplifiedTwoDesign"] = (ZOO["SimplifiedTwoDesign"][0], 2, ZOO["SimplifiedTwoDesign"][2])


@_reg_generic("ArbitraryUnitary", 1, "template", "nomatrix", "decomp", "param")
def _arbitrary_unitary(wires):
    return _sub(wires, 1, 2).flatmap(lambda w: _arr((4 ** len(w) - 1,)).map(lambda a: {"op": "ArbitraryUnitary", "p": [a], "w": w}))


@_reg_generic("FermionicSingleExcitation", 2, "template", "nomatrix", "decomp", "param")
def _fermionic_single(wires):
    return _sub(wires, 2, 4).flatmap(lambda w: gen.angles().map(lambda a: {"op": "FermionicSingleExcitation", "p": [a], "w": w}))


@_reg_generic("FFFT", 2, "template", "nomatrix", "decomp")
def _ffft(wires):
    return st.sampled_from([k for k in (2, 4) if k <= len(wires)]).flatmap(lambda k: gen.subset(wires, k)).map(lambda w: {"op": "FFFT", "p": [], "w": w})


@_reg_generic("TwoWireFFT", 2, "template", "nomatrix", "decomp")
def _two_wire_fft(wires):
    return gen.subset(wires, 2).map(lambda w: {"op": "TwoWireFFT", "p": [], "w": w})


# ---- templates with operator-valued arguments --------------------------------------------------------------
NAMED1 = {k: v for k, v in gen.GATES1.items()}
NAMED12 = {**gen.GATES1, **gen.GATES2}


def _pauli_ham(wires, min_terms=2, max_terms=3):
    """LinearCombination of Pauli words with real coefficients (>= min_terms terms)."""
    return st.lists(st.tuples(gen.floats01.filter(lambda c: abs(c) > 0.05), gen.pauli_word_obs(wires, 2)), min_size=min_terms, max_size=max_terms).map(
        lambda ts: {"op": "lincomb", "coeffs": [c for c, _ in ts], "operands": [o for _, o in ts]})


def _pauli_sum(wires, min_terms=2, max_terms=3):
    return _pauli_ham(wires, min_terms, max_terms).map(
        lambda h: {"op": "sum", "operands": [{"op": "s_prod", "c": c, "base": o} for c, o in zip(h["coeffs"], h["operands"])]})


@st.composite
def _split2(draw, wires, k_lo, k_hi):
    """(k chosen wires, remaining wires) with k in [k_lo, k_hi] and at least one remaining wire."""
    k = draw(st.integers(k_lo, min(k_hi, len(wires) - 1)))
    p = list(draw(st.permutations(wires)))
    return p[:k], p[k:]


@_reg_generic("ControlledSequence", 2, "template", "nomatrix", "decomp", "opargs")
def _controlled_sequence(wires):
    return _split2(wires, 1, 2).flatmap(lambda t: gen.gate(t[1][:2], NAMED12).map(
        lambda b: {"op": "ControlledSequence", "p": [], "w": None, "kw": {"base": b, "control": t[0]}}))


@_reg_generic("QuantumPhaseEstimation", 2, "template", "nomatrix", "decomp", "opargs")
def _qpe(wires):
    return _split2(wires, 1, 2).flatmap(lambda t: gen.gate(t[1][:2], NAMED12).map(
        lambda b: {"op": "QuantumPhaseEstimation", "p": [], "w": None, "kw": {"unitary": b, "estimation_wires": t[0]}}))


@_reg_generic("Reflection", 1, "template", "nomatrix", "decomp", "opargs", "param")
def _reflection(wires):
    def mk(b):
        from pv.specs import spec_wires
        bw = spec_wires(b)
        return st.tuples(gen.angles(), st.one_of(st.none(), st.integers(1, len(bw)).flatmap(lambda k: gen.subset(bw, k)))).map(
            lambda t: {"op": "Reflection", "p": [], "w": None, "kw": {"U": b, "alpha": t[0], "reflection_wires": t[1]}})
    return gen.gate(wires[:3], NAMED12).flatmap(mk)


@_reg_generic("Select", 2, "template", "nomatrix", "decomp", "opargs")
def _select(wires):
    def mk(t):
        cw, rest = t
        return st.lists(gen.gate(rest[:2], NAMED12), min_size=1, max_size=2 ** len(cw)).map(
            lambda ops: {"op": "Select", "p": [], "w": None, "kw": {"ops": ops, "control": cw}})
    return _split2(wires, 1, 2).flatmap(mk)


@_reg_generic("Qubitization", 2, "template", "nomatrix", "decomp", "opargs")
def _qubitization(wires):
    def mk(t):
        cw, rest = t
        return _pauli_ham(rest[:2], 2, 2 ** len(cw)).map(lambda h: {"op": "Qubitization", "p": [], "w": None, "kw": {"hamiltonian": h, "control": cw}})
    return _split2(wires, 1, 2).flatmap(mk)


@_reg_generic("PrepSelPrep", 2, "template", "nomatrix", "decomp", "opargs")
def _prepselprep(wires):
    def mk(t):
        cw, rest = t
        return _pauli_ham(rest[:2], 2, 2 ** len(cw)).map(lambda h: {"op": "PrepSelPrep", "p": [], "w": None, "kw": {"lcu": h, "control": cw}})
    return _split2(wires, 1, 2).flatmap(mk)


@_reg_generic("ApproxTimeEvolution", 1, "template", "nomatrix", "decomp", "opargs", "param")
def _approx_time_evolution(wires):
    return st.tuples(_pauli_ham(wires[:3], 1, 3), gen.angles(), st.integers(1, 3)).map(
        lambda t: {"op": "ApproxTimeEvolution", "p": [], "w": None, "kw": {"hamiltonian": t[0], "time": t[1], "n": t[2]}})


@_reg_generic("TrotterProduct", 1, "template", "nomatrix", "decomp", "opargs", "param")
def _trotter_product(wires):
    return st.tuples(_pauli_sum(wires[:3], 2, 3), gen.angles(), st.integers(1, 2), st.sampled_from([1, 2, 4])).map(
        lambda t: {"op": "TrotterProduct", "p": [], "w": None, "kw": {"hamiltonian": t[0], "time": t[1], "n": t[2], "order": t[3]}})


@_reg_generic("QDrift", 1, "template", "nomatrix", "decomp", "opargs", "param")
def _qdrift(wires):
    return st.tuples(_pauli_sum(wires[:3], 2, 3), gen.angles(), st.integers(1, 3), st.integers(0, 9)).map(
        lambda t: {"op": "QDrift", "p": [], "w": None, "kw": {"hamiltonian": t[0], "time": t[1], "n": t[2], "seed": t[3]}})


@_reg_generic("CommutingEvolution", 1, "template", "nomatrix", "decomp", "opargs", "param")
def _commuting_evolution(wires):
    # documented precondition: the Hamiltonian terms commute -> words over {Z, I} only
    def zword(ws):
        return {"op": "PauliZ", "w": [ws[0]]} if len(ws) == 1 else {"op": "prod", "operands": [{"op": "PauliZ", "w": [w]} for w in ws]}
    ham = st.lists(st.tuples(gen.floats01.filter(lambda c: abs(c) > 0.05), _sub(wires[:3], 1, 2).map(zword)), min_size=1, max_size=3).map(
        lambda ts: {"op": "lincomb", "coeffs": [c for c, _ in ts], "operands": [o for _, o in ts]})
    return st.tuples(ham, gen.angles()).map(lambda t: {"op": "CommutingEvolution", "p": [], "w": None, "kw": {"hamiltonian": t[0], "time": t[1]}})


@_reg_generic("AmplitudeAmplification", 1, "template", "nomatrix", "decomp", "opargs")
def _amplitude_amplification(wires):
    ws = wires[:3]

    def mk(n):
        w = ws[:n]
        U = {"op": "prod", "operands": [{"op": "Hadamard", "p": [], "w": [x]} for x in w]} if n > 1 else {"op": "Hadamard", "p": [], "w": w}
        return st.tuples(st.lists(st.integers(0, 1), min_size=n, max_size=n), st.integers(1, 3)).map(
            lambda t: {"op": "AmplitudeAmplification", "p": [], "w": None,
                       "kw": {"U": U, "O": {"op": "FlipSign", "p": [], "w": w, "kw": {"state": t[0]}}, "iters": t[1]}})
    return st.integers(1, len(ws)).flatmap(mk)


@_reg_generic("HilbertSchmidt", 2, "template", "nomatrix", "decomp", "opargs")
def _hilbert_schmidt(wires):
    def mk(p):
        k = len(p) // 2
        k = min(k, 2)
        return st.tuples(gen.gate(p[:k], NAMED12), gen.gate(p[k:2 * k], NAMED12)).filter(
            lambda t: len(t[0]["w"]) == len(t[1]["w"])).map(lambda t: {"op": "HilbertSchmidt", "p": [], "w": None, "kw": {"V": t[0], "U": t[1]}})
    return st.permutations(wires).map(list).flatmap(mk)


@_reg_generic("LocalHilbertSchmidt", 2, "template", "nomatrix", "decomp", "opargs")
def _local_hilbert_schmidt(wires):
    return _hilbert_schmidt(wires).map(lambda s: {**s, "op": "LocalHilbertSchmidt"})


@_reg_generic("GQSP", 2, "template", "nomatrix", "decomp", "opargs", "param")
def _gqsp(wires):
    return _split2(wires, 1, 1).flatmap(lambda t: st.tuples(gen.gate(t[1][:2], NAMED12), st.integers(0, 2)).flatmap(
        lambda u: _arr((3, u[1] + 1)).map(lambda a: {"op": "GQSP", "p": [], "w": None, "kw": {"unitary": u[0], "angles": a, "control": t[0]}})))


@_reg_generic("QSVT", 2, "template", "nomatrix", "decomp", "opargs")
def _qsvt(wires):
    def mk(w):
        return st.tuples(gen.float_list(4), st.lists(gen.angles(), min_size=1, max_size=3)).map(
            lambda t: {"op": "QSVT", "p": [], "w": None, "kw": {
                "UA": {"op": "BlockEncode", "p": [{"arr": t[0], "shape": [2, 2], "scale": 0.3}], "w": w},
                "projectors": [{"op": "PCPhase", "p": [a], "w": w, "kw": {"dim": 2}} for a in t[1]]}})
    return gen.subset(wires, 2).flatmap(mk)


# ---- more templates with plain arguments ---------------------------------------------------------------------
@_reg_generic("GateFabric", 4, "template", "nomatrix", "decomp", "param")
def _gate_fabric(wires):
    def mk(w):
        n = len(w)
        return st.tuples(st.integers(1, 2), st.booleans(), st.lists(st.integers(0, 1), min_size=n, max_size=n)).flatmap(
            lambda t: _arr((t[0], n // 2 - 1 + (n // 2 - 1 if n > 4 else 0) if False else _gf_cols(n), 2)).map(
                lambda a: {"op": "GateFabric", "p": [a], "w": w, "kw": {"init_state": t[2], "include_pi": t[1]}}))
    return st.sampled_from([k for k in (4, 6) if k <= len(wires)]).flatmap(lambda k: gen.subset(wires, k)).flatmap(mk)


def _gf_cols(n):
    # second weight dimension documented as len(wires)//2 - 1
    return n // 2 - 1


@_reg_generic("ParticleConservingU1", 2, "template", "nomatrix", "decomp", "param")
def _pc_u1(wires):
    return _sub(wires, 2, 4).flatmap(lambda w: st.tuples(st.integers(1, 2), st.lists(st.integers(0, 1), min_size=len(w), max_size=len(w))).flatmap(
        lambda t: _arr((t[0], len(w) - 1, 2)).map(lambda a: {"op": "ParticleConservingU1", "p": [a], "w": w, "kw": {"init_state": t[1]}})))


@_reg_generic("ParticleConservingU2", 2, "template", "nomatrix", "decomp", "param")
def _pc_u2(wires):
    return _sub(wires, 2, 4).flatmap(lambda w: st.tuples(st.integers(1, 2), st.lists(st.integers(0, 1), min_size=len(w), max_size=len(w))).flatmap(
        lambda t: _arr((t[0], 2 * len(w) - 1)).map(lambda a: {"op": "ParticleConservingU2", "p": [a], "w": w, "kw": {"init_state": t[1]}})))


@_reg_generic("FermionicDoubleExcitation", 4, "template", "nomatrix", "decomp", "param")
def _fermionic_double(wires):
    return st.tuples(st.permutations(wires).map(list), gen.angles(), st.integers(2, max(2, len(wires) - 2))).map(
        lambda t: {"op": "FermionicDoubleExcitation", "p": [t[1]], "w": None, "kw": {"wires1": t[0][:t[2]], "wires2": t[0][t[2]:t[2] + max(2, min(3, len(t[0]) - t[2]))]}})


@_reg_generic("FABLE", 3, "template", "nomatrix", "decomp")
def _fable(wires):
    # documented: real 2^n x 2^n matrix with |entries| <= 1 on 2n+1 wires
    return gen.subset(wires, 3).flatmap(lambda w: st.tuples(gen.float_list(4), st.sampled_from([0, 0.05])).map(
        lambda t: {"op": "FABLE", "p": [], "w": w, "kw": {"input_matrix": {"arr": t[0], "shape": [2, 2], "scale": 0.4}, "tol": t[1]}}))


@_reg_generic("Superposition", 2, "stateprep", "template", "nomatrix", "decomp", "workwires")
def _superposition(wires):
    def mk(t):
        ws, work = t[1][:-1] if False else t[1], t[0]
        n = min(len(ws), 3)
        ws = ws[:n]
        return st.lists(st.lists(st.integers(0, 1), min_size=n, max_size=n), min_size=1, max_size=3, unique_by=tuple).flatmap(
            lambda bases: gen.float_list(4).map(lambda fl: {"op": "Superposition", "p": [], "w": ws, "kw": {
                "coeffs": {"vecn": fl, "len": len(bases)}, "bases": bases, "work_wire": work[0]}}))
    return _split2(wires, 1, 1).flatmap(mk)


@builder("Superposition")
def _b_superposition(s):
    import numpy as np
    import pennylane as qp

    kw = s["kw"]
    fl = list(kw["coeffs"]["vecn"])
    m = kw["coeffs"]["len"]
    c = np.array([abs(fl[i % len(fl)]) + 0.2 + 0.1 * (i // len(fl)) for i in range(m)])
    return qp.Superposition(c / np.linalg.norm(c), kw["bases"], wires=_w(s["w"]), work_wire=specs.wire(kw["work_wire"]))


# ---- arithmetic templates ----------------------------------------------------------------------------------
@st.composite
def _registers(draw, wires, sizes_min):
    """disjoint registers with at least the given minimum sizes, using a prefix of a permutation of wires"""
    p = list(draw(st.permutations(wires)))
    regs = []
    i = 0
    for m in sizes_min:
        regs.append(p[i:i + m])
        i += m
    return regs


@_reg_generic("Adder", 4, "template", "nomatrix", "decomp", "workwires")
def _adder(wires):
    def mk(regs):
        x, work = regs
        nx = len(x)
        return st.tuples(st.integers(-3, 9), st.sampled_from([None] + list(range(2, 2 ** nx + 1)))).map(
            lambda t: {"op": "Adder", "p": [], "w": None, "kw": {"k": t[0], "x_wires": x, "mod": t[1], "work_wires": work}})
    return _registers(wires, [2, 2]).flatmap(mk)


@_reg_generic("PhaseAdder", 3, "template", "nomatrix", "decomp", "workwires")
def _phase_adder(wires):
    def mk(regs):
        x, work = regs
        nx = len(x)
        # documented: x_wires needs one extra bit when mod != 2**len(x_wires): mod <= 2**(nx-1)
        return st.tuples(st.integers(-3, 9), st.sampled_from([None] + list(range(2, 2 ** (nx - 1) + 1)))).map(
            lambda t: {"op": "PhaseAdder", "p": [], "w": None, "kw": {"k": t[0], "x_wires": x, "mod": t[1], "work_wire": work}})
    return _registers(wires, [2, 1]).flatmap(mk)


@_reg_generic("Multiplier", 4, "template", "nomatrix", "decomp", "workwires")
def _multiplier(wires):
    def mk(regs):
        x, work = regs
        # documented: k must have an inverse modulo mod; work wires: len(x) (mod = 2**n) or len(x)+2
        opts = [(k, None) for k in (1, 3)] + [(2, 3), (1, 3)]
        return st.sampled_from(opts).map(lambda t: {"op": "Multiplier", "p": [], "w": None,
                                                    "kw": {"k": t[0], "x_wires": x, "mod": t[1], "work_wires": work if t[1] else work[:len(x)]}})
    return _registers(wires, [2, 4]).flatmap(mk) if len(wires) >= 6 else st.nothing()


ZOO["Multiplier"] = (ZOO["Multiplier"][0], 6, ZOO["Multiplier"][2])


@_reg_generic("OutAdder", 5, "template", "nomatrix", "decomp", "workwires")
def _out_adder(wires):
    def mk(regs):
        x, y, out = regs
        return st.just({"op": "OutAdder", "p": [], "w": None, "kw": {"x_wires": x, "y_wires": y, "output_wires": out, "mod": None, "work_wires": None}})
    return _registers(wires, [1, 2, 2]).flatmap(mk)


@_reg_generic("SemiAdder", 4, "template", "nomatrix", "decomp", "workwires")
def _semi_adder(wires):
    def mk(regs):
        x, y, work = regs
        return st.just({"op": "SemiAdder", "p": [], "w": None, "kw": {"x_wires": x, "y_wires": y, "work_wires": work}})
    return _registers(wires, [2, 2, 1]).flatmap(mk) if len(wires) >= 5 else st.nothing()


ZOO["SemiAdder"] = (ZOO["SemiAdder"][0], 5, ZOO["SemiAdder"][2])


@_reg_generic("Incrementer", 2, "template", "nomatrix", "decomp", "workwires")
def _incrementer(wires):
    return _registers(wires, [2, 1]).map(lambda r: {"op": "Incrementer", "p": [], "w": r[0], "kw": {"work_wires": r[1]}}) if len(wires) >= 3 else st.nothing()


@_reg_generic("QROM", 3, "template", "nomatrix", "decomp", "workwires")
def _qrom(wires):
    def mk(regs):
        cw, tw = regs
        nb = 2 ** len(cw)
        return st.lists(st.text("01", min_size=len(tw), max_size=len(tw)), min_size=1, max_size=nb).map(
            lambda bs: {"op": "QROM", "p": [], "w": None, "kw": {"bitstrings": bs, "control_wires": cw, "target_wires": tw, "work_wires": None}})
    return _registers(wires, [1, 2]).flatmap(mk)
