"""Additional operator-zoo entries (registered into pv.zoo.ZOO on import) and an extended spec -> object
builder `build(spec)` that understands every node kind of pv.specs.build_op plus

  {"op": "ctrl", ..., "via": "ctrl"|"class"|"callable"}     qp.ctrl(op) | Controlled/ControlledOp2(...) | qp.ctrl(cls, ...)(*args)
  {"op": "prod"|"sum"|"s_prod", ..., "lazy": bool, "via": "fn"|"dunder"}
  {"op": "dot", "coeffs": [...], "operands": [...]}          qp.dot
  {"op": "cob", "compute": e, "target": e, "uncompute": e|None}   qp.change_op_basis
  {"op": "evolution", "base": e, "c": x}                      qp.evolve(H, x) = exp(-i x H)

Leaf classes whose constructor does not fit `cls(*params, wires=..., **kw)` register a function in BUILDERS.
"""
from hypothesis import strategies as st

from pv import gen, specs
from pv.zoo import ZOO, reg  # noqa: F401

BUILDERS = {}


def builder(name):
    def deco(f):
        BUILDERS[name] = f
        return f
    return deco


def _c(x):
    return complex(x["c"][0], x["c"][1]) if isinstance(x, dict) and "c" in x else specs.param(x)


def _w(ws):
    return [specs.wire(w) for w in ws]


def build(s):
    import pennylane as qp

    kind = s["op"]
    if kind == "adjoint":
        return qp.adjoint(build(s["base"]), lazy=s.get("lazy", True))
    if kind == "pow":
        b = build(s["base"])
        if s.get("via") == "dunder":
            return b ** s["z"]
        return qp.pow(b, s["z"], lazy=s.get("lazy", True))
    if kind == "ctrl":
        kw = {}
        if s.get("ww"):
            kw["work_wires"] = _w(s["ww"])
        if s.get("wwt"):
            kw["work_wire_type"] = s["wwt"]
        cw = _w(s["cw"])
        via = s.get("via", "ctrl")
        if via == "callable":
            # qp.ctrl of a quantum function: the function applies the base (a product: its factors in circuit order);
            # the controlled operations it queues, multiplied back in matrix order, are the controlled base
            bs = s["base"]
            parts = list(reversed(bs["operands"])) if bs["op"] == "prod" else [bs]

            def qfunc():
                for part in parts:
                    with qp.QueuingManager.stop_recording():
                        o = build(part)
                    qp.apply(o)

            with qp.queuing.AnnotatedQueue() as q:
                qp.ctrl(qfunc, control=cw, control_values=s.get("cv"), **kw)()
            ops = [o for o in q.queue if isinstance(o, qp.operation.Operator)]
            return ops[0] if len(ops) == 1 else qp.prod(*reversed(ops))
        b = build(s["base"])
        if via == "class":
            from pennylane.core.operator.operator2 import Operator2

            cls = qp.ops.op_math.ControlledOp2 if isinstance(b, Operator2) else qp.ops.Controlled
            return cls(b, cw, control_values=s.get("cv"), **kw)
        return qp.ctrl(b, control=cw, control_values=s.get("cv"), **kw)
    if kind == "prod":
        ops = [build(o) for o in s["operands"]]
        if s.get("via") == "dunder":
            out = ops[0]
            for o in ops[1:]:
                out = out @ o
            return out
        return qp.prod(*ops, lazy=s.get("lazy", True))
    if kind == "sum":
        ops = [build(o) for o in s["operands"]]
        if s.get("via") == "dunder":
            out = ops[0]
            for o in ops[1:]:
                out = out + o
            return out
        return qp.sum(*ops, lazy=s.get("lazy", True))
    if kind == "s_prod":
        b = build(s["base"])
        if s.get("via") == "dunder":
            return _c(s["c"]) * b
        return qp.s_prod(_c(s["c"]), b, lazy=s.get("lazy", True))
    if kind == "exp":
        return qp.exp(build(s["base"]), _c(s["c"]))
    if kind == "evolution":
        return qp.evolve(build(s["base"]), _c(s["c"]))
    if kind == "lincomb":
        return qp.ops.LinearCombination([_c(c) for c in s["coeffs"]], [build(o) for o in s["operands"]])
    if kind == "dot":
        return qp.dot([_c(c) for c in s["coeffs"]], [build(o) for o in s["operands"]])
    if kind == "cob":
        un = build(s["uncompute"]) if s.get("uncompute") is not None else None
        return qp.change_op_basis(build(s["compute"]), build(s["target"]), un)
    if kind in BUILDERS:
        return BUILDERS[kind](s)
    return specs.build_op(s)


def spec_wires(s):
    """Ordered wires of an expression spec (including the extra node kinds)."""
    seen = []

    def add(w):
        w = specs.wire(w)
        if w not in seen:
            seen.append(w)

    def visit(x):
        if not isinstance(x, dict):
            return
        for k in ("cw", "w", "ww"):
            for w in x.get(k) or []:
                add(w)
        kw = x.get("kw") or {}
        for k, v in kw.items():
            if k.endswith("wires") and isinstance(v, list):
                for w in v:
                    if isinstance(w, list) and k in ("x_wires_list",):
                        continue
                    add(w)
            elif k in ("target_wire", "work_wire") and v is not None:
                add(v)
        for k in ("base", "compute", "target", "uncompute", "obs"):
            if isinstance(x.get(k), dict):
                visit(x[k])
        for o in x.get("operands") or []:
            visit(o)

    visit(s)
    return seen


# ---------------------------------------------------------------------------------------------------
# discovery / coverage
# ---------------------------------------------------------------------------------------------------

def discovered_classes():
    """Concrete classes found by walking Operator / Operator2 subclasses under pennylane.*"""
    import pennylane as qp  # noqa: F401
    from pennylane.core.operator import Operator
    from pennylane.core.operator.operator2 import Operator2

    seen = {}

    def walk(c):
        for sub in c.__subclasses__():
            if sub in seen.values():
                continue
            if sub.__module__.startswith("pennylane."):
                seen[sub.__module__ + "." + sub.__qualname__] = sub
            walk(sub)

    walk(Operator)
    walk(Operator2)
    return {k.rsplit(".", 1)[1]: v for k, v in sorted(seen.items())}


# classes documented (tests/ops/functions/conftest.py::_ABSTRACT_OR_META_TYPES) as abstract / meta, plus the
# symbolic wrappers that are reached through the wrapper node kinds instead of a leaf builder
ABSTRACT_OR_META = {
    "Operation", "Channel", "StatePrepBase", "StatePrepBase2", "SymbolicOp", "SymbolicOp2", "ScalarSymbolicOp", "CompositeOp",
    "Controlled2", "CollectedSubroutine", "LabelledOp", "MarkedOp", "FromBloq", "Allocate", "Deallocate",
    "BasisStateProjector", "StateVectorProjector",  # reached through Projector
}
VIA_WRAPPER = {
    "Adjoint": "adjoint", "AdjointOperation": "adjoint", "Adjoint2": "adjoint", "Pow": "pow", "PowOperation": "pow", "Pow2": "pow",
    "Controlled": "ctrl", "ControlledOp": "ctrl", "ControlledOp2": "ctrl", "Prod": "prod", "Sum": "sum", "SProd": "s_prod", "Exp": "exp",
    "Evolution": "evolution", "LinearCombination": "lincomb", "ChangeOpBasis": "cob",
}


def coverage_labels(reached=None):
    """Labels describing zoo coverage: classes discovered vs classes with a builder (leaf or wrapper)."""
    disc = discovered_classes()
    have = set(ZOO) | set(VIA_WRAPPER)
    concrete = [n for n in disc if n not in ABSTRACT_OR_META]
    unc = sorted(n for n in concrete if n not in have)
    labs = [f"zoo:discovered={len(disc)} concrete={len(concrete)} with_builder={len(concrete) - len(unc)}"]
    if unc:
        labs.append("zoo:uncovered=" + ",".join(unc))
    return labs
