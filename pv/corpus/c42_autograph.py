"""Fixed corpus of source-file quantum functions with plain Python control flow for C42 (autograph needs source code).
Executed twice: as plain Python (qp.tape.make_qscript) and through qp.capture.make_plxpr(fn, autograph=True)."""
import pennylane as qp

NWIRES = 4


def loop_static(x):
    for i in range(3):
        qp.RX(x * (i + 1), wires=i)
    qp.CNOT(wires=[0, 1])
    return qp.expval(qp.Z(0) @ qp.Z(1))


def loop_dynamic(x, n):
    for i in range(n):
        qp.RY(x, wires=i % 3)
        if i % 2 == 0:
            qp.CNOT(wires=[i % 3, 3])
    return qp.probs(wires=[0, 3])


def loop_step(x, n):
    for i in range(n, 0, -2):
        qp.RX(x * i, wires=i % 4)
    for j in range(1, n, 2):
        qp.RZ(x + j, wires=0)
    qp.Hadamard(0)
    return qp.expval(qp.X(0)), qp.probs(wires=[1, 2, 3])


def branch(x, k):
    if k > 2:
        qp.RX(x, 0)
    elif k == 1:
        qp.RY(x, 0)
        qp.S(0)
    else:
        qp.RZ(x, 0)
        qp.Hadamard(0)
    return qp.expval(qp.X(0)), qp.expval(qp.Y(0))


def branch_float(x, y):
    if x < y:
        qp.RX(x - y, 0)
    else:
        qp.RY(x + y, 1)
    if x * y > 0.2:
        qp.CZ(wires=[0, 1])
    qp.Hadamard(1)
    return qp.var(qp.X(0) @ qp.Z(1))


def while_fn(x, n):
    i = 0
    while i < n:
        qp.RX(x + i, wires=i % 2)
        i += 1
    qp.CNOT(wires=[0, 1])
    return qp.state()


def carried(x, n):
    acc = x
    for i in range(n):
        acc = acc * 0.5 + 0.1
        qp.RZ(acc, wires=0)
        qp.Hadamard(0)
    qp.RX(acc, wires=1)
    return qp.expval(qp.Z(1)), qp.expval(qp.X(0))


def _helper(x, w, reps):
    for r in range(reps):
        if r % 2 == 1:
            qp.RY(x * r, wires=w)
        else:
            qp.T(w)
    qp.Hadamard(w)


def nested_calls(x, n):
    for i in range(2):
        _helper(x, i, n)
        j = 0
        while j < i:
            qp.CNOT(wires=[j, i])
            j += 1
    _helper(-x, 2, 1)
    qp.adjoint(qp.S(2))
    qp.ctrl(qp.RX(x, 3), control=2)
    return qp.probs(wires=[0, 1, 2, 3])


def nested_loops(x, n, m):
    for i in range(n):
        for j in range(m):
            if i != j:
                qp.CRZ(x * (i - j), wires=[i % 2, 2 + j % 2])
            else:
                qp.Hadamard(i % 4)
    return qp.expval(qp.Z(0) @ qp.Z(2)), qp.expval(qp.X(1))


GRID = {
    "loop_static": [(0.3,), (-1.2,)],
    "loop_dynamic": [(0.4, 0), (0.4, 1), (0.7, 4), (-0.2, 5)],
    "loop_step": [(0.3, 0), (0.3, 1), (0.5, 4), (0.5, 5)],
    "branch": [(0.3, 0), (0.3, 1), (0.3, 2), (0.3, 3), (0.9, 5)],
    "branch_float": [(0.3, 0.9), (0.9, 0.3), (-0.5, -0.7), (0.1, 0.1)],
    "while_fn": [(0.2, 0), (0.2, 1), (0.2, 3)],
    "carried": [(0.4, 0), (0.4, 1), (0.4, 3)],
    "nested_calls": [(0.3, 0), (0.3, 1), (0.6, 3)],
    "nested_loops": [(0.3, 0, 2), (0.3, 2, 0), (0.3, 2, 3), (0.8, 3, 2)],
}
