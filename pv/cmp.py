"""Comparison helpers with stated tolerances."""
import numpy as np


def close(a, b, tol=1e-8):
    a = np.asarray(a)
    b = np.asarray(b)
    if a.shape != b.shape:
        try:
            a, b = np.broadcast_arrays(a, b)
        except ValueError:
            return False
        return False
    scale = max(1.0, float(np.abs(b).max()) if b.size else 1.0)
    return bool(np.all(np.abs(a - b) <= tol * scale))


def maxdiff(a, b):
    a = np.asarray(a)
    b = np.asarray(b)
    if a.shape != b.shape:
        return f"shape {a.shape} vs {b.shape}"
    return float(np.abs(a - b).max()) if a.size else 0.0


def to_np(x):
    """Convert interface tensors / nested tuples to numpy (nested tuples preserved)."""
    if isinstance(x, (tuple, list)):
        return tuple(to_np(y) for y in x)
    if isinstance(x, dict):
        return {k: to_np(v) for k, v in x.items()}
    if hasattr(x, "detach"):
        return x.detach().cpu().numpy()
    return np.asarray(x)


def is_unitary(U, tol=1e-8):
    U = np.asarray(U)
    return close(U.conj().T @ U, np.eye(U.shape[0]), tol)
