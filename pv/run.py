"""CLI: ./check <ID> [--tier quick|thorough] [--replay FILE]"""
import argparse
import os
import sys


def main():
    ap = argparse.ArgumentParser()
    ap.add_argument("pid")
    ap.add_argument("--tier", default=os.environ.get("VERIF_TIER", "quick"), choices=["quick", "thorough"])
    ap.add_argument("--replay")
    a = ap.parse_args()
    from pv import engine

    engine.setup_env()
    try:
        seed = int(os.environ.get("VERIF_SEED", "1") or 1)
    except ValueError:
        seed = 1
    try:
        if a.replay:
            rc = engine.run_replay(a.pid, a.replay)
        else:
            rc = engine.run_check(a.pid, a.tier, seed)
    except SystemExit:
        raise
    except BaseException:  # noqa: BLE001
        import traceback

        traceback.print_exc()
        print(f"HARNESS-ERROR property={a.pid}")
        rc = 2
    sys.stdout.flush()
    os._exit(rc)


if __name__ == "__main__":
    main()
