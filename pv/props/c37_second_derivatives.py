"""C37 — higher-order derivatives are correct."""
import math

import numpy as np
from hypothesis import strategies as st

from pv.cmp import to_np
from pv.engine import Reject, Result, Viol
from pv.props import c34_diff_configs as base
from pv.ref import fd, fresh, hybrid

ID = "C37"
TECHNIQUE = ("hypothesis-generated circuits with 1-4 trainable inputs x {param_shift_hessian on tapes / on QNodes, nested jacobians with "
             "max_diff=2}; oracle = central second differences (6th order, Richardson check) on the independent simulator")
RULE = (
    "tape: a tape on 1-4 wires with 1-4 trainable gate parameters among 2-term (RX..U3, Ising*, MultiRZ, PauliRot), 4-term (CRX/CRY/CRZ/CRot, "
    "IsingXY, SingleExcitation, DoubleExcitation) and multi-frequency gates (2-controlled rotations, OrbitalRotation, evolve(H,t)), other "
    "parameters constant, 1-2 measurements from expval (Pauli words, Hermitian, linear combinations) / probs; qp.gradients."
    "param_shift_hessian(tape, argnum in {None, index list, symmetric boolean mask}, custom diagonal_shifts / off_diagonal_shifts (one tuple "
    "per parameter, length = number of frequencies), f0 given or not), tapes executed on default.qubit; entries outside the requested "
    "argnum must be 0. qnode: param_shift_hessian(QNode)(x) for one array argument of length 1-4 feeding the gates through *linear* "
    "pre-processing (c*x_i, x_i + x_j, shared inputs), autograd / jax / torch inputs, expval measurements. nested: QNode(max_diff=2) with "
    "diff_method parameter-shift / backprop / direct-hadamard, interface autograd / jax / torch, smooth non-linear pre-processing, expval / "
    "var / probs measurements; Hessian of the stacked output by jacobian(jacobian(.)). Oracle: pv.ref.fd.hessian of the whole function on "
    "pv.ref.hybrid/sim, 1e-5 (+ the reference's own error estimate). Non-trivial: an off-diagonal second derivative with |d2| > 1e-3."
)
ASSUMPTIONS = [
    "param_shift_hessian on a QNode contracts with the first-order classical Jacobian only (docstring: 'works best if no classical "
    "processing is applied'), so that kind only uses linear pre-processing, for which this is exact.",
    "Documented rejections: variances / state in param_shift_hessian, operations without a shift rule, hadamard standard/reversed modes "
    "at second order.",
    "Custom shift values are drawn from a list of well-conditioned shift tuples (distinct, not multiples of the period).",
    "Analytic execution on default.qubit; broadcasting is not combined with second derivatives.",
]
BUDGET = {"quick": {"examples": 130, "min_nontrivial": 20}, "thorough": {"examples": 8000, "shards": 16, "min_nontrivial": 300}}
SHRINK_LISTS = ("ops", "meas")

TOL = 1e-5
# number of frequencies of pool gates with custom-shift support
NFREQ = {"RX": 1, "RY": 1, "RZ": 1, "PhaseShift": 1, "U1": 1, "IsingXX": 1, "IsingYY": 1, "IsingZZ": 1, "MultiRZ": 1, "PauliRot": 1,
         "CRX": 2, "CRY": 2, "CRZ": 2, "IsingXY": 2, "SingleExcitation": 2, "DoubleExcitation": 2}
SHIFTS1 = [[math.pi / 2], [math.pi / 3], [0.7], [1.1], [2.0]]
SHIFTS2 = [[math.pi / 2, 3 * math.pi / 2], [0.8, 2.1], [1.0, 2.5], [math.pi / 3, math.pi]]

_val = base._val


@st.composite
def _circuit(draw, leaves_for, n_inputs, meas_kinds, allow_general=True, custom_ok=False):
    """ops + meas; `leaves_for(j)` gives the expression strategy for the j-th trainable slot."""
    n = draw(st.sampled_from([1, 2, 2, 2, 3, 3]))
    wires = draw(st.sampled_from([list(range(6)), ["a", "b", "c", "d", "e", "f"], [3, "x", 0, "q1", 7, 2]]))[:n]

    def sub(k):
        return list(draw(st.permutations(wires)))[:k]

    names = sorted(g for g, (_, k, cls) in base.POOL.items() if k <= n and g != "PSWAP" and (not custom_ok or g in NFREQ))
    ops = []
    for k, w in enumerate(wires):
        ops.append({"op": "U3", "p": [["const", round(0.9 + 0.37 * k, 3)], ["const", round(0.5 - 0.21 * k, 3)], ["const", round(0.3 + 0.13 * k, 3)]], "w": [w]})
    if n >= 2 and draw(st.booleans()):
        ops += [{"op": "CNOT", "p": [], "w": [wires[k], wires[k + 1]]} for k in range(n - 1)]
    slot = [0]

    def par():
        if slot[0] < n_inputs and draw(st.integers(0, 3)) > 0:
            e = draw(leaves_for(slot[0]))
            slot[0] += 1
            return e
        return ["const", draw(_val)]

    target = draw(st.integers(max(1, n_inputs), n_inputs + 2))
    for _ in range(8):
        if slot[0] >= n_inputs and len(ops) >= target + n:
            break
        kind = draw(st.sampled_from(["pool"] * 8 + ["fixed"] * 2 + (["multirz", "paulirot"] if True else []) + (["ctrl2", "evolve", "adjoint"] if allow_general and not custom_ok else [])))
        if kind == "pool":
            g = draw(st.sampled_from(names))
            npar, k, _ = base.POOL[g]
            ops.append({"op": g, "p": [par() for _ in range(npar)], "w": sub(k)})
        elif kind == "fixed":
            g = draw(st.sampled_from(sorted(x for x, k in base.FIXED.items() if k <= n)))
            ops.append({"op": g, "p": [], "w": sub(base.FIXED[g])})
        elif kind == "multirz":
            ops.append({"op": "MultiRZ", "p": [par()], "w": sub(draw(st.integers(1, min(n, 3))))})
        elif kind == "paulirot":
            k = draw(st.integers(1, min(n, 3)))
            ops.append({"op": "PauliRot", "p": [par()], "w": sub(k), "kw": {"pauli_word": draw(st.text("XYZ", min_size=k, max_size=k))}})
        elif kind == "ctrl2" and n >= 3:
            ws = sub(3)
            ops.append({"op": "ctrl", "cw": ws[:2], "cv": [draw(st.integers(0, 1)), 1], "base": {"op": draw(st.sampled_from(["RX", "RY", "RZ"])), "p": [par()], "w": ws[2:]}})
        elif kind == "evolve":
            k = draw(st.integers(1, min(n, 2)))
            ws = sub(k)
            terms = []
            for _ in range(draw(st.integers(1, 2))):
                word = draw(st.text("XYZ", min_size=k, max_size=k))
                b = [{"op": {"X": "PauliX", "Y": "PauliY", "Z": "PauliZ"}[c], "w": [w]} for c, w in zip(word, ws)]
                terms.append(b[0] if k == 1 else {"op": "prod", "operands": b})
            ops.append({"op": "evolve", "H": terms[0] if len(terms) == 1 else {"op": "sum", "operands": terms}, "t": par()})
        elif kind == "adjoint":
            g = draw(st.sampled_from([x for x in names if x in ("RX", "RY", "CRX", "IsingXX", "PhaseShift")]))
            npar, k, _ = base.POOL[g]
            ops.append({"op": "adjoint", "base": {"op": g, "p": [par() for _ in range(npar)], "w": sub(k)}})
    while slot[0] < n_inputs:  # every input is used at least once
        e = draw(leaves_for(slot[0]))
        slot[0] += 1
        ops.append({"op": draw(st.sampled_from(["RX", "RY", "RZ"])), "p": [e], "w": sub(1)})
    meas = []
    for _ in range(draw(st.sampled_from([1, 1, 2]))):
        mk = draw(st.sampled_from(meas_kinds))
        if mk == "probs":
            meas.append({"mp": "probs", "w": sub(draw(st.integers(1, min(n, 2))))})
        else:
            meas.append({"mp": mk, "obs": draw(base._observable(wires))})
    return {"wires": wires, "ops": ops, "meas": meas}


@st.composite
def _tape_case(draw, tier):
    n = draw(st.sampled_from([1, 2, 2, 3, 3, 4]))
    custom = draw(st.integers(0, 3)) == 0
    circ = draw(_circuit(lambda j: st.just(["arg", j, None]), n, ["expval", "expval", "probs"], custom_ok=custom))
    args = [{"shape": [], "val": [draw(_val)]} for _ in range(n)]
    kw = {}
    if custom:
        kw["custom"] = draw(st.integers(0, 10**6))
    else:
        a = draw(st.sampled_from(["none", "none", "list", "mask"]))
        if a == "list":
            kw["argnum"] = sorted(draw(st.lists(st.integers(0, n - 1), min_size=1, max_size=n, unique=True)))
        elif a == "mask":
            bits = draw(st.lists(st.booleans(), min_size=n * (n + 1) // 2, max_size=n * (n + 1) // 2))
            M = [[False] * n for _ in range(n)]
            it = iter(bits)
            for i in range(n):
                for j in range(i, n):
                    M[i][j] = M[j][i] = next(it)
            if not any(any(r) for r in M):
                M[0][0] = True
            kw["argnum"] = M
    kw["f0"] = draw(st.integers(0, 3)) == 0
    return {"kind": "tape", "prog": {"args": args, **circ}, "kw": kw}


@st.composite
def _qnode_case(draw, tier):
    k = draw(st.sampled_from([1, 2, 2, 2, 3, 3, 4]))
    leaves = [["arg", 0, i] for i in range(k)]
    c = st.sampled_from([-2.0, -0.5, 0.7, 1.5])

    def lin(j):
        own = st.just(leaves[j])
        other = st.sampled_from(leaves)
        return st.one_of(own, own, st.tuples(st.just("mul"), c, own).map(list), st.tuples(st.just("add"), own, other).map(list),
                         st.tuples(st.just("add"), st.tuples(st.just("mul"), c, other).map(list), own).map(list))

    circ = draw(_circuit(lin, k, ["expval"]))
    args = [{"shape": [k], "val": [draw(_val) for _ in range(k)]}]
    return {"kind": "qnode", "prog": {"args": args, **circ}, "iface": draw(st.sampled_from(["autograd", "autograd", "jax", "torch"]))}


@st.composite
def _nested_case(draw, tier):
    k = draw(st.sampled_from([1, 2, 2, 3, 3, 4] if tier == "thorough" else [1, 2, 2, 2, 2, 3, 3]))
    leaves = [["arg", 0, i] for i in range(k)]

    def nl(j):
        return st.one_of(st.just(leaves[j]), st.just(leaves[j]), base._expr(leaves, 1), base._expr(leaves, 2))

    method = draw(st.sampled_from(["parameter-shift", "parameter-shift", "parameter-shift", "backprop", "backprop", "direct-hadamard"]))
    kinds = ["expval", "expval", "probs", "var"] if method != "direct-hadamard" else ["expval"]
    circ = draw(_circuit(nl, k, kinds))
    args = [{"shape": [k], "val": [draw(_val) for _ in range(k)]}]
    return {"kind": "nested", "prog": {"args": args, **circ}, "iface": draw(st.sampled_from(["autograd", "autograd", "jax", "torch"])), "method": method}


def strategy(tier):
    return st.integers(0, 9).flatmap(lambda i: _tape_case(tier) if i < 4 else _qnode_case(tier) if i < 6 else _nested_case(tier))


# ------------------------------------------------------------------------------------------------ helpers

def _dense_hessian(H, n, mshape, what, sig):
    """PennyLane's (nested tuple | tensor) Hessian of one measurement -> array (prod(mshape), n, n)."""
    A = np.asarray(to_np(H) if not isinstance(H, (tuple, list)) else _nested_to_array(H), dtype=float)
    size = int(np.prod(mshape, dtype=int))
    if A.size != n * n * size:
        raise Viol("structure", f"{what}: Hessian with {A.size} entries (shape {A.shape}), expected {n}x{n}x{mshape}", sig=sig + ":structure")
    if A.shape[:2] == (n, n) or n == 1:
        return np.moveaxis(A.reshape((n, n, size)), -1, 0)
    if A.shape[-2:] == (n, n):
        return A.reshape((size, n, n))
    raise Viol("structure", f"{what}: unexpected Hessian layout {A.shape}", sig=sig + ":structure")


def _nested_to_array(H):
    if isinstance(H, (tuple, list)):
        return np.stack([_nested_to_array(h) for h in H])
    return np.asarray(to_np(H), dtype=float)


def _mshapes(prog):
    return [(2 ** len(m["w"]),) if m["mp"] == "probs" else () for m in prog["meas"]]


def _ref_hessian(prog):
    try:
        H, err = fd.hessian(hybrid.reference_flat(prog), hybrid.flat_x(prog))
    except fd.FDError:
        raise Reject("reference finite differences did not converge") from None
    return np.real(H), err  # (n_out, n, n)


def _compare(spec, got, ref, err, sig, feats, mask=None):
    n = ref.shape[-1]
    exp = ref if mask is None else ref * np.asarray(mask, dtype=float)[None]
    scale = max(1.0, float(np.abs(ref).max()))
    d = np.abs(got - exp)
    if not np.all(np.isfinite(got)) or d.max() > TOL * scale + 10 * err:
        i = np.unravel_index(np.argmax(d), d.shape)
        if not fresh.confirm(ID, spec, ("value", sig)):
            raise Reject("violation not reproduced in a fresh process (state left by an earlier case)")
        raise Viol("value", f"{sig}: d2 out[{i[0]}]/dx[{i[1]}]dx[{i[2]}] = {got[i]:.9g}, reference {exp[i]:.9g}; got={np.round(got, 6).tolist()} "
                            f"ref={np.round(exp, 6).tolist()}", sig=sig, features=feats)
    off = exp[:, ~np.eye(n, dtype=bool)] if n > 1 else np.zeros(1)
    return bool(np.abs(off).max() > 1e-3) if off.size else False


_REJECT = [
    ("ValueError", "Computing the Hessian of circuits that return variances"),
    ("ValueError", "Computing the Hessian of circuits that return the state"),
    ("ValueError", "The parameter-shift Hessian currently does not support the operations"),
    ("ValueError", "The analytic gradient method cannot be used with the parameter(s)"),
    ("ValueError", "Higher order derivatives with hadamard gradients in standard and reversed modes"),
    ("ValueError", "Computing the gradient of variances with the"),
    ("ValueError", "Computing the gradient of probabilities with the"),
]


def _exception(e, rerun, sig, feats):
    """Documented rejection -> Reject; reproducible exception of the code under test -> violation with features."""
    from pv.engine import _origin

    if _rejected(e):
        raise Reject(_rejected(e)[:70]) from None
    origin, where = _origin(e.__traceback__)
    if origin != "sut":
        raise e
    try:
        rerun()
    except Exception:  # noqa: BLE001
        raise Viol("unexpected-exception", f"{type(e).__name__}: {e}"[:600], sig=f"{type(e).__name__}@{where}",
                   features=dict(feats, exc=type(e).__name__, where=where)) from None
    raise Reject("exception not reproduced on a second evaluation (state left by an earlier case)") from None


def _rejected(e):
    for n, pat in _REJECT:
        if type(e).__name__ == n and pat in str(e):
            return pat
    return None


# ------------------------------------------------------------------------------------------------ tape kind

def _check_tape(spec):
    import pennylane as qp

    prog, kw = spec["prog"], spec["kw"]
    n = len(prog["args"])
    vals = hybrid.arg_values(prog)
    ops, train, k = [], [], 0
    freq_counts = {}
    for o in prog["ops"]:
        exprs = hybrid.op_exprs(o)
        ops.append(hybrid.build_pl_op(hybrid.subst(o, lambda e: float(hybrid.ev(e, vals)))))
        for e in exprs:
            if not hybrid.is_const(e):
                train.append((k, e[1]))
                freq_counts[e[1]] = NFREQ.get(o["op"])
            k += 1
    train.sort(key=lambda t: t[0])
    order = [a for _, a in train]  # tape trainable position -> argument index
    if sorted(order) != list(range(n)):
        raise Reject("an input is unused or used twice")
    meas = [hybrid.specs.build_meas(m) for m in prog["meas"]]
    tape = qp.tape.QuantumScript(ops, meas, trainable_params=[i for i, _ in train])
    call = {}
    labels = ["tape", f"n={n}"]
    mask = None
    if "custom" in kw:
        if any(freq_counts[a] is None for a in order):
            raise Reject("custom shifts need a known number of frequencies")
        rng = np.random.default_rng(kw["custom"])

        def pick(a):
            lst = SHIFTS1 if freq_counts[a] == 1 else SHIFTS2
            return tuple(lst[int(rng.integers(0, len(lst)))])
        call["diagonal_shifts"] = [pick(a) for a in order]
        if n >= 2:
            call["off_diagonal_shifts"] = [pick(a) for a in order]
        labels.append("custom-shifts")
    elif "argnum" in kw:
        a = kw["argnum"]
        if isinstance(a[0], list):
            call["argnum"] = np.array(a, dtype=bool)
            m_t = np.array(a, dtype=bool)
            labels.append("argnum:mask")
        else:
            call["argnum"] = list(a)
            m_t = np.zeros((n, n), dtype=bool)
            m_t[np.ix_(a, a)] = True
            labels.append("argnum:list")
        # mask is given over trainable tape positions; convert to argument order
        mask = np.zeros((n, n), dtype=bool)
        for i in range(n):
            for j in range(n):
                mask[order[i], order[j]] = m_t[i, j]
    dev = qp.device("default.qubit")
    if kw.get("f0"):
        r0 = dev.execute(tape)
        call["f0"] = r0
        labels.append("f0")
    sig = "param_shift_hessian:tape" + (":custom" if "custom" in kw else ":argnum" if "argnum" in kw else "") + (
        ":f0-single" if kw.get("f0") and len(prog["meas"]) == 1 else "")
    def run():
        tapes, fn = qp.gradients.param_shift_hessian(tape, **call)
        return fn(dev.execute(tapes) if len(tapes) else ())

    tfeats = {"kind": "tape", "custom": "custom" in kw, "argnum": "argnum" in kw, "f0_single_measurement": bool(kw.get("f0")) and len(meas) == 1}
    try:
        H = run()
    except Exception as e:  # noqa: BLE001
        _exception(e, run, sig, tfeats)
    mshapes = _mshapes(prog)
    per = [H] if len(meas) == 1 else list(H)
    if len(per) != len(meas):
        raise Viol("structure", f"{len(per)} Hessians for {len(meas)} measurements", sig=sig + ":structure")
    rows = []
    for Hm, ms in zip(per, mshapes):
        D = _dense_hessian(Hm, n, ms, "param_shift_hessian(tape)", sig)
        # reorder trainable positions -> argument indices
        P = np.zeros_like(D)
        for i in range(n):
            for j in range(n):
                P[:, order[i], order[j]] = D[:, i, j]
        rows.append(P)
    got = np.concatenate(rows, axis=0)
    ref, err = _ref_hessian(prog)
    nt = _compare(spec, got, ref, err, sig, tfeats, mask)
    return Result(nt, labels + _gate_labels(prog))


def _gate_labels(prog):
    out = set()
    for o in prog["ops"]:
        if any(not hybrid.is_const(e) for e in hybrid.op_exprs(o)):
            out.add("gate:" + (base.POOL[o["op"]][2] if o["op"] in base.POOL else "2term" if o["op"] in ("MultiRZ", "PauliRot") else o["op"]))
    out |= {"meas:" + m["mp"] for m in prog["meas"]}
    return sorted(out)


# ------------------------------------------------------------------------------------------------ QNode kinds

def _check_qnode(spec):
    import pennylane as qp

    prog, iface = spec["prog"], spec["iface"]
    k = prog["args"][0]["shape"][0]
    base._setup_frameworks(iface)
    cfg = {"iface": iface, "method": "parameter-shift", "gk": {}, "devwires": "none"}
    circuit = base.build_qnode(prog, cfg, max_diff=2)
    x = base._to_iface(hybrid.arg_values(prog)[0], iface)
    sig = f"param_shift_hessian:qnode:{iface}"
    nm = len(prog["meas"])
    ngate = sum(1 for e in hybrid.program_exprs(prog) if not hybrid.is_const(e))
    qfeats = {"kind": "qnode", "iface": iface, "torch_qnode_hessian": iface == "torch" and (nm >= 2 or ngate == 1)}

    def run():
        return qp.gradients.param_shift_hessian(circuit)(x)

    try:
        H = run()
    except Exception as e:  # noqa: BLE001
        _exception(e, run, sig, qfeats)
    per = [H] if nm == 1 else list(H)
    if len(per) != nm:
        raise Viol("structure", f"{len(per)} Hessians for {nm} measurements", sig=sig + ":structure", features=qfeats)
    got = np.concatenate([_dense_hessian(h, k, (), "param_shift_hessian(qnode)", sig) for h in per], axis=0)
    ref, err = _ref_hessian(prog)
    nt = _compare(spec, got, ref, err, sig, qfeats)
    shared = len({tuple(sorted(hybrid.deps(e))) for e in hybrid.program_exprs(prog) if not hybrid.is_const(e)}) < sum(
        1 for e in hybrid.program_exprs(prog) if not hybrid.is_const(e))
    return Result(nt, ["qnode", f"qnode:{iface}", f"n={k}"] + (["shared-input"] if shared else []) + _gate_labels(prog))


def _check_nested(spec):
    import pennylane as qp

    prog, iface, method = spec["prog"], spec["iface"], spec["method"]
    k = prog["args"][0]["shape"][0]
    base._setup_frameworks(iface)
    cfg = {"iface": iface, "method": "hadamard" if method == "direct-hadamard" else method, "gk": {}, "devwires": "none",
           "mode": "direct", "alias": True, "aux": "none"}
    circuit = base.build_qnode(prog, cfg, max_diff=2)
    cost = base.stacked(circuit)
    x = base._to_iface(hybrid.arg_values(prog)[0], iface)
    sig = f"nested:{method}:{iface}"
    def _nonpauli(o):
        return o["op"] in ("Hermitian", "sum", "s_prod") or any(_nonpauli(x) for x in o.get("operands", []))

    # direct / reversed-direct hadamard_grad marks every parameter of its derivative tapes trainable, so the second-order pass also
    # differentiates gates without a generator even when their parameters are constants (every generated circuit starts with a constant
    # U3 layer): input class = direct-hadamard second order on a circuit containing a generator-less gate
    nogen = any(o["op"] in ("U2", "U3", "Rot", "CRot") for o in base._walk_ops(prog["ops"]))
    nfeats = {"kind": "nested", "iface": iface, "method": method,
              "hadamard_autograd_multi_second_order": method == "direct-hadamard" and iface == "autograd" and len(prog["meas"]) >= 2,
              "hadamard_second_order_no_generator": method == "direct-hadamard" and nogen,
              "jax_second_order_obs_param": iface == "jax" and method == "parameter-shift" and any(_nonpauli(m["obs"]) for m in prog["meas"] if m.get("obs")),
              "torch_second_order_var": iface == "torch" and method == "parameter-shift" and any(m["mp"] == "var" for m in prog["meas"]),
              "autograd_multi_measurement": iface == "autograd" and method != "backprop" and len(prog["meas"]) >= 2}

    def run():
        if iface == "autograd":
            return qp.jacobian(qp.jacobian(cost))(x)
        if iface == "jax":
            import jax
            return jax.jacobian(jax.jacobian(cost))(x)
        import torch
        return torch.autograd.functional.jacobian(lambda y: torch.autograd.functional.jacobian(cost, y, create_graph=True), x)

    try:
        H = run()
    except Exception as e:  # noqa: BLE001
        _exception(e, run, sig, nfeats)
    got = np.asarray(to_np(H), dtype=float)
    ref, err = _ref_hessian(prog)
    if got.shape != ref.shape:
        raise Viol("shape", f"{sig}: Hessian shape {got.shape}, expected {ref.shape}", sig=sig + ":shape")
    nt = _compare(spec, got, ref, err, sig, nfeats)
    pre = any(e[0] not in ("arg", "const") for e in hybrid.program_exprs(prog))
    return Result(nt, ["nested", f"nested:{method}", f"nested:{iface}", f"n={k}"] + (["preprocessing"] if pre else []) + _gate_labels(prog))


def check(spec):
    return {"tape": _check_tape, "qnode": _check_qnode, "nested": _check_nested}[spec["kind"]](spec)


def selftest():
    fd.selftest()
    hybrid.selftest()
    A = _dense_hessian(((np.array([1., 2.]), np.array([3., 4.])), (np.array([3., 4.]), np.array([5., 6.]))), 2, (2,), "t", "s")
    assert A.shape == (2, 2, 2) and A[1, 0, 1] == 4.0 and A[0, 1, 1] == 5.0
