"""C42 — program capture round-trips quantum functions: a structured program interpreted with plain Python control flow
(tape built directly) equals the same program interpreted with qp.for_loop / while_loop / cond / adjoint / ctrl /
subroutines under qp.capture, captured with make_plxpr(autograph=False) and converted back with plxpr_to_tape."""
import numpy as np
from hypothesis import strategies as st

from pv.cmp import close, maxdiff
from pv.engine import Reject, Result, Viol
from pv.ref import sim

ID = "C42"
TECHNIQUE = ("hypothesis-generated JSON programs run by a two-mode closure interpreter (plain Python semantics vs qp control flow under "
             "capture -> make_plxpr -> plxpr_to_tape); operation lists and independent numpy simulation compared; plxpr transforms vs tape "
             "transforms; fixed autograph source corpus")
RULE = (
    "Program: 2-3 data wires (+2 control wires), 1-2 dynamic float args, 1 dynamic int arg, nested blocks (depth <= 3, <= ~16 nodes) "
    "of gates (RX/RY/RZ/PhaseShift/Rot/H/X/S/T/SX/CNOT/CZ/SWAP/CRX/CRZ/IsingXX/MultiRZ/PauliRot) whose angles are affine in the float "
    "scope (args, carried values) and whose wires are affine in the int scope (int arg, loop indices) modulo the wire count; "
    "qp.for_loop (static and dynamic bounds, steps +-1..3, empty ranges, optional carried float), qp.while_loop (bounded counter, "
    "carried float), qp.cond with 0-2 elifs / optional else on predicates over dynamic ints and floats (optionally returning a "
    "float), qp.adjoint(fn, lazy) and qp.ctrl(fn, control, control_values) of closures (scope passed as arguments or closed over), "
    "subroutines (plain nested functions, qp.capture.subroutine, qp.templates.Subroutine; nested calls), measurements expval / "
    "var of Pauli words and of sums with dynamic coefficients, probs, state. Oracles: (1) the operation list of "
    "plxpr_to_tape(make_plxpr(f, autograph=False)(*args), *args) equals the list produced by the plain-Python interpretation "
    "(class, wires, parameters 1e-10, wrapper structure) and pv.ref.sim results agree (1e-9); (2) the jaxpr captured at args A and "
    "converted at other args B equals the direct build at B; (3) re-tracing through the identity PlxprInterpreter preserves (1); "
    "(4) every transform with a plxpr implementation (discovered: <name>_plxpr_to_plxpr / plxpr_transform) applied to the jaxpr and "
    "to the direct tape gives equal reference results. Autograph: the functions in pv/corpus/c42_autograph.py (Python "
    "for/while/if/nested calls) captured with autograph=True vs executed as plain Python, over an argument grid. Every case runs "
    "between qp.capture.enable()/disable() in try/finally and first asserts that capture is disabled (leak = harness error). "
    "Two fixed RY rotations put the control wires in superposition. Non-trivial: >= 2 control-flow constructs executed with >= 3 "
    "generated operations recorded."
)
ASSUMPTIONS = [
    "jax x64 is enabled by the launcher (JAX_ENABLE_X64=1).",
    "No mid-circuit measurements in the generated programs (their conversion is covered with the MCM properties); cond "
    "predicates are classical values.",
    "Only transforms that expose a plxpr implementation in this tree are compared (currently decompose).",
]
BUDGET = {"quick": {"examples": 110}, "thorough": {"examples": 2500, "shards": 8}}
SHRINK_LISTS = ("body", "true", "false", "meas", "subs")

G1P = ["RX", "RY", "RZ", "PhaseShift"]
G1 = ["Hadamard", "PauliX", "S", "T", "SX"]
G2 = ["CNOT", "CZ", "SWAP"]
G2P = ["CRX", "CRZ", "IsingXX", "MultiRZ", "PauliRot"]

# ----------------------------------------------------------------------------------------------
# strategies
# ----------------------------------------------------------------------------------------------
coef = st.sampled_from([0.5, -0.5, 1.0, -1.0, 2.0, 0.25])
const = st.floats(-2, 2, allow_nan=False).map(lambda x: round(x, 3))
ref = st.integers(0, 3)


def fexpr():
    return st.tuples(const, st.lists(st.tuples(coef, ref), max_size=2), st.lists(st.tuples(st.sampled_from([0.5, 1.0, -1.0]), ref), max_size=1)).map(
        lambda t: {"c": t[0], "t": [list(x) for x in t[1]], "it": [list(x) for x in t[2]]})


def iexpr():
    return st.tuples(st.integers(-2, 4), st.lists(st.tuples(st.sampled_from([1, 1, -1, 2]), ref), max_size=2)).map(
        lambda t: {"c": t[0], "t": [list(x) for x in t[1]]})


def pred():
    return st.one_of(
        st.tuples(st.sampled_from(["<", ">=", "==", "!="]), iexpr(), st.integers(-1, 4)).map(lambda t: {"on": "i", "cmp": t[0], "l": t[1], "r": t[2]}),
        st.tuples(st.sampled_from(["<", ">="]), fexpr(), const).map(lambda t: {"on": "f", "cmp": t[0], "l": t[1], "r": t[2]}))


def gate():
    return st.tuples(st.sampled_from(G1P + G1P + G1 + G2 + G2P + ["Rot"]), iexpr(), iexpr(), fexpr(), fexpr(), fexpr()).map(
        lambda t: {"k": "op", "g": t[0], "w": t[1], "w2": t[2], "a": t[3], "b": t[4], "c": t[5]})


@st.composite
def block(draw, depth, nsubs, max_len=3):
    n = draw(st.integers(1, max_len))
    out = []
    for _ in range(n):
        kinds = ["op", "op", "op"]
        if depth > 0:
            kinds += ["for", "for", "while", "cond", "cond", "adjoint", "ctrl"]
        if nsubs:
            kinds += ["call"]
        k = draw(st.sampled_from(kinds))
        if k == "op":
            out.append(draw(gate()))
        elif k == "for":
            out.append({"k": "for", "start": draw(iexpr()), "len": draw(st.integers(-1, 3)), "step": draw(st.sampled_from([1, 1, 2, 3, -1, -1, -2])),
                        "carry": draw(st.one_of(st.none(), st.tuples(fexpr(), st.sampled_from([0.5, 1.0, -1.0]), const).map(
                            lambda t: {"init": t[0], "m": t[1], "d": t[2]}))),
                        "body": draw(block(depth - 1, nsubs, 2))})
        elif k == "while":
            out.append({"k": "while", "k0": draw(st.integers(0, 2)), "n": draw(iexpr()), "inc": draw(st.sampled_from([1, 1, 2])),
                        "carry": {"init": draw(fexpr()), "m": draw(st.sampled_from([0.5, 1.0, -1.0])), "d": draw(const)},
                        "body": draw(block(depth - 1, nsubs, 2))})
        elif k == "cond":
            ret = draw(st.booleans())
            ne = draw(st.sampled_from([0, 1, 1, 2]))
            out.append({"k": "cond", "pred": draw(pred()), "true": draw(block(depth - 1, nsubs, 2)),
                        "elifs": [{"pred": draw(pred()), "body": draw(block(depth - 1, nsubs, 2)), "ret": draw(fexpr())} for _ in range(ne)],
                        "false": draw(block(depth - 1, nsubs, 2)) if (ret or draw(st.booleans())) else None,
                        "ret": ({"true": draw(fexpr()), "false": draw(fexpr())} if ret else None)})
        elif k == "adjoint":
            out.append({"k": "adjoint", "lazy": draw(st.booleans()), "closure": draw(st.booleans()), "body": draw(block(depth - 1, nsubs, 3))})
        elif k == "ctrl":
            out.append({"k": "ctrl", "cv": draw(st.sampled_from([True, False, False])), "closure": draw(st.booleans()), "dyn": draw(st.sampled_from([False] * 6 + [True])),
                        "body": draw(block(depth - 1, nsubs, 2))})
        else:
            out.append({"k": "call", "sub": draw(st.integers(0, nsubs - 1)), "style": draw(st.sampled_from(["plain", "capsub", "Subroutine"])),
                        "a": draw(fexpr()), "w": draw(iexpr())})
    return out


@st.composite
def program(draw, tier):
    n = draw(st.integers(2, 3))
    nsubs = draw(st.integers(0, 2))
    subs = []
    for j in range(nsubs):
        subs.append({"body": draw(block(1, j, 3))})      # sub j may call subs < j
    body = draw(block(3 if tier == "thorough" else 2, nsubs, 4))
    nf = draw(st.integers(1, 2))
    args = {"f": [draw(const) for _ in range(nf)], "i": [draw(st.integers(0, 3))]}
    args2 = {"f": [draw(const) for _ in range(nf)], "i": [draw(st.integers(0, 3))]}
    wires = list(range(n))
    mopts = [st.tuples(st.sampled_from(["expval", "var"]), st.lists(st.sampled_from("XYZ"), min_size=1, max_size=n), st.permutations(wires)).map(
                 lambda t: {"mp": t[0], "word": "".join(t[1]), "w": list(t[2])[:len(t[1])]}),
             st.tuples(fexpr(), st.sampled_from("XYZ"), st.sampled_from(wires), st.sampled_from("XYZ"), st.sampled_from(wires)).map(
                 lambda t: {"mp": "expval_sum", "coef": t[0], "p1": t[1], "w1": t[2], "p2": t[3], "w2": t[4]}),
             st.permutations(wires).flatmap(lambda p: st.integers(1, n).map(lambda k: {"mp": "probs", "w": list(p)[:k]})),
             st.just({"mp": "state"})]
    meas = draw(st.lists(st.one_of(*mopts), min_size=1, max_size=3))
    return {"kind": "program", "n": n, "subs": subs, "body": body, "args": args, "args2": args2, "meas": meas}


def strategy(tier):
    return program(tier)


def enumerate_cases(tier):
    from pv.corpus import c42_autograph as C

    for name, grid in C.GRID.items():
        for args in grid:
            yield {"kind": "autograph", "fn": name, "args": list(args)}


# ----------------------------------------------------------------------------------------------
# the two-mode interpreter
# ----------------------------------------------------------------------------------------------

class Stats:
    def __init__(self):
        self.constructs = 0
        self.kinds = set()


class Interp:
    """mode 'py': plain Python control flow, concrete values, operations appended to explicit lists (the semantics of
    adjoint / ctrl of a block are spelled out: reversed adjoints / element-wise controls).
    mode 'cap': the same program through qp.for_loop / while_loop / cond / adjoint / ctrl / subroutines, operations
    emitted by calling the constructors (must run inside capture)."""

    def __init__(self, spec, mode, stats=None):
        import pennylane as qp

        self.qp = qp
        self.spec = spec
        self.mode = mode
        self.n = spec["n"]
        self.stats = stats or Stats()
        self._sub_cache = {}

    # ---- expressions -------------------------------------------------------------------------
    @staticmethod
    def _get(scope, r):
        return scope[-1 - (r % len(scope))] if scope else 0

    def fval(self, e, fv, iv):
        v = e["c"]
        for c, r in e["t"]:
            if fv:
                v = v + c * self._get(fv, r)
        for c, r in e.get("it", []):
            if iv:
                v = v + c * self._get(iv, r)
        return v

    def ival(self, e, iv):
        v = e["c"]
        for c, r in e["t"]:
            if iv:
                v = v + c * self._get(iv, r)
        return v

    def pval(self, p, fv, iv):
        l = self.ival(p["l"], iv) if p["on"] == "i" else self.fval(p["l"], fv, iv)
        r = p["r"]
        return {"<": lambda: l < r, ">=": lambda: l >= r, "==": lambda: l == r, "!=": lambda: l != r}[p["cmp"]]()

    def _f64(self, v):
        if self.mode == "py":
            return float(v)
        import jax.numpy as jnp
        return jnp.asarray(v, dtype=jnp.float64)

    # ---- operations --------------------------------------------------------------------------
    def emit(self, s, fv, iv, out, woff=0):
        qp = self.qp
        n = self.n
        w = (self.ival(s["w"], iv) + woff) % n
        w2 = (w + 1 + (self.ival(s["w2"], iv) % (n - 1))) % n
        a = self.fval(s["a"], fv, iv)
        if self.mode == "py":
            w, w2, a = int(w), int(w2), float(a)
        g = s["g"]
        if g in G1P:
            op = getattr(qp, g)(a, wires=w)
        elif g in G1:
            op = getattr(qp, g)(wires=w)
        elif g in G2:
            op = getattr(qp, g)(wires=[w, w2])
        elif g == "Rot":
            b, c = self.fval(s["b"], fv, iv), self.fval(s["c"], fv, iv)
            if self.mode == "py":
                b, c = float(b), float(c)
            op = qp.Rot(a, b, c, wires=w)
        elif g == "PauliRot":
            op = qp.PauliRot(a, "XY", wires=[w, w2])
        else:
            op = getattr(qp, g)(a, wires=[w, w2])
        if self.mode == "py":
            out.append(op)

    # ---- blocks ------------------------------------------------------------------------------
    def run(self, body, fv, iv, out, depth=0, woff=0):
        """Interpret a block; returns nothing (scopes are extended locally by carried / returned values)."""
        fv = list(fv)
        iv = list(iv)
        for s in body:
            k = s["k"]
            if k == "op":
                self.emit(s, fv, iv, out, woff)
                continue
            self.stats.constructs += 1
            self.stats.kinds.add(k + (":" + s["style"] if k == "call" else ""))
            fv = getattr(self, "_" + k)(s, fv, iv, out, depth, woff)

    def _for(self, s, fv, iv, out, depth, woff):
        start = self.ival(s["start"], iv)
        stop = start + s["len"] * s["step"]
        step = s["step"]
        carry = s["carry"]
        if self.mode == "py":
            x = float(self.fval(carry["init"], fv, iv)) if carry else None
            its = 0
            for i in range(int(start), int(stop), step):
                its += 1
                self.run(s["body"], fv + ([x] if carry else []), iv + [i], out, depth, woff)
                if carry:
                    x = x * carry["m"] + carry["d"]
            if its >= 2:
                self.stats.kinds.add("for>=2")
            return fv + [x] if carry else fv
        qp = self.qp
        if carry:
            @qp.for_loop(start, stop, step)
            def loop(i, x):
                self.run(s["body"], fv + [x], iv + [i], out, depth, woff)
                return x * carry["m"] + carry["d"]

            x = loop(self._f64(self.fval(carry["init"], fv, iv)))
            return fv + [x]

        @qp.for_loop(start, stop, step)
        def loop0(i):
            self.run(s["body"], fv, iv + [i], out, depth, woff)

        loop0()
        return fv

    def _while(self, s, fv, iv, out, depth, woff):
        n = self.ival(s["n"], iv)
        carry = s["carry"]
        k0 = s["k0"]
        if self.mode == "py":
            k, x = k0, float(self.fval(carry["init"], fv, iv))
            its = 0
            while k < n and its < 8:      # `its` bound mirrored in capture mode through the predicate below
                its += 1
                self.run(s["body"], fv + [x], iv + [k], out, depth, woff)
                k, x = k + s["inc"], x * carry["m"] + carry["d"]
            return fv + [x]
        qp = self.qp

        @qp.while_loop(lambda k, x, its: (k < n) & (its < 8))
        def wl(k, x, its):
            self.run(s["body"], fv + [x], iv + [k], out, depth, woff)
            return k + s["inc"], x * carry["m"] + carry["d"], its + 1

        _, x, _ = wl(k0, self._f64(self.fval(carry["init"], fv, iv)), 0)
        return fv + [x]

    def _cond(self, s, fv, iv, out, depth, woff):
        ret = s["ret"]
        branches = [(s["pred"], s["true"], ret["true"] if ret else None)] + [(e["pred"], e["body"], e["ret"] if ret else None) for e in s["elifs"]]
        if self.mode == "py":
            for j, (p, body, r) in enumerate(branches):
                if bool(self.pval(p, fv, iv)):
                    if j:
                        self.stats.kinds.add("cond:elif")
                    self.run(body, fv, iv, out, depth, woff)
                    return fv + [float(self.fval(r, fv, iv))] if ret else fv
            if s["false"] is not None:
                self.stats.kinds.add("cond:else")
                self.run(s["false"], fv, iv, out, depth, woff)
            return fv + [float(self.fval(ret["false"], fv, iv))] if ret else fv
        qp = self.qp

        def mk(body, r):
            def fn():
                self.run(body, fv, iv, out, depth, woff)
                if ret:
                    return self._f64(self.fval(r, fv, iv))
                return None
            return fn

        fns = [mk(b, r) for _, b, r in branches]
        false_fn = mk(s["false"], ret["false"] if ret else None) if s["false"] is not None else None
        preds = [self.pval(p, fv, iv) for p, _, _ in branches]
        res = qp.cond(preds[0], fns[0], false_fn, elifs=list(zip(preds[1:], fns[1:])))()
        return fv + [res] if ret else fv

    def _adjoint(self, s, fv, iv, out, depth, woff):
        if self.mode == "py":
            sub = []
            self.run(s["body"], fv, iv, sub, depth, woff)
            out.extend(self.qp.adjoint(op, lazy=s["lazy"]) for op in reversed(sub))
            return fv
        self._transform_call(lambda fn: self.qp.adjoint(fn, lazy=s["lazy"]), s, fv, iv, out, depth, woff)
        return fv

    def _ctrl(self, s, fv, iv, out, depth, woff):
        qp = self.qp
        cw = self.n + depth                   # one dedicated control wire per nesting level
        if depth >= 2:                        # no free control wire left: plain block
            self.run(s["body"], fv, iv, out, depth, woff)
            return fv
        cv = [bool(s["cv"])]
        if self.mode == "py":
            sub = []
            self.run(s["body"], fv, iv, sub, depth + 1, woff)
            out.extend(qp.ctrl(op, control=[cw], control_values=cv) for op in sub)
            return fv
        cwd = cw + 0 * self._get(iv, 0) if (s["dyn"] and iv) else cw      # dynamic (traced) control wire with a static value
        self._transform_call(lambda fn: qp.ctrl(fn, control=[cwd], control_values=cv), s, fv, iv, out, depth + 1, woff)
        return fv

    def _transform_call(self, wrap, s, fv, iv, out, depth, woff):
        if s["closure"] or not (fv or iv):
            wrap(lambda: self.run(s["body"], fv, iv, out, depth, woff))()
        else:
            nf = len(fv)

            def fn(*args):
                self.run(s["body"], list(args[:nf]), list(args[nf:]), out, depth, woff)

            wrap(fn)(*fv, *iv)

    def _call(self, s, fv, iv, out, depth, woff):
        sub = self.spec["subs"][s["sub"]]
        a = self.fval(s["a"], fv, iv)
        w = self.ival(s["w"], iv) % self.n
        if self.mode == "py":
            self.run(sub["body"], [float(a)], [], out, depth, woff + int(w))
            return fv
        style = s["style"]
        qp = self.qp

        def body(x, wires):
            # `wires` = the data register rotated by the call-site offset
            self.run(sub["body"], [x], [], out, depth, wires)

        if style == "plain":
            body(a, woff + w)
        elif style == "capsub":
            key = ("capsub", s["sub"], depth)
            if key not in self._sub_cache:
                def named(x, off):
                    body(x, off)
                named.__name__ = f"sub{s['sub']}"
                self._sub_cache[key] = qp.capture.subroutine(named)
            self._sub_cache[key](self._f64(a), woff + w)
        else:
            from pennylane.templates import Subroutine
            key = ("Subroutine", s["sub"], depth)
            if key not in self._sub_cache:
                def Sub(x, wires):
                    body(x, wires[0])
                Sub.__name__ = f"Sub{s['sub']}"
                self._sub_cache[key] = Subroutine(Sub)
            import jax.numpy as jnp
            self._sub_cache[key](self._f64(a), jnp.asarray([woff + w]))
        return fv

    # ---- measurements ------------------------------------------------------------------------
    def measurements(self, fv, iv):
        qp = self.qp
        P = {"X": qp.X, "Y": qp.Y, "Z": qp.Z}
        out = []
        for m in self.spec["meas"]:
            if m["mp"] in ("expval", "var"):
                obs = P[m["word"][0]](m["w"][0])
                for c, w in zip(m["word"][1:], m["w"][1:]):
                    obs = obs @ P[c](w)
                out.append(qp.expval(obs) if m["mp"] == "expval" else qp.var(obs))
            elif m["mp"] == "expval_sum":
                c = self.fval(m["coef"], fv, iv)
                if self.mode == "py":
                    c = float(c)
                out.append(qp.expval(c * P[m["p1"]](m["w1"]) + 0.5 * P[m["p2"]](m["w2"])))
            elif m["mp"] == "probs":
                out.append(qp.probs(wires=m["w"]))
            else:
                out.append(qp.state())
        return out


def _direct(spec, args, stats=None):
    import pennylane as qp

    it = Interp(spec, "py", stats)
    ops = [qp.RY(0.9, wires=spec["n"]), qp.RY(1.3, wires=spec["n"] + 1)]     # control wires in superposition (see _qfunc)
    it.run(spec["body"], list(args["f"]), list(args["i"]), ops)
    meas = it.measurements(list(args["f"]), list(args["i"]))
    return qp.tape.QuantumScript(ops, meas)


def _qfunc(spec):
    nf = len(spec["args"]["f"])

    def f(*a):
        import pennylane as qp

        it = Interp(spec, "cap")
        fv, iv = list(a[:nf]), list(a[nf:])
        qp.RY(0.9, wires=spec["n"])
        qp.RY(1.3, wires=spec["n"] + 1)
        it.run(spec["body"], fv, iv, None)
        return tuple(it.measurements(fv, iv))

    return f


# ----------------------------------------------------------------------------------------------
# comparison
# ----------------------------------------------------------------------------------------------

SUBS = ("CollectedSubroutine", "SubroutineOp")


def _has_sub(op):
    return type(op).__name__ in SUBS or (hasattr(op, "base") and _has_sub(op.base))


def _flatten(ops, seen=None):
    """Inline subroutine operators (also below Adjoint / Controlled wrappers, by the wrappers' definition; `seen` is
    appended to when that happens)."""
    import pennylane as qp

    out = []
    for op in ops:
        nm = type(op).__name__
        if nm in SUBS:
            out.extend(_flatten(op.decomposition(), seen))
        elif hasattr(op, "base") and _has_sub(op.base):
            if seen is not None:
                seen.append(nm)
            inner = _flatten([op.base], seen)
            if nm.startswith("Adjoint"):
                out.extend(qp.adjoint(o) for o in reversed(inner))
            elif nm.startswith("Controlled"):
                out.extend(qp.ctrl(o, control=list(op.control_wires), control_values=list(op.control_values)) for o in inner)
            else:
                raise NotImplementedError(nm)
        else:
            out.append(op)
    return out


def _op_diff(a, b):
    """None if the two operators have the same class, wires, wrapper structure and parameters; else a description."""
    if type(a).__name__ != type(b).__name__:
        return f"class {type(a).__name__} vs {type(b).__name__}"
    if [_w(w) for w in a.wires] != [_w(w) for w in b.wires]:
        return f"{type(a).__name__}: wires {list(a.wires)} vs {list(b.wires)}"
    if hasattr(a, "control_values") and hasattr(a, "base"):
        if [bool(v) for v in a.control_values] != [bool(v) for v in b.control_values] or \
                [_w(w) for w in a.control_wires] != [_w(w) for w in b.control_wires]:
            return f"{type(a).__name__}: control {list(a.control_wires)}/{a.control_values} vs {list(b.control_wires)}/{b.control_values}"
    if hasattr(a, "base") and hasattr(b, "base") and not hasattr(a, "operands"):
        return _op_diff(a.base, b.base)
    if hasattr(a, "operands"):
        if len(a.operands) != len(b.operands):
            return "operand count"
        for x, y in zip(a.operands, b.operands):
            d = _op_diff(x, y)
            if d:
                return d
        return None
    if len(a.data) != len(b.data):
        return f"{type(a).__name__}: {len(a.data)} vs {len(b.data)} parameters"
    for p, q in zip(a.data, b.data):
        p, q = np.asarray(p), np.asarray(q)
        if p.shape != q.shape or not np.allclose(p, q, atol=1e-10, rtol=0):
            return f"{type(a).__name__}: parameter {p} vs {q}"
    hp = getattr(a, "hyperparameters", {}) or {}
    if "pauli_word" in hp and hp["pauli_word"] != b.hyperparameters.get("pauli_word"):
        return "pauli_word"
    return None


def _w(w):
    try:
        return int(w)
    except (TypeError, ValueError):
        return w


def _compare(direct, got, order, what, feats, sig):
    seen = []
    _flatten(got.operations, seen)
    if seen:
        # a subroutine operator below Adjoint / Controlled: eager adjoints cannot be matched structurally -> results only
        if len(direct.measurements) != len(got.measurements):
            raise Viol("measurements", f"{what}: {got.measurements} vs {direct.measurements}", sig=sig + ":nmeas", features=feats)
        return _compare_results(direct, got, order, what, feats, sig)
    a, b = _flatten(direct.operations), _flatten(got.operations)
    if len(a) != len(b):
        raise Viol("op-list", f"{what}: {len(b)} operations, direct build has {len(a)}: {b} vs {a}", sig=sig + ":len", features=feats)
    for j, (x, y) in enumerate(zip(a, b)):
        d = _op_diff(x, y)
        if d:
            raise Viol("op-list", f"{what}: operation {j}: {d}; direct={x} round-trip={y}", sig=sig + ":" + type(x).__name__, features=feats)
    if len(direct.measurements) != len(got.measurements):
        raise Viol("measurements", f"{what}: {got.measurements} vs {direct.measurements}", sig=sig + ":nmeas", features=feats)
    _compare_results(direct, got, order, what, feats, sig)


def _compare_results(direct, got, order, what, feats, sig):
    import pennylane as qp

    ra = sim.run_tape(direct, order)
    rb = sim.run_tape(qp.tape.QuantumScript(_flatten(got.operations), got.measurements), order)
    for j, (x, y) in enumerate(zip(ra, rb)):
        if np.shape(x) != np.shape(y) or not close(y, x, 1e-9):
            raise Viol("results", f"{what}: measurement {j} {got.measurements[j]} vs {direct.measurements[j]} diff={maxdiff(y, x)}",
                       sig=sig + ":res", features=feats)


def _plxpr_transforms():
    """Transforms that ship a plxpr implementation, discovered by name."""
    import importlib

    import pennylane as qp

    found = {}
    for name in ("cancel_inverses", "merge_rotations", "decompose", "defer_measurements", "single_qubit_fusion", "commute_controlled",
                 "unitary_to_rot", "merge_amplitude_embedding", "map_wires", "diagonalize_measurements", "undo_swaps", "combine_global_phases"):
        tr = getattr(qp.transforms, name, None)
        fn = getattr(tr, "plxpr_transform", None)
        if fn is None:
            for modname in (f"pennylane.transforms.{name}", f"pennylane.transforms.optimization.{name}"):
                try:
                    mod = importlib.import_module(modname)
                except ImportError:
                    continue
                fn = getattr(mod, f"{name}_plxpr_to_plxpr", None)
                if fn is not None:
                    break
        if fn is not None and tr is not None:
            found[name] = (tr, fn)
    return found


TRANSFORM_KW = {"decompose": {"gate_set": ("RX", "RY", "RZ", "CNOT", "GlobalPhase", "PhaseShift", "Hadamard")}}


# ----------------------------------------------------------------------------------------------
# check
# ----------------------------------------------------------------------------------------------

def _leak_guard():
    import pennylane as qp

    if qp.capture.enabled():
        qp.capture.disable()
        raise RuntimeError("qp.capture was left enabled by an earlier case (leak) - disabled again")


def check(spec):
    import pennylane as qp

    _leak_guard()
    if spec["kind"] == "autograph":
        return _check_autograph(spec)
    import jax
    from pennylane.capture import PlxprInterpreter
    from pennylane.tape import plxpr_to_tape

    stats = Stats()
    args = spec["args"]
    flat = [float(x) for x in args["f"]] + [int(x) for x in args["i"]]
    flat2 = [float(x) for x in spec["args2"]["f"]] + [int(x) for x in spec["args2"]["i"]]
    direct = _direct(spec, args, stats)
    direct2 = _direct(spec, spec["args2"])
    order = list(range(spec["n"] + 2))
    feats = {"kinds": sorted(stats.kinds)}
    f = _qfunc(spec)
    tapes = {}
    qp.capture.enable()
    try:
        plxpr = qp.capture.make_plxpr(f, autograph=False)(*flat)
        tapes["roundtrip"] = plxpr_to_tape(plxpr.jaxpr, plxpr.consts, *flat)
        tapes["other-args"] = plxpr_to_tape(plxpr.jaxpr, plxpr.consts, *flat2)
        j2 = jax.make_jaxpr(lambda *a: PlxprInterpreter().eval(plxpr.jaxpr, plxpr.consts, *a))(*flat)
        tapes["identity-interpreter"] = plxpr_to_tape(j2.jaxpr, j2.consts, *flat)
        transformed = {}
        for name, (tr, fn) in _plxpr_transforms().items():
            kw = TRANSFORM_KW.get(name, {})
            j3 = fn(plxpr.jaxpr, plxpr.consts, (), tuple(kw.items()), *flat)
            transformed[name] = plxpr_to_tape(j3.jaxpr, j3.consts, *flat)
    finally:
        qp.capture.disable()
    if qp.capture.enabled():
        raise RuntimeError("capture still enabled after disable()")
    _compare(direct, tapes["roundtrip"], order, "plxpr_to_tape(make_plxpr(f)(*args), *args)", feats, "roundtrip")
    _compare(direct2, tapes["other-args"], order, f"jaxpr captured at {flat} converted at {flat2}", feats, "other-args")
    _compare(direct, tapes["identity-interpreter"], order, "identity PlxprInterpreter re-trace", feats, "identity")
    for name, t in transformed.items():
        tr = _plxpr_transforms()[name][0]
        kw = {k: (set(v) if isinstance(v, tuple) else v) for k, v in TRANSFORM_KW.get(name, {}).items()}
        (tt,), post = tr(direct, **kw)
        # both must be equivalent to the original program, and the plxpr output must respect the transform's contract
        _compare_results(direct, t, order, f"{name} through plxpr", feats, "transform:" + name)
        _compare_results(direct, tt, order, f"{name} on the tape", feats, "transform-tape:" + name)
    nops = len(direct.operations)
    labels = sorted(stats.kinds) + ["ops:" + ("0" if nops == 0 else "1-5" if nops <= 5 else "6-20" if nops <= 20 else ">20")] + \
             ["mp:" + m["mp"] for m in spec["meas"]]
    return Result(stats.constructs >= 2 and nops >= 5, labels=labels)


def _check_autograph(spec):
    import pennylane as qp
    from pennylane.tape import plxpr_to_tape

    from pv.corpus import c42_autograph as C

    fn = getattr(C, spec["fn"])
    args = spec["args"]
    direct = qp.tape.make_qscript(fn)(*args)
    qp.capture.enable()
    try:
        plxpr = qp.capture.make_plxpr(fn, autograph=True)(*args)
        got = plxpr_to_tape(plxpr.jaxpr, plxpr.consts, *args)
    finally:
        qp.capture.disable()
    order = list(range(C.NWIRES))
    _compare(direct, got, order, f"autograph {spec['fn']}{tuple(args)}", {"fn": spec["fn"]}, "autograph:" + spec["fn"])
    return Result(len(direct.operations) >= 2, labels=["autograph:" + spec["fn"]])


def selftest():
    sim.selftest()
    # the plain-Python interpretation of a hand-written program
    spec = {"n": 2, "subs": [], "meas": [{"mp": "state"}], "args": {"f": [0.5], "i": [1]},
            "body": [{"k": "for", "start": {"c": 0, "t": []}, "len": 2, "step": 1, "carry": None,
                      "body": [{"k": "op", "g": "RX", "w": {"c": 0, "t": [[1, 0]]}, "w2": {"c": 0, "t": []},
                                "a": {"c": 0.0, "t": [[2.0, 0]], "it": []}, "b": None, "c": None}]},
                     {"k": "adjoint", "lazy": True, "closure": True, "body": [
                         {"k": "op", "g": "S", "w": {"c": 0, "t": []}, "w2": {"c": 0, "t": []}, "a": {"c": 0, "t": [], "it": []}, "b": None, "c": None},
                         {"k": "op", "g": "CNOT", "w": {"c": 0, "t": []}, "w2": {"c": 0, "t": []}, "a": {"c": 0, "t": [], "it": []}, "b": None, "c": None}]}]}
    t = _direct(spec, spec["args"])
    names = [(op.name, [int(w) for w in op.wires]) for op in t.operations]
    assert names[2:] == [("RX", [0]), ("RX", [1]), ("Adjoint(CNOT)", [0, 1]), ("Adjoint(S)", [0])], names
    assert abs(float(t.operations[2].data[0]) - 1.0) < 1e-12
