"""C44 — Shots specifications are interpreted consistently (list model)."""
import copy
import itertools

from hypothesis import strategies as st

from pv.engine import Reject, Result, Viol

ID = "C44"
TECHNIQUE = "hypothesis-generated shot specifications and add/scale histories vs an expanded-list reference model"
RULE = (
    "Specs: None | positive int | sequence (list or tuple) of positive ints and (shots, copies) pairs, biased "
    "towards repeated adjacent shot values; plus a second spec for '+' and a scalar (int or float) for '*'. "
    "Oracle: reference list L = expansion of the spec; total_shots, iteration, run-length shot_vector, bins "
    "(prefix sums), has_partitioned_shots, num_copies, ==/hash, Shots(s) is s, a+b = L_a++L_b, s*k = [int(x*k)]. "
    "Non-trivial: len(L) >= 2 and some adjacent run merged (or an addition/scaling with a partitioned operand)."
)
ASSUMPTIONS = ["Only concrete Python ints are generated (abstract/traced shots are out of scope)."]
BUDGET = {"quick": {"examples": 4000}, "thorough": {"examples": 40000, "shards": 8}}

small = st.sampled_from([1, 1, 2, 2, 3, 5, 7, 10, 100, 1000])
entry = st.one_of(small, small, st.tuples(small, st.integers(1, 4)).map(list))


def _spec():
    seq = st.lists(entry, min_size=1, max_size=7)
    return st.one_of(st.none(), st.integers(1, 10**6), small,
                     st.tuples(st.sampled_from(["list", "tuple"]), seq).map(lambda t: {"kind": t[0], "items": t[1]}))


def strategy(tier):
    scalar = st.one_of(st.integers(1, 5), st.sampled_from([0.5, 1.5, 2.0, 0.3, 2.5, 1.0, 0.01, 3.7]))
    return st.fixed_dictionaries({"a": _spec(), "b": _spec(), "k": scalar})


def raw(spec):
    if spec is None or isinstance(spec, int):
        return spec
    items = [tuple(x) if isinstance(x, list) else x for x in spec["items"]]
    return items if spec["kind"] == "list" else tuple(items)


def expand(spec):
    if spec is None:
        return []
    if isinstance(spec, int):
        return [spec]
    out = []
    for x in spec["items"]:
        if isinstance(x, list):
            out += [x[0]] * x[1]
        else:
            out.append(x)
    return out


def rle(L):
    return [(k, len(list(g))) for k, g in itertools.groupby(L)]


def agree(s, L, what):
    exp_total = sum(L) if L else None
    if s.total_shots != exp_total:
        raise Viol("total_shots", f"{what}: {s.total_shots} != {exp_total}")
    if list(s) != L:
        raise Viol("iteration", f"{what}: {list(s)} != {L}")
    sv = [(c.shots, c.copies) for c in s.shot_vector]
    if sv != rle(L):
        raise Viol("shot_vector", f"{what}: {sv} != {rle(L)}")
    bins = list(s.bins())
    pre = [0] + list(itertools.accumulate(L))
    if bins != list(zip(pre[:-1], pre[1:])):
        raise Viol("bins", f"{what}: {bins} for {L}")
    if s.has_partitioned_shots != (len(L) > 1):
        raise Viol("has_partitioned_shots", f"{what}: {s.has_partitioned_shots} for {L}")
    if s.num_copies != len(L):
        raise Viol("num_copies", f"{what}: {s.num_copies} for {L}")
    if bool(s) != bool(L):
        raise Viol("bool", f"{what}")


def check(spec):
    from pennylane.measurements import Shots

    a, b, k = spec["a"], spec["b"], spec["k"]
    La, Lb = expand(a), expand(b)
    sa, sb = Shots(raw(a)), Shots(raw(b))
    agree(sa, La, "a")
    agree(sb, Lb, "b")
    if Shots(sa) is not sa:
        raise Viol("identity", "Shots(s) is not s")
    if copy.deepcopy(sa) != sa or copy.copy(sa) != sa:
        raise Viol("copy", "copy differs")
    sa2 = Shots(raw(a))
    if sa2 != sa or hash(sa2) != hash(sa):
        raise Viol("eq-hash", "rebuild from identical data differs")
    if (sa == sb) != (La == Lb):
        raise Viol("eq-model", f"eq={sa == sb} lists {La} {Lb}")
    if sa == sb and hash(sa) != hash(sb):
        raise Viol("eq-hash", "equal with different hash")
    agree(sa + sb, La + Lb, "a+b")
    # scaling
    scaled = [int(x * k) for x in La]
    if any(x < 1 for x in scaled):
        try:
            sa * k
        except ValueError:
            pass
        else:
            raise Viol("mul-invalid", f"{La}*{k} should raise ValueError (entry < 1)")
    else:
        agree(sa * k, scaled, "a*k")
        agree(k * sa, scaled, "k*a")
    merged = any(n > 1 for _, n in rle(La)) and len(La) >= 2
    merged_sum = len(La) >= 1 and len(Lb) >= 1 and La[-1] == Lb[0]
    labels = ["none" if a is None else "int" if isinstance(a, int) else a["kind"]]
    if merged_sum:
        labels.append("sum-merges-run")
    return Result(nontrivial=merged or merged_sum, labels=labels)


def selftest():
    assert expand({"kind": "tuple", "items": [10, 100, [100, 3], [200, 4]]}) == [10, 100, 100, 100, 100, 200, 200, 200, 200]
    assert rle([1, 1, 2]) == [(1, 2), (2, 1)]
