"""C66 — local decomposition-rule contexts are isolated (per context, per thread, also on exceptions)."""
import contextvars
import queue
import threading
import traceback

from hypothesis import strategies as st

from pv.engine import Reject, Result, Viol

ID = "C66"
TECHNIQUE = ("hypothesis-generated multi-thread schedules of local_decomps enter/exit/raise, add_decomps, _fix_decomp and "
             "DecompositionGraph uses, executed one step at a time under a harness-owned baton, vs a per-thread stack-of-frames model")
RULE = (
    "Spec: optional main-thread prelude (enter a local context, add/fix rules), 1-4 worker threads (plain threading.Thread or "
    "ThreadPoolExecutor workers; 'inherit' = started through contextvars.copy_context() of the main thread) and a schedule "
    "[[thread, step], ...] of up to 40 steps. Steps: enter (with local_decomps(), nesting <= 3), exit, raise (exception "
    "propagating through 1-2 context levels), add (add_decomps of 1-2 fresh synthetic rules r0..r5 for harness dummy operators "
    "PvDummyA/B/C addressed by type / name / instance; duplicate names must raise ValueError and change nothing), fix "
    "(_fix_decomp, only inside a local context), graph (build a DecompositionGraph with alt_decomps / fixed_decomps, which "
    "opens its own local context internally). The controller hands the baton to exactly one thread per step, so the "
    "interleaving is the drawn schedule. Oracle: model = per-thread stack of frames (copy-on-enter of the frame below; the "
    "bottom frame is the global registry, or the main thread's frame for inherited threads); after EVERY step EVERY thread "
    "(and the main thread) reads list_decomps / has_decomp / get_fixed_decomp for all dummy operators inside its own context "
    "and must see exactly its model frame (rule names in insertion order, rule identity; every returned collection is then mutated, which must stay invisible); at the end all "
    "threads unwind, and the global registry (rule names of every operator) equals its initial snapshot plus the modelled "
    "global additions and no fixed rule remains. Non-trivial: at some point >= 2 threads are inside local contexts with "
    "different rule sets for the same operator."
)
ASSUMPTIONS = [
    "Only one thread runs at any time (baton), so data races inside CPython dict operations are out of scope; the property "
    "checked is logical isolation of ContextVar-based registries under every interleaving of whole API calls.",
    "Threads started through copy_context() share the main thread's frame by design; they only read it until they open their "
    "own local context (the main thread does not modify its frame after the workers start).",
    "_fix_decomp is only issued inside a local context (documented developer API: 'meant to be used within a local decomps context').",
    "Global additions (add_decomps outside any context) are made for harness dummy operators only and are removed from the "
    "registry after the case.",
]
BUDGET = {"quick": {"examples": 1200}, "thorough": {"examples": 32000, "shards": 16}}
SHRINK_LISTS = ("schedule", "prelude")

OPS = ["PvDummyA", "PvDummyB", "PvDummyC"]
N_RULES = 6
TIMEOUT = 30.0

_CACHE = {}


def _env():
    if _CACHE:
        return _CACHE
    import pennylane as qp
    from pennylane.operation import Operation

    classes = {}
    for nm in OPS:
        classes[nm] = type(nm, (Operation,), {"num_wires": 1, "num_params": 0, "resource_keys": set(),
                                              "resource_params": property(lambda self: {})})
    _CACHE.update(qp=qp, classes=classes)
    return _CACHE


def make_rules():
    """Fresh rule objects per case; r{i} and R{i} share the *name* r{i} (duplicate-name probe)."""
    qp = _env()["qp"]

    def body(wires, **_):
        qp.RZ(0.1, wires)

    rules = {}
    for i in range(N_RULES):
        rules[f"r{i}"] = qp.register_resources({qp.RZ: 1}, body, name=f"r{i}")
        rules[f"R{i}"] = qp.register_resources({qp.RZ: 1}, body, name=f"r{i}")
    rules["probe"] = qp.register_resources({qp.RZ: 1}, body, name="probe")
    return rules


def ref(op, how):
    c = _env()["classes"]
    if how == "type":
        return c[op]
    if how == "inst":
        return c[op](wires=0)
    return op


# ------------------------------------------------------------------------------------------------ strategy

def step_st():
    op = st.sampled_from(OPS[:2] + OPS[:1] + OPS)
    how = st.sampled_from(["type", "str", "inst"])
    rid = st.integers(0, N_RULES - 1).map(lambda i: f"r{i}")
    rid_dup = st.one_of(rid, rid, rid, st.integers(0, N_RULES - 1).map(lambda i: f"R{i}"))
    return st.one_of(
        st.just({"op": "enter"}), st.just({"op": "enter"}),
        st.just({"op": "exit"}),
        st.fixed_dictionaries({"op": st.just("raise"), "levels": st.sampled_from([1, 1, 2])}),
        st.fixed_dictionaries({"op": st.just("add"), "on": op, "how": how, "rules": st.lists(rid_dup, min_size=1, max_size=2)}),
        st.fixed_dictionaries({"op": st.just("add"), "on": op, "how": how, "rules": st.lists(rid_dup, min_size=1, max_size=2)}),
        st.fixed_dictionaries({"op": st.just("add"), "on": st.just("PvDummyA"), "how": how, "rules": st.lists(rid, min_size=1, max_size=1)}),
        st.fixed_dictionaries({"op": st.just("fix"), "on": op, "how": how, "rule": rid}),
        st.fixed_dictionaries({"op": st.just("graph"), "on": op, "alt": st.lists(rid, max_size=2, unique=True),
                               "fixed": st.one_of(st.none(), rid)}),
    )


def _case(tier):
    max_steps = 24 if tier == "quick" else 40

    @st.composite
    def build(draw):
        n = draw(st.sampled_from([1, 2, 2, 3, 3, 4]))
        prelude = draw(st.one_of(st.just([]), st.lists(step_st().filter(lambda s: s["op"] in ("add", "fix")), max_size=3)
                                 .map(lambda xs: [{"op": "enter"}] + xs)))
        threads = [{"inherit": draw(st.booleans()) if prelude else False} for _ in range(n)]
        sched = draw(st.lists(st.tuples(st.integers(0, n - 1), step_st()).map(list), min_size=4, max_size=max_steps))
        # most threads open a context early (the interesting region is several threads inside contexts at once)
        warm = [[t, {"op": "enter"}] for t in range(n) if draw(st.integers(0, 3)) > 0]
        sched = draw(st.permutations(warm)) + sched
        return {"launcher": draw(st.sampled_from(["thread", "thread", "pool"])), "prelude": prelude, "threads": threads,
                "schedule": sched, "unwind": draw(st.sampled_from(["exit", "raise"]))}

    return build()


def strategy(tier):
    return _case(tier)


def enumerate_cases(tier):
    a0 = {"op": "add", "on": "PvDummyA", "how": "type", "rules": ["r0"]}
    a1 = {"op": "add", "on": "PvDummyA", "how": "str", "rules": ["r1"]}
    en = {"op": "enter"}
    # two threads inside contexts, adding to the same operator, every order of the four steps
    import itertools

    for order in sorted(set(itertools.permutations([0, 0, 1, 1]))):
        per = {0: [en, a0], 1: [en, a1]}
        pos = {0: 0, 1: 0}
        sched = []
        for t in order:
            sched.append([t, per[t][pos[t]]])
            pos[t] += 1
        for unwind in ("exit", "raise"):
            yield {"launcher": "thread", "prelude": [], "threads": [{"inherit": False}, {"inherit": False}],
                   "schedule": sched + [[0, {"op": "exit"}], [1, {"op": "raise", "levels": 1}]], "unwind": unwind}


# ------------------------------------------------------------------------------------------------ model

class Frame:
    def __init__(self, decomps=None, fixed=None, is_global=False):
        self.decomps = {k: list(v) for k, v in (decomps or {}).items()}   # op -> [rule id]
        self.fixed = dict(fixed or {})                                     # op -> rule id
        self.is_global = is_global

    def child(self):
        return Frame(self.decomps, self.fixed)

    def names(self, op):
        if op in self.fixed:
            return [self.fixed[op].lower()]
        return [r.lower() for r in self.decomps.get(op, [])]


class ThreadModel:
    def __init__(self, base):
        self.stack = [base]

    @property
    def top(self):
        return self.stack[-1]

    @property
    def depth(self):
        return len(self.stack) - 1


def model_step(tm, s, max_depth=3):
    """Apply step to the thread model. Returns ('skip'|'ok'|'ValueError')."""
    op = s["op"]
    if op == "enter":
        if tm.depth >= max_depth:
            return "skip"
        tm.stack.append(tm.top.child())
        return "ok"
    if op == "exit":
        if tm.depth == 0:
            return "skip"
        tm.stack.pop()
        return "ok"
    if op == "raise":
        if tm.depth == 0:
            return "skip"
        for _ in range(min(s["levels"], tm.depth)):
            tm.stack.pop()
        return "ok"
    if op == "add":
        f = tm.top
        if not f.is_global and tm.depth == 0:
            return "skip"  # inherited frame of the main thread: read-only for workers
        cur = [r.lower() for r in f.decomps.get(s["on"], [])]
        new = [r.lower() for r in s["rules"]]
        if any(n in cur for n in new) or len(set(new)) != len(new):
            return "ValueError"
        f.decomps.setdefault(s["on"], []).extend(s["rules"])
        return "ok"
    if op == "fix":
        if tm.depth == 0:
            return "skip"
        tm.top.fixed[s["on"]] = s["rule"]
        return "ok"
    if op == "graph":
        cur = [r.lower() for r in tm.top.decomps.get(s["on"], [])]
        if any(a in cur for a in s["alt"]):
            return "skip"  # alt rule with a name that is already registered: documented ValueError, not of interest here
        return "ok"
    raise ValueError(op)


# ------------------------------------------------------------------------------------------------ workers

class _Boom(Exception):
    """Harness exception raised inside local contexts; propagates through `levels` context levels."""

    def __init__(self, levels, finishing=False):
        super().__init__("harness exception inside a local context")
        self.levels = levels
        self.finishing = finishing


def observe(rules):
    """Read the calling thread's view of all dummy operators (runs inside that thread's context)."""
    from pennylane.decomposition import has_decomp, list_decomps
    from pennylane.decomposition.decomposition_rule import get_fixed_decomp

    out = {}
    inv = {id(v): k for k, v in rules.items()}
    for i, op in enumerate(OPS):
        how = ("type", "str", "inst")[i % 3]
        coll = list_decomps(ref(op, how))
        fx = get_fixed_decomp(ref(op, ("str", "inst", "type")[i % 3]))
        names, ids = [r.name for r in coll], [inv.get(id(r), "?") for r in coll]
        if fx is None:
            # documented: the returned collection is a copy; mutating it must not reach any registry
            try:
                coll.append(rules["probe"])
            except ValueError:
                pass
        out[op] = {"names": names, "ids": ids,
                   "has": has_decomp(ref(op, ("inst", "type", "str")[i % 3])),
                   "fixed": None if fx is None else inv.get(id(fx), "?")}
    return out


def do_action(s, rules):
    """add / fix / graph executed in the calling thread. Returns 'ok' or the name of a documented error."""
    from pennylane.decomposition import DecompositionGraph, add_decomps
    from pennylane.decomposition.decomposition_rule import _fix_decomp

    op = s["op"]
    if op == "add":
        try:
            add_decomps(ref(s["on"], s["how"]), *[rules[r] for r in s["rules"]])
        except ValueError:
            return "ValueError"
        return "ok"
    if op == "fix":
        _fix_decomp(ref(s["on"], s["how"]), rules[s["rule"]])
        return "ok"
    if op == "graph":
        cls = _env()["classes"][s["on"]]
        kw = {}
        if s["alt"]:
            kw["alt_decomps"] = {cls: [rules[r] for r in s["alt"]]}
        if s["fixed"]:
            kw["fixed_decomps"] = {cls: rules[s["fixed"]]}
        DecompositionGraph([cls(wires=0)], gate_set={"RZ"}, **kw)
        return "ok"
    raise ValueError(op)


class Worker:
    def __init__(self, tid, rules):
        self.tid = tid
        self.rules = rules
        self.inbox = queue.Queue()
        self.outbox = queue.Queue()
        self.depth = 0

    # --- runs in the worker thread
    def main(self):
        try:
            self.block()
            self.outbox.put(("finished", None))
        except BaseException as e:  # noqa: BLE001
            self.outbox.put(("crash", "".join(traceback.format_exception(type(e), e, e.__traceback__))[-1500:]))

    def block(self):
        """Interpret commands at the current nesting depth. Returns 'exit' (leave one context normally) or 'finish'
        (unwind everything normally); raises _Boom to leave contexts exceptionally."""
        from pennylane.decomposition import local_decomps

        while True:
            cmd = self.inbox.get(timeout=TIMEOUT)
            op = cmd["op"]
            if op == "finish":
                if self.depth > 0 and cmd["how"] == "raise":
                    raise _Boom(99, finishing=True)
                return "finish"
            if op == "observe":
                self.reply(observe(self.rules))
            elif op == "enter":
                sig = None
                try:
                    with local_decomps():
                        self.depth += 1
                        self.reply("ok")
                        try:
                            sig = self.block()
                        finally:
                            self.depth -= 1
                except _Boom as b:
                    b.levels -= 1
                    if b.levels >= 1 and self.depth > 0:
                        raise
                    if b.finishing:
                        return "finish"
                    self.reply("ok")
                    continue
                if sig == "finish":
                    return "finish"
                self.reply("ok")
            elif op == "exit":
                return "exit"
            elif op == "raise":
                raise _Boom(cmd["levels"])
            else:
                try:
                    self.reply(do_action(cmd, self.rules))
                except Exception as e:  # noqa: BLE001  unexpected error from the code under test
                    self.reply(("error", f"{type(e).__name__}: {e}", "".join(traceback.format_tb(e.__traceback__))[-1200:]))

    def reply(self, x):
        self.outbox.put(("reply", x))

    # --- runs in the controller
    def call(self, cmd):
        self.inbox.put(cmd)
        try:
            kind, payload = self.outbox.get(timeout=TIMEOUT)
        except queue.Empty:
            raise RuntimeError(f"worker {self.tid} did not answer {cmd}") from None
        if kind == "crash":
            raise RuntimeError("worker crashed: " + payload)
        return kind, payload


# ------------------------------------------------------------------------------------------------ controller

def registry_snapshot():
    """Rule names of every operator in the global registry (read-only look at the module state named in the property)."""
    from pennylane.decomposition import decomposition_rule as dr

    snap = {k: [r.name for r in v] for k, v in dr._decompositions_private.items() if len(v) and k not in OPS}
    return snap, dict(dr._fixed_decomps_private)


def cleanup_registry():
    from pennylane.decomposition import decomposition_rule as dr

    for k in OPS:
        dr._decompositions_private.pop(k, None)
        dr._fixed_decomps_private.pop(k, None)


def compare(view, frame, who, step_desc, feats):
    for op in OPS:
        v = view[op]
        want_names = frame.names(op)
        if op in frame.fixed:
            want_ids = [frame.fixed[op]]
        else:
            want_ids = list(frame.decomps.get(op, []))
        if v["names"] != want_names or v["ids"] != want_ids:
            raise Viol("view", f"{who} after {step_desc}: list_decomps({op}) = {v['ids']} but its context holds {want_ids}",
                       sig="view", features=feats)
        if v["has"] != bool(want_names):
            raise Viol("has_decomp", f"{who} after {step_desc}: has_decomp({op}) = {v['has']} with rules {want_names}",
                       sig="has_decomp", features=feats)
        if v["fixed"] != frame.fixed.get(op):
            raise Viol("fixed", f"{who} after {step_desc}: get_fixed_decomp({op}) = {v['fixed']} but its context fixed "
                       f"{frame.fixed.get(op)}", sig="fixed", features=feats)


def check(spec):
    # run in a copy of the current context: ContextVar.set calls that a defect fails to undo cannot reach the next case
    return contextvars.copy_context().run(_check, spec)


def _check(spec):
    from concurrent.futures import ThreadPoolExecutor

    from pennylane.decomposition import local_decomps

    _env()
    cleanup_registry()
    rules = make_rules()
    snap0, fixed0 = registry_snapshot()
    if fixed0:
        raise RuntimeError(f"fixed decomposition registry is not empty at start: {list(fixed0)}")
    glob = Frame(is_global=True)
    main = ThreadModel(glob)
    n = len(spec["threads"])
    feats = {"launcher": spec["launcher"], "threads": n, "inherit": any(t["inherit"] for t in spec["threads"])}
    labels = [f"threads={n}", f"launcher={spec['launcher']}", f"unwind={spec['unwind']}"]
    workers, threads, pool, main_cms = [], [], None, []
    simultaneous = False
    max_depth = 0
    try:
        # main-thread prelude
        for s in spec["prelude"]:
            r = model_step(main, s)
            if r == "skip":
                continue
            if s["op"] == "enter":
                cm = local_decomps()
                cm.__enter__()
                main_cms.append(cm)
            else:
                got = do_action(s, rules)
                if got != r:
                    raise Viol("add-outcome", f"main prelude {s}: {got}, model {r}", sig="add-outcome", features=feats)
        compare(observe(rules), main.top, "main", "prelude", feats)

        # start the workers
        models = []
        if spec["launcher"] == "pool":
            pool = ThreadPoolExecutor(max_workers=n)
        for tid, t in enumerate(spec["threads"]):
            w = Worker(tid, rules)
            workers.append(w)
            inherit = t["inherit"] and main.depth > 0
            models.append(ThreadModel(main.top if inherit else glob))
            if inherit:
                ctx = contextvars.copy_context()
                target, args = ctx.run, (w.main,)
                labels.append("inherit")
            else:
                target, args = w.main, ()
            if pool is not None:
                pool.submit(target, *args)
            else:
                th = threading.Thread(target=target, args=args, daemon=True, name=f"c66-{tid}")
                th.start()
                threads.append(th)

        def observe_all(desc):
            for w, tm in zip(workers, models):
                _, view = w.call({"op": "observe"})
                compare(view, tm.top, f"thread {w.tid} (depth {tm.depth})", desc, feats)
            compare(observe(rules), main.top, "main thread", desc, feats)

        observe_all("start")
        executed = 0
        for si, (tid, s) in enumerate(spec["schedule"]):
            tm, w = models[tid], workers[tid]
            r = model_step(tm, s)
            if r == "skip":
                continue
            desc = f"step {si} thread {tid} {s}"
            _, got = w.call(s)
            if isinstance(got, tuple) and got[0] == "error":
                raise Viol("unexpected-exception", f"{desc}: {got[1]} | {got[2]}", sig="exc:" + got[1].split(":")[0], features=feats)
            if got != r:
                raise Viol("add-outcome", f"{desc}: outcome {got}, model {r}", sig="add-outcome", features=feats)
            executed += 1
            labels.append(s["op"] if r == "ok" else f"{s['op']}:{r}")
            if s["op"] == "raise":
                labels.append(f"raise-levels={s['levels']}")
            max_depth = max(max_depth, tm.depth)
            observe_all(desc)
            inside = [m for m in models if m.depth >= 1]
            for op in OPS:
                if len({tuple(m.top.names(op)) for m in inside}) >= 2:
                    simultaneous = True

        # unwind everything
        for w in workers:
            kind, _ = w.call({"op": "finish", "how": spec["unwind"]})
            if kind != "finished":
                raise RuntimeError(f"worker {w.tid} answered {kind} to finish")
        workers_done = True
        compare(observe(rules), main.top, "main thread", "all workers finished", feats)
        while main_cms:
            main_cms.pop().__exit__(None, None, None)
            main.stack.pop()
        compare(observe(rules), glob, "main thread", "all contexts closed", feats)
        snap1, fixed1 = registry_snapshot()
        if fixed1:
            raise Viol("global-fixed", f"fixed rules left in the global registry: {list(fixed1)}", sig="global-fixed", features=feats)
        if snap1 != snap0:
            diff = [k for k in set(snap0) | set(snap1) if snap0.get(k) != snap1.get(k)]
            raise Viol("global-registry", f"global registry changed for {diff[:5]}", sig="global-registry", features=feats)
        del workers_done
    finally:
        for w in workers:
            w.inbox.put({"op": "finish", "how": "exit"})
        for th in threads:
            th.join(timeout=TIMEOUT)
        if pool is not None:
            pool.shutdown(wait=True)
        while main_cms:
            try:
                main_cms.pop().__exit__(None, None, None)
            except Exception:  # noqa: BLE001
                pass
        cleanup_registry()
    labels.append(f"max-depth={max_depth}")
    if simultaneous:
        labels.append("simultaneous-different-views")
    return Result(simultaneous and executed >= 3, sorted(set(labels)))


def selftest():
    g = Frame(is_global=True)
    t = ThreadModel(g)
    assert model_step(t, {"op": "exit"}) == "skip"
    assert model_step(t, {"op": "enter"}) == "ok"
    assert model_step(t, {"op": "add", "on": "PvDummyA", "how": "str", "rules": ["r0"]}) == "ok"
    assert model_step(t, {"op": "add", "on": "PvDummyA", "how": "str", "rules": ["R0"]}) == "ValueError"
    assert model_step(t, {"op": "add", "on": "PvDummyA", "how": "str", "rules": ["r1", "R1"]}) == "ValueError"
    assert t.top.names("PvDummyA") == ["r0"] and g.names("PvDummyA") == []
    model_step(t, {"op": "fix", "on": "PvDummyA", "how": "str", "rule": "r3"})
    assert t.top.names("PvDummyA") == ["r3"]
    model_step(t, {"op": "enter"})
    model_step(t, {"op": "raise", "levels": 2})
    assert t.depth == 0 and t.top is g
