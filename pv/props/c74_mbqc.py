"""C74 — MBQC conversion (pennylane.ftqc) and the Pauli tracker preserve the circuit."""
import itertools

import numpy as np
from hypothesis import strategies as st

from pv import gen, specs
from pv.engine import Reject, Result, Viol
from pv.ref import dyn2
from pv.ref import gates as G
from pv.ref import sim

ID = "C74"
TECHNIQUE = ("exhaustive Pauli frames through H/S/CNOT against matrix conjugation; hypothesis circuits over the MBQC gate set converted with "
             "convert_to_mbqc_formalism and evaluated history by history with a numpy interpreter of the emitted pattern (graph states, "
             "rotated-basis and conditional measurements, online corrections, qubit recycling); offline byproduct tracking against the same "
             "interpreter with the corrections stripped; convert_to_mbqc_gateset / diagonalize_mcms against unitary / branch references")
RULE = (
    "(tracker, exhaustive) commute_clifford_op for H, S (4 frames) and CNOT (16 frames): C P C^dagger is proportional to P'; pauli_to_xz / "
    "xz_to_pauli on all inputs, pauli_prod on all lists of <= 3 Paulis; documented ValueError / NotImplementedError for malformed input. "
    "(conversion) circuits on 1-3 wires over {RotXZX, RZ, H, S, CNOT, X, Y, Z, Identity, GlobalPhase}, a RotXZX layer first (generic "
    "logical states), diagonalize_mcms in {False, True}, sample(wires) in arbitrary order: the emitted tape is interpreted from |0..0> "
    "(GraphStatePrep from its graph, XY-plane measurements from the documented basis vectors, conditional measurement pairs, "
    "Conditional corrections through their measurement-value expressions, reset = qubit leaves the register) for every outcome "
    "history (exhaustive while <= 12 measurements, else a forced prefix plus exhaustive / drawn suffix, CNOT pattern exhaustively over its "
    "8192 histories in enumerate_cases): all auxiliary qubits are consumed and the state on the output wires equals U|0..0> up to a "
    "global phase (fidelity >= 1 - 1e-9) for every history of non-zero probability. (offline tracking) Clifford tapes with leading "
    "RZ / RotXZX: for drawn histories the pattern is interpreted with all conditional X / Z corrections removed and "
    "get_byproduct_corrections(tape, history, 0..0) must be the X-frame: outcome distribution shifted by it equals that of U|0..0>. "
    "(gate set) convert_to_mbqc_gateset on random small circuits: only MBQC gates, same unitary up to global phase. (diagonalize_mcms) "
    "random tapes with X / Y / arbitrary-basis (XY, ZX, YZ planes) measurements, cond_measure pairs and conditional gates: only "
    "computational-basis measurements remain and every history has the same probability and leaves the same state on the wires that "
    "are reset or not measured. Non-trivial (conversion): >= 1 non-Pauli gate and a history with an outcome 1."
)
ASSUMPTIONS = [
    "The semantics of a pattern is taken from the documentation of its parts: GraphStatePrep = H on every node and CZ on every edge "
    "(nodes in ascending order on the listed wires), measure_arbitrary_basis outcome 0 <-> the documented vector of the plane/angle, "
    "reset = |0> afterwards; the classical expressions inside Conditional operators are evaluated by calling their processing function.",
    "A parametric measurement without reset is only generated on wires that are not used afterwards (the post-measurement state of the "
    "diagonalised form is the computational basis state, which the documentation shows as the intended output).",
    "Offline tracking is checked on tapes without Pauli gates (it is not documented whether tracked Paulis of the tape are executed).",
]
BUDGET = {"quick": {"examples": 150}, "thorough": {"examples": 3000, "shards": 16}}
SHRINK_LISTS = ("ops", "steps")
PAULIS = "IXYZ"
MBQC_NAMES = {"CNOT", "Hadamard", "S", "RotXZX", "RZ", "PauliX", "PauliY", "PauliZ", "Identity", "GlobalPhase"}


# ----------------------------------------------------------------------------------------------
# matrices and tape interpretation (numpy; PennyLane objects are only read as data)
# ----------------------------------------------------------------------------------------------
def rotxzx(phi, theta, omega):
    return G.RX(omega) @ G.RZ(theta) @ G.RX(phi)


def gate_matrix(op):
    name = type(op).__name__
    if name == "RotXZX":
        return rotxzx(*[float(p) for p in op.data])
    return sim.op_matrix(op)


def tape_unitary(ops, order):
    n = len(order)
    U = np.eye(2**n, dtype=complex)
    for op in ops:
        if type(op).__name__ == "GlobalPhase":
            U = np.exp(-1j * float(op.data[0])) * U
        elif type(op).__name__ == "Identity":
            continue
        else:
            U = sim.embed(gate_matrix(op), list(op.wires), order) @ U
    return U


def basis_change(plane, angle):
    """B with B v0 = |0>, B v1 = |1> for the documented basis of measure_arbitrary_basis."""
    a = float(angle)
    if plane == "XY":
        v0 = np.array([1, np.exp(1j * a)]) / np.sqrt(2)
        v1 = np.array([1, -np.exp(1j * a)]) / np.sqrt(2)
    elif plane == "ZX":
        v0 = np.array([np.cos(a / 2), np.sin(a / 2)], dtype=complex)
        v1 = np.array([-np.sin(a / 2), np.cos(a / 2)], dtype=complex)
    elif plane == "YZ":
        v0 = np.array([np.cos(a / 2), 1j * np.sin(a / 2)])
        v1 = np.array([1j * np.sin(a / 2), np.cos(a / 2)])
    else:
        raise Reject("unknown plane")
    return np.array([v0.conj(), v1.conj()])


def eval_mv(mv, outcomes, cache=None):
    """value of a measurement-value expression for an outcome history (a measurement that was not executed counts as 0);
    the expression is a pure function of the listed outcomes, so values are memoised per expression."""
    vals = tuple(int(outcomes.get(m.meas_uid, 0)) for m in mv.measurements)
    if cache is None:
        return mv.processing_fn(*vals)
    if vals not in cache:
        cache[vals] = mv.processing_fn(*vals)
    return cache[vals]


def _meas_ins(op):
    B = None
    if hasattr(op, "plane") and op.hyperparameters.get("plane") is not None:
        B = basis_change(op.plane, op.angle)
    return ("M", op.wires[0], op.meas_uid, bool(op.reset), op.postselect, B)


def _is_mcm(op):
    return hasattr(op, "meas_uid") and hasattr(op, "reset")


def tape_program(ops, strip_pauli_corrections=False):
    prog = []
    for op in ops:
        name = type(op).__name__
        if name == "GraphStatePrep":
            hp = op.hyperparameters
            if hp["one_qubit_ops"].__name__ not in ("Hadamard", "H") or hp["two_qubit_ops"].__name__ != "CZ":
                raise Reject("non-default graph state operators")
            g = hp["graph"]
            nodes = sorted(g.nodes)
            wmap = dict(zip(nodes, op.wires))
            for w in op.wires:
                prog.append(("U", G.H, [w]))
            for a, b in g.edges:
                prog.append(("U", np.diag([1, 1, 1, -1]).astype(complex), [wmap[a], wmap[b]]))
        elif _is_mcm(op):
            prog.append(_meas_ins(op))
        elif name == "Conditional":
            mv = op.meas_val
            pred = (lambda oc, mv=mv, cache={}: bool(eval_mv(mv, oc, cache)))
            base = op.base
            if _is_mcm(base):
                prog.append(("C", pred, _meas_ins(base)))
            else:
                if strip_pauli_corrections and type(base).__name__ in ("PauliX", "PauliZ"):
                    continue
                prog.append(("C", pred, ("U", gate_matrix(base), list(base.wires))))
        elif name == "GlobalPhase":
            prog.append(("phase", float(op.data[0])))
        elif name == "Identity":
            # The interpreter creates a qubit (in |0>) when an instruction first touches it. Identity used to be dropped here, so a
            # logical wire whose only gates are Identities (documented: "leaves all Paulis and Identities as physical gates") never
            # entered the register and the check reported "aux-wires-left ... live wires [], expected 1 logical wires" although the
            # emitted pattern [I(w)] is exactly right. Identity now touches its wires (a wire-less Identity touches nothing).
            if len(op.wires):
                prog.append(("U", np.eye(2 ** len(op.wires), dtype=complex), list(op.wires)))
        else:
            prog.append(("U", gate_matrix(op), list(op.wires)))
    return prog


def n_measurements(ops):
    n = 0
    skip = False
    for i, op in enumerate(ops):
        if _is_mcm(op):
            n += 1
        elif type(op).__name__ == "Conditional" and _is_mcm(op.base):
            # conditional measurement pairs execute exactly one of the two
            if not skip:
                n += 1
            skip = not skip
    return n


# ----------------------------------------------------------------------------------------------
# generator
# ----------------------------------------------------------------------------------------------
def _g(name, w, *p):
    return {"op": name, "p": list(p), "w": list(w)}


@st.composite
def _mbqc_ops(draw, n, max_gates, paulis=True, leading=True, cnot_max=1):
    ang = st.one_of(gen.generic_angles(), gen.generic_angles(), st.sampled_from([0.0, np.pi / 2, np.pi, -np.pi / 2]))
    ops = []
    if leading:
        for w in range(n):
            if draw(st.integers(0, 3)) > 0:
                ops.append(_g("RotXZX", [w], draw(ang), draw(ang), draw(ang)) if draw(st.booleans()) else _g("RZ", [w], draw(ang)))
    ncnot = 0
    for _ in range(draw(st.integers(1, max_gates))):
        pool = ["Hadamard", "S", "Hadamard", "S"]
        if not leading or True:
            pool += ["RZ", "RotXZX"] if paulis else []
        if paulis:
            pool += ["PauliX", "PauliY", "PauliZ", "Identity", "GlobalPhase"]
        if n >= 2 and ncnot < cnot_max:
            pool += ["CNOT", "CNOT"]
        name = draw(st.sampled_from(pool))
        if name == "CNOT":
            ops.append(_g("CNOT", draw(gen.subset(list(range(n)), 2))))
            ncnot += 1
        elif name == "RotXZX":
            ops.append(_g(name, [draw(st.integers(0, n - 1))], draw(ang), draw(ang), draw(ang)))
        elif name in ("RZ", "GlobalPhase"):
            ops.append(_g(name, [draw(st.integers(0, n - 1))], draw(ang)))
        else:
            ops.append(_g(name, [draw(st.integers(0, n - 1))]))
    return ops


@st.composite
def _convert_case(draw, tier):
    n = draw(st.sampled_from([1, 1, 2, 2, 3] if tier == "thorough" else [1, 1, 2, 2]))
    ops = draw(_mbqc_ops(n, 8 if tier == "thorough" else 4, cnot_max=2 if tier == "thorough" else 1))
    k = draw(st.integers(1, n))
    return {"kind": "convert", "n": n, "ops": ops, "diag": draw(st.booleans()), "meas": draw(gen.subset(list(range(n)), k)),
            "hist_seed": draw(st.integers(0, 2**31 - 1)), "n_hist": 24 if tier == "thorough" else 4}


@st.composite
def _byproduct_case(draw, tier):
    n = draw(st.sampled_from([1, 2, 2]))
    ops = draw(_mbqc_ops(n, 5, paulis=False, cnot_max=1))
    k = draw(st.integers(1, n))
    return {"kind": "byproduct", "n": n, "ops": ops, "meas": draw(gen.subset(list(range(n)), k)), "hist_seed": draw(st.integers(0, 2**31 - 1)), "n_hist": 6}


@st.composite
def _gateset_case(draw, tier):
    c = draw(gen.circuit(max_wires=3, max_depth=5, extras=False, meas=False, ang=gen.generic_angles()))
    ops = c["ops"]
    if draw(st.booleans()):
        ops = ops + [{"op": "Rot", "p": [draw(gen.generic_angles()) for _ in range(3)], "w": [draw(st.sampled_from(c["wires"]))]}]
    return {"kind": "gateset", "wires": c["wires"], "ops": ops}


@st.composite
def _diag_case(draw, tier):
    n = draw(st.sampled_from([1, 2, 2, 3]))
    ang = gen.generic_angles()
    # generic Bloch vectors (a real state cannot tell the two orientations of the Y axis apart)
    steps = [{"t": "g", "op": _g(g, [w], draw(ang))} for w in range(n) for g in ("RY", "RX")]
    n_m = 0
    dead = set()
    for _ in range(draw(st.integers(1, 7))):
        alive = [w for w in range(n) if w not in dead]
        if not alive:
            break
        r = draw(st.integers(0, 9))
        if r < 4:
            kind = draw(st.sampled_from(["x", "y", "z", "arb", "arb", "arb", "cond"]))
            w = draw(st.sampled_from(alive))
            reset = draw(st.booleans())
            s = {"t": "m", "kind": kind, "w": w, "reset": reset}
            if kind == "arb":
                s.update(plane=draw(st.sampled_from(["XY", "XY", "XY", "ZX", "ZX", "ZX", "YZ"])), angle=draw(ang))  # YZ rare: separately bucketed
            if kind == "cond":
                if n_m == 0:
                    continue
                s.update(on=draw(st.integers(0, n_m - 1)),
                         a=draw(st.sampled_from([["x"], ["y"], ["arb", "XY", 0.4], ["arb", "ZX", 1.1], ["x"], ["arb", "XY", 2.1], ["arb", "ZX", -0.5], ["arb", "YZ", -0.7]])),
                         b=draw(st.sampled_from([["x"], ["y"], ["arb", "XY", -0.4], ["arb", "ZX", 2.3], ["y"], ["arb", "XY", 1.2], ["arb", "ZX", 0.8], ["arb", "YZ", 0.9]])))
            if not reset:
                dead.add(w)
            steps.append(s)
            n_m += 1
        elif r < 6 and n_m:
            w = draw(st.sampled_from(alive))
            steps.append({"t": "c", "on": draw(st.integers(0, n_m - 1)), "op": draw(gen.gate([w], {"RX": (1, 1), "PauliX": (0, 1), "Hadamard": (0, 1), "S": (0, 1)}, ang))})
        else:
            k = 2 if len(alive) >= 2 and draw(st.booleans()) else 1
            steps.append({"t": "g", "op": draw(gen.gate(alive, {"RX": (1, 1), "Hadamard": (0, 1), "RZ": (1, 1), "CNOT": (0, 2), "CZ": (0, 2), "CRY": (1, 2)}
                                                          if k == 2 else {"RX": (1, 1), "Hadamard": (0, 1), "T": (0, 1)}, ang))})
    return {"kind": "diag", "n": n, "steps": steps}


def strategy(tier):
    return st.one_of(_convert_case(tier), _convert_case(tier), _convert_case(tier), _byproduct_case(tier), _gateset_case(tier), _diag_case(tier), _diag_case(tier))


def enumerate_cases(tier):
    # tracker, exhaustive
    for g in ("Hadamard", "S"):
        for x, z in itertools.product((0, 1), repeat=2):
            yield {"kind": "commute", "gate": g, "xz": [[x, z]]}
    for bits in itertools.product((0, 1), repeat=4):
        yield {"kind": "commute", "gate": "CNOT", "xz": [[bits[0], bits[1]], [bits[2], bits[3]]]}
    yield {"kind": "xz-tables"}
    for k in (1, 2, 3):
        for word in itertools.product(PAULIS, repeat=k):
            yield {"kind": "pauli-prod", "word": "".join(word)}
    yield {"kind": "tracker-errors"}
    # convert_to_mbqc_gateset: every common gate once with generic angles (Rot goes through the module's own XZX rule)
    for name, (npar, nw) in sorted({**gen.GATES1, **{k: gen.GATES2[k] for k in ("CNOT", "CZ", "CY", "SWAP", "CRX", "CRY", "CRZ", "CRot", "IsingXX", "ControlledPhaseShift")},
                                    "Toffoli": (0, 3)}.items()):
        yield {"kind": "gateset", "wires": list(range(nw)), "ops": [{"op": "RY", "p": [0.3 + 0.2 * w], "w": [w]} for w in range(nw)] +
               [{"op": name, "p": [0.37, -1.21, 2.05][:npar], "w": list(range(nw))[::-1]}]}
    # diagonalize_mcms: one measurement per documented plane on a generic state, with and without reset, plain and as cond_measure branch
    for plane in ("XY", "ZX", "YZ"):
        prep = [{"t": "g", "op": _g("RY", [0], 1.1)}, {"t": "g", "op": _g("RX", [0], 0.9)}, {"t": "g", "op": _g("RY", [1], 0.6)}, {"t": "g", "op": _g("CNOT", [0, 1])}]
        yield {"kind": "diag", "n": 2, "steps": prep + [{"t": "m", "kind": "arb", "w": 0, "reset": True, "plane": plane, "angle": 0.7}]}
        yield {"kind": "diag", "n": 2, "steps": prep + [{"t": "m", "kind": "z", "w": 1, "reset": True},
                                                         {"t": "m", "kind": "cond", "w": 0, "reset": False, "on": 0, "a": ["arb", plane, 0.7], "b": ["arb", plane, -1.3]}]}
        # the same conditional pair with reset: the wire is reused afterwards, so a lost reset changes the later history
        yield {"kind": "diag", "n": 2, "steps": prep + [{"t": "m", "kind": "z", "w": 1, "reset": True},
                                                         {"t": "m", "kind": "cond", "w": 0, "reset": True, "on": 0, "a": ["arb", plane, 0.7], "b": ["arb", plane, -1.3]},
                                                         {"t": "g", "op": _g("RY", [0], 0.8)}, {"t": "g", "op": _g("CNOT", [0, 1])},
                                                         {"t": "m", "kind": "z", "w": 0, "reset": True}]}
    # single-gate patterns behind a generic RotXZX, every history (8 measurements = 256 histories)
    for diag in (False, True):
        for gate in (_g("Hadamard", [0]), _g("S", [0]), _g("RZ", [0], 0.83), _g("RotXZX", [0], 0.41, -1.2, 2.2)):
            yield {"kind": "convert", "n": 1, "ops": [_g("RotXZX", [0], 0.7, 1.9, -0.6), gate], "diag": diag, "meas": [0], "hist_seed": 0, "n_hist": 0}
        # CNOT pattern: both inputs generic; the 8 measurements of the two RotXZX patterns are forced (two settings), the 13 of the CNOT
        # pattern are enumerated exhaustively (8192 histories)
        for seed in ((1,) if tier == "quick" else (1, 2, 3)):
            yield {"kind": "convert", "n": 2, "ops": [_g("RotXZX", [0], 0.7, 1.9, -0.6), _g("RotXZX", [1], -0.3, 0.8, 1.3), _g("CNOT", [1, 0])],
                   "diag": diag, "meas": [1, 0], "hist_seed": seed, "n_hist": 1, "prefix": 8}


# ----------------------------------------------------------------------------------------------
# checks
# ----------------------------------------------------------------------------------------------
def _build(ops):
    import pennylane as qp
    from pennylane.ftqc import RotXZX

    out = []
    for o in ops:
        if o["op"] == "RotXZX":
            out.append(RotXZX(*o["p"], wires=o["w"]))
        elif o["op"] == "GlobalPhase":
            out.append(qp.GlobalPhase(o["p"][0]))
        else:
            out.append(specs.build_op(o))
    return out


def _pauli_of(x, z):
    return np.linalg.matrix_power(G.X, x) @ np.linalg.matrix_power(G.Z, z)


def _proportional(A, B, tol=1e-9):
    i = np.unravel_index(np.abs(B).argmax(), B.shape)
    c = A[i] / B[i]
    return abs(abs(c) - 1) < tol and np.allclose(A, c * B, atol=tol)


def check_commute(spec):
    import pennylane as qp
    from pennylane.ftqc import commute_clifford_op

    gate = spec["gate"]
    op = {"Hadamard": qp.H(0), "S": qp.S(0), "CNOT": qp.CNOT([0, 1])}[gate]
    C = {"Hadamard": G.H, "S": G.S, "CNOT": G.matrix("CNOT")}[gate]
    xz = [tuple(t) for t in spec["xz"]]
    new = commute_clifford_op(op, xz)
    if len(new) != len(xz) or not all(len(t) == 2 and int(t[0]) in (0, 1) and int(t[1]) in (0, 1) for t in new):
        raise Viol("commute-format", f"{gate} {xz} -> {new}", sig=gate)
    P = G.kron(*[_pauli_of(*t) for t in xz])
    Pn = G.kron(*[_pauli_of(int(t[0]), int(t[1])) for t in new])
    # documented: new_xz . C = C . xz up to a global phase
    if not _proportional(Pn @ C, C @ P):
        raise Viol("commute-relation", f"{gate}: frame {xz} -> {[tuple(map(int, t)) for t in new]} but C P C^dagger is not proportional to it", sig=gate, features={"gate": gate})
    return Result(any(a != tuple(map(int, b)) for a, b in zip(xz, new)), [f"commute:{gate}"])


def check_tables(spec):
    import pennylane as qp
    from pennylane.ftqc import pauli_to_xz, xz_to_pauli

    table = {"I": (0, 0), "X": (1, 0), "Y": (1, 1), "Z": (0, 1)}
    for ch, want in table.items():
        cls = getattr(qp, ch)
        for arg in (cls(0), cls):
            got = pauli_to_xz(arg)
            if tuple(got) != want:
                raise Viol("pauli_to_xz", f"{ch}: {got}, documented {want}", sig=ch)
        back = xz_to_pauli(*want)
        if back is not cls:
            raise Viol("xz_to_pauli", f"{want}: {back}, expected {cls}", sig=ch)
        # matrices: X^x Z^z is proportional to the Pauli
        if not _proportional(_pauli_of(*want), G.PAULI[ch]):
            raise AssertionError("reference table")
    for bad in ((2, 0), (0, -1), (1, 2)):
        try:
            xz_to_pauli(*bad)
        except ValueError:
            continue
        raise Viol("xz_to_pauli", f"{bad} accepted, documented ValueError", sig="range")
    try:
        pauli_to_xz(qp.H(0))
    except NotImplementedError:
        pass
    else:
        raise Viol("pauli_to_xz", "Hadamard accepted, documented NotImplementedError", sig="type")
    return Result(True, ["tables"])


def check_prod(spec):
    import pennylane as qp
    from pennylane.ftqc import pauli_prod

    word = spec["word"]
    got = pauli_prod([getattr(qp, c)(0) for c in word])
    M = np.eye(2, dtype=complex)
    for c in word:
        M = M @ G.PAULI[c]
    if not _proportional(_pauli_of(int(got[0]), int(got[1])), M):
        raise Viol("pauli_prod", f"{word}: {got} is not the product up to phase", sig="prod")
    return Result(len(set(word)) > 1, [f"prod:{len(word)}"])


def check_errors(spec):
    import pennylane as qp
    from pennylane.ftqc import commute_clifford_op, pauli_prod

    bad = [(qp.H(0), [(0, 0), (1, 1)], ValueError), (qp.CNOT([0, 1]), [(0, 1)], ValueError), (qp.S(0), [(0, 1, 1)], ValueError),
           (qp.S(0), [(0, 2)], ValueError), (qp.T(0), [(0, 1)], NotImplementedError)]
    for op, xz, exc in bad:
        try:
            commute_clifford_op(op, xz)
        except exc:
            continue
        raise Viol("documented-error", f"commute_clifford_op({op}, {xz}) did not raise {exc.__name__}", sig="commute")
    try:
        pauli_prod([])
    except ValueError:
        pass
    else:
        raise Viol("documented-error", "pauli_prod([]) did not raise ValueError", sig="prod")
    return Result(True, ["errors"])


def _histories(spec, n_meas, n_forced_prefix=None):
    """forced prefixes to run: [] = enumerate everything."""
    if n_meas <= 12 and not spec.get("prefix"):
        return [[]], True
    rng = np.random.default_rng(spec["hist_seed"])
    if spec.get("prefix"):
        return [rng.integers(0, 2, size=spec["prefix"]).tolist() for _ in range(max(1, spec["n_hist"]))], False
    # forced prefix so that at most 10 measurements are enumerated; plus the two constant histories
    hs = [[0] * n_meas, [1] * n_meas]
    for _ in range(max(1, spec["n_hist"])):
        hs.append(rng.integers(0, 2, size=n_meas - 6).tolist())
    return hs, False


def check_convert(spec):
    import pennylane as qp
    from pennylane.ftqc import convert_to_mbqc_formalism

    n = spec["n"]
    ops = _build(spec["ops"])
    if any(w >= n for o in spec["ops"] for w in o["w"]) or not spec["meas"]:
        raise Reject("malformed")
    # every wire must appear in the tape (wires are taken from it)
    used = {w for o in spec["ops"] if o["op"] != "GlobalPhase" for w in o["w"]}
    meas = [w for w in spec["meas"]]
    if not set(meas) <= used:
        raise Reject("measured wire not in the circuit")
    tape = qp.tape.QuantumScript(ops, [qp.sample(wires=meas)], shots=10)
    (out,), fn = convert_to_mbqc_formalism(tape, diagonalize_mcms=spec["diag"])
    feats = {"diag": bool(spec["diag"]), "cnot": any(o["op"] == "CNOT" for o in spec["ops"])}
    sig = "diag" if spec["diag"] else "parametric"
    if len(out.measurements) != 1 or type(out.measurements[0]).__name__ != "SampleMP" or len(out.measurements[0].wires) != len(meas):
        raise Viol("output-measurement", f"measurements {out.measurements}", sig=sig, features=feats)
    if spec["diag"] and any(hasattr(o, "plane") and o.hyperparameters.get("plane") for o in out.operations):
        raise Viol("not-diagonalised", "parametric measurement left with diagonalize_mcms=True", sig=sig, features=feats)
    new_wires = list(out.measurements[0].wires)
    order = sorted(used)
    U = tape_unitary(ops, order)
    psi = U[:, 0]
    # target on the measured wires: the state must be U|0> on ALL logical wires; unmeasured logical wires stay live in the pattern
    prog = tape_program(out.operations)
    n_meas = n_measurements(out.operations)
    hists, exhaustive = _histories(spec, n_meas)
    one = np.ones((1,), dtype=complex)
    total = 0.0
    n_h = 0
    saw_one = False
    for h in hists:
        for oc, keys, lv, t in dyn2.walk_compact(prog, [], one, forced=h if h else None):
            n_h += 1
            p = float(np.vdot(t, t).real)
            total += p
            if p < 1e-12:
                continue
            saw_one = saw_one or any(oc[k] for k in keys)
            if len(lv) != len(order):
                raise Viol("aux-wires-left", f"history {[oc[k] for k in keys]}: live wires {lv}, expected {len(order)} logical wires", sig=sig, features=feats)
            # the measured logical wires are known (new_wires); the other logical wires are the remaining live ones: compare reduced states
            if not set(new_wires) <= set(lv):
                raise Viol("output-wires", f"sampled wires {new_wires} are not the live wires {lv}", sig=sig, features=feats)
            rest = [w for w in lv if w not in new_wires]
            v = dyn2.arrange(t, lv, new_wires + rest)[:, 0] / np.sqrt(p)
            if rest:
                # reduced density matrix on the measured wires
                k = len(new_wires)
                m = v.reshape(2**k, -1)
                got = m @ m.conj().T
                want_full = psi.reshape((2,) * len(order))
                axes = [order.index(w) for w in meas]
                wv = np.transpose(want_full, axes + [a for a in range(len(order)) if a not in axes]).reshape(2**k, -1)
                want = wv @ wv.conj().T
                err = float(np.abs(got - want).max())
                bad = err > 1e-8
                info = f"reduced state differs by {err:.2e}"
            else:
                axes = [order.index(w) for w in meas]
                w_ = np.transpose(psi.reshape((2,) * len(order)), axes).reshape(-1)
                fid = abs(np.vdot(w_, v)) ** 2
                bad = fid < 1 - 1e-9
                info = f"fidelity with U|0..0> is {fid:.9f}"
            if bad:
                raise Viol("wrong-state", f"history {[oc[k] for k in keys]} (probability {p:.3e}): {info}", sig=sig, features=feats)
    if exhaustive and abs(total - 1) > 1e-8:
        raise AssertionError(f"history probabilities sum to {total}")
    nonpauli = any(o["op"] in ("Hadamard", "S", "RZ", "RotXZX", "CNOT") for o in spec["ops"])
    labels = [f"convert:{sig}", f"wires:{n}", f"meas:{min(n_meas, 40) // 4 * 4}", "exhaustive" if exhaustive else "forced-prefix", f"histories:{min(n_h, 8192)}"]
    labels += [f"gate:{g}" for g in sorted({o['op'] for o in spec['ops']})]
    return Result(nonpauli and saw_one, labels)


def check_byproduct(spec):
    import pennylane as qp
    from pennylane.ftqc import convert_to_mbqc_formalism, get_byproduct_corrections

    n = spec["n"]
    ops = _build(spec["ops"])
    used = {w for o in spec["ops"] for w in o["w"]}
    if used != set(range(n)) or not set(spec["meas"]) <= used:
        raise Reject("every wire 0..n-1 must be used")
    # documented restriction: a non-Clifford gate only as the first gate of its wire
    seen = set()
    for o in spec["ops"]:
        if o["op"] in ("RZ", "RotXZX") and any(w in seen for w in o["w"]):
            raise Reject("non-Clifford gate after another gate (documented restriction)")
        seen |= set(o["w"])
    meas = list(spec["meas"])
    tape = qp.tape.QuantumScript(ops, [qp.sample(wires=meas)], shots=10)
    (out,), _ = convert_to_mbqc_formalism(tape)
    new_wires = list(out.measurements[0].wires)
    prog = tape_program(out.operations, strip_pauli_corrections=True)
    n_meas = n_measurements(out.operations)
    order = sorted(used)
    psi = tape_unitary(ops, order)[:, 0]
    axes = [order.index(w) for w in meas]
    k = len(meas)
    wv = np.transpose(psi.reshape((2,) * n), axes + [a for a in range(n) if a not in axes]).reshape(2**k, -1)
    want = np.real(np.einsum("ij,ij->i", wv, wv.conj()))
    rng = np.random.default_rng(spec["hist_seed"])
    one = np.ones((1,), dtype=complex)
    nontrivial = False
    for _ in range(spec["n_hist"]):
        h = rng.integers(0, 2, size=n_meas).tolist()
        res = dyn2.walk_compact(prog, [], one, forced=h)
        if len(res) != 1:
            raise Reject("history impossible")
        oc, keys, lv, t = res[0]
        rest = [w for w in lv if w not in new_wires]
        v = dyn2.arrange(t, lv, new_wires + rest).reshape(2**k, -1)
        got = np.real(np.einsum("ij,ij->i", v, v.conj()))
        got = got / got.sum()
        x = get_byproduct_corrections(tape, list(h), [0] * k)
        x = [int(b) for b in np.asarray(x).reshape(-1)]
        if len(x) != k or any(b not in (0, 1) for b in x):
            raise Viol("byproduct-format", f"corrections {x} for {k} measured wires", sig="byproduct")
        flip = int("".join(map(str, x)), 2)
        shifted = np.array([got[i ^ flip] for i in range(2**k)])
        if np.abs(shifted - want).max() > 1e-8:
            raise Viol("byproduct-frame", f"history {h}: recorded X frame {x} on wires {meas}; uncorrected outcome distribution {np.round(got, 6).tolist()} shifted by it is "
                       f"{np.round(shifted, 6).tolist()}, exact {np.round(want, 6).tolist()}", sig="byproduct", features={"cnot": any(o['op'] == 'CNOT' for o in spec['ops'])})
        nontrivial = nontrivial or (any(x) and np.abs(got - want).max() > 1e-6)
    return Result(nontrivial, ["byproduct", f"wires:{n}"] + [f"gate:{g}" for g in sorted({o['op'] for o in spec['ops']})])


def check_gateset(spec):
    import pennylane as qp
    from pennylane.ftqc import convert_to_mbqc_gateset

    tape = specs.build_tape({"ops": spec["ops"], "meas": []})
    order = [specs.wire(w) for w in spec["wires"]]
    if not set(tape.wires) <= set(order):
        raise Reject("wires")
    was = qp.decomposition.enabled_graph()
    qp.decomposition.enable_graph()
    try:
        (out,), fn = convert_to_mbqc_gateset(tape)
    finally:
        if not was:
            qp.decomposition.disable_graph()
    names = {type(o).__name__ for o in out.operations}
    if not names <= MBQC_NAMES:
        raise Viol("gate-set", f"gates outside the MBQC set: {sorted(names - MBQC_NAMES)}", sig="gateset", features={"gates": sorted(names - MBQC_NAMES)})
    if not set(out.wires) <= set(order):
        raise Viol("gate-set", f"new wires {set(out.wires) - set(order)}", sig="gateset-wires")
    U0 = sim.unitary(tape.operations, order)
    U1 = tape_unitary(out.operations, order)
    if not sim.allclose_phase(U0, U1, 1e-7):
        raise Viol("gate-set-unitary", f"unitary changed (max |diff| up to phase {np.abs(U0 - U1 * (U0.flat[np.abs(U1).argmax()] / U1.flat[np.abs(U1).argmax()])).max():.2e})",
                   sig="gateset", features={"in": sorted({o['op'] for o in spec['ops']})})
    return Result(len(out.operations) > len(tape.operations) or names != {type(o).__name__ for o in tape.operations}, ["gateset"] + [f"in:{o['op']}" for o in spec["ops"]][:6])


def _diag_tape(spec):
    import pennylane as qp
    from pennylane.ftqc import cond_measure, measure_arbitrary_basis, measure_x, measure_y
    from functools import partial

    def mfun(desc):
        if desc[0] == "x":
            return measure_x
        if desc[0] == "y":
            return measure_y
        return partial(measure_arbitrary_basis, plane=desc[1], angle=desc[2])

    with qp.queuing.AnnotatedQueue() as q:
        mvs = []
        for s in spec["steps"]:
            if s["t"] == "g":
                specs.build_op(s["op"])
            elif s["t"] == "c":
                if s["on"] >= len(mvs):
                    raise Reject("unknown measurement")
                op_spec = s["op"]
                qp.cond(mvs[s["on"]], lambda o=op_spec: specs.build_op(o))()
            else:
                kind, w, reset = s["kind"], s["w"], bool(s["reset"])
                if kind == "x":
                    mvs.append(measure_x(w, reset=reset))
                elif kind == "y":
                    mvs.append(measure_y(w, reset=reset))
                elif kind == "z":
                    mvs.append(qp.measure(w, reset=reset))
                elif kind == "arb":
                    mvs.append(measure_arbitrary_basis(w, angle=s["angle"], plane=s["plane"], reset=reset))
                else:
                    if s["on"] >= len(mvs):
                        raise Reject("unknown measurement")
                    mvs.append(cond_measure(mvs[s["on"]], mfun(s["a"]), mfun(s["b"]))(wires=w, reset=reset))
        qp.probs(wires=list(range(spec["n"])))
    return qp.tape.QuantumScript.from_queue(q)


def check_diag(spec):
    from pennylane.ftqc import diagonalize_mcms

    n = spec["n"]
    # discipline: a wire measured without reset is never used again
    dead = set()
    for s in spec["steps"]:
        ws = s["op"]["w"] if s["t"] in ("g", "c") else [s["w"]]
        if any(w in dead for w in ws) or any(w >= n for w in ws):
            raise Reject("wire used after a measurement without reset")
        if s["t"] == "m" and not s["reset"]:
            dead.add(s["w"])
    tape = _diag_tape(spec)
    (out,), fn = diagonalize_mcms(tape)
    planes = sorted({(s.get("plane") or s["kind"]) for s in spec["steps"] if s["t"] == "m"} | {d[1] if d[0] == "arb" else d[0] for s in spec["steps"] if s["t"] == "m" and s["kind"] == "cond" for d in (s["a"], s["b"])})
    feats = {"planes": planes, "has_YZ": "YZ" in planes, "cond": any(s["t"] == "m" and s["kind"] == "cond" for s in spec["steps"])}
    sig = "YZ" if "YZ" in planes else "other"
    for o in out.operations:
        b = o.base if type(o).__name__ == "Conditional" else o
        if hasattr(b, "plane") and b.hyperparameters.get("plane") is not None:
            raise Viol("not-diagonalised", f"{b!r} left in the output", sig=sig, features=feats)
    if n_measurements(out.operations) != n_measurements(tape.operations):
        raise Viol("measurement-count", f"{n_measurements(tape.operations)} measurements became {n_measurements(out.operations)}", sig=sig, features=feats)
    keep = [w for w in range(n) if w not in dead]
    st0 = np.zeros((2,) * n + (1,), dtype=complex)
    st0[(0,) * n + (0,)] = 1

    def run(ops):
        res = {}
        for oc, keys, lv, t in dyn2.walk_compact(tape_program(ops), list(range(n)), st0):
            # conditional measurement pairs: the executed one defines the outcome of the pair; key = position in execution order
            hist = tuple(oc[k] for k in keys)
            full = [w for w in range(n) if w in lv]
            v = dyn2.arrange(t, lv, full)[:, 0]
            # reduced state on the kept wires (wires measured without reset hold a basis state of the respective basis)
            kk = [full.index(w) for w in keep if w in full]
            m = np.transpose(v.reshape((2,) * len(full)), kk + [a for a in range(len(full)) if a not in kk]).reshape(2 ** len(kk), -1)
            res[hist] = m @ m.conj().T
        return res

    a, b = run(tape.operations), run(out.operations)
    for h in sorted(set(a) | set(b)):
        ra, rb = a.get(h), b.get(h)
        pa = float(np.real(np.trace(ra))) if ra is not None else 0.0
        pb = float(np.real(np.trace(rb))) if rb is not None else 0.0
        if abs(pa - pb) > 1e-8:
            raise Viol("history-probability", f"history {list(h)}: probability {pa:.6f} in the original (documented measurement bases), {pb:.6f} after diagonalize_mcms", sig=sig, features=feats)
        if ra is not None and rb is not None and np.abs(ra - rb).max() > 1e-8:
            raise Viol("history-state", f"history {list(h)}: state on wires {keep} differs by {np.abs(ra - rb).max():.2e}", sig=sig, features=feats)
    return Result(len(a) > 1, ["diag"] + [f"basis:{p}" for p in planes] + (["cond-measure"] if feats["cond"] else []))


def check(spec):
    kind = spec["kind"]
    fn = {"commute": check_commute, "xz-tables": check_tables, "pauli-prod": check_prod, "tracker-errors": check_errors, "convert": check_convert,
          "byproduct": check_byproduct, "gateset": check_gateset, "diag": check_diag}.get(kind)
    if fn is None:
        raise Reject("unknown kind")
    return fn(spec)


def selftest():
    dyn2.selftest()
    # the reference bases: B maps the documented vectors to |0>, |1>
    for plane in ("XY", "ZX", "YZ"):
        B = basis_change(plane, 0.7)
        assert np.allclose(B @ B.conj().T, np.eye(2))
    assert np.allclose(basis_change("XY", 0.0), G.H)
    assert np.allclose(rotxzx(0.3, 0.0, 0.0), G.RX(0.3))
