"""C43 — tape-mode qp.for_loop / qp.while_loop / qp.cond equal plain Python control flow; qp.cond on
measurement values equals deferring the measurement."""
import numpy as np
from hypothesis import strategies as st

from pv import gen, specs
from pv.cmp import close, maxdiff
from pv.engine import Reject, Result, Viol
from pv.ref import sim

ID = "C43"
TECHNIQUE = ("hypothesis-generated structured programs interpreted twice (qp.for_loop/while_loop/cond closures vs plain Python "
             "for/while/if) and mid-circuit-measurement programs vs a branch-enumeration reference on an independent simulator")
RULE = (
    "Classical mode: nested programs (depth <= 3, <= 14 nodes) of gates whose wires/angles are integer-linear in loop indices "
    "and carried values, qp.for_loop in its 1/2/3-argument forms (start, stop-start in -6..6, step in +-1..3 and 0, bounds "
    "depending on outer indices, 0-2 carried values), qp.while_loop with a bounded counter (0-2 extra carried values, optional "
    "early-exit predicate), qp.cond over Python bools in call / decorator(else_if, otherwise) / operator-class form with "
    "0-2 elifs, optional else, arguments and return values. Oracle: the same AST run with Python range/while/if-elif-else "
    "records a qp.equal-identical operation list and returns identical values (ValueError for step 0 on both sides). "
    "MCM mode: 2-4 wires, gates, qp.measure (optional reset), qp.cond on m, ~m, m==v, m&m', m|m', m+m'==v, m!=m', m<m', m*m' "
    "with function / operator-class true and false branches; oracle (a) the recorded tape is MidMeasure/Conditional ops whose "
    "base equals the branch's ops and whose measurement value has the predicate's truth table, (b) qp.defer_measurements of "
    "that tape evaluated on the reference simulator equals the reference branch enumeration over all outcomes (projectors, "
    "reset, predicate evaluated from the spec), tolerance 1e-8; the enumeration is cross-checked against a hand-built "
    "deferred circuit. Non-trivial: a loop ran >= 2 iterations, a branch other than the first was taken, or (MCM) a "
    "conditional whose predicate is neither constant over reachable outcomes."
)
ASSUMPTIONS = [
    "Loop bounds and steps are Python ints; predicates of classical qp.cond are Python bools; program capture and qjit are off.",
    "Measurement-value predicates are boolean-valued expressions built with the documented operators (no Python and/or/not).",
    "No postselection inside conditionals' measurements (covered by the MCM properties).",
]
BUDGET = {"quick": {"examples": 1200}, "thorough": {"examples": 100000, "shards": 16}}
SHRINK_LISTS = ("body", "steps", "true", "false", "meas", "init", "upd", "args")

G1P = ["RX", "RY", "RZ", "PhaseShift"]
G1 = ["Hadamard", "PauliX", "S", "T"]
G2 = ["CNOT", "CZ"]
G2P = ["CRZ", "IsingXX"]

# ---------------------------------------------------------------------------------------------
# strategies
# ---------------------------------------------------------------------------------------------
small = st.integers(-3, 3)
ref = st.sampled_from([0, 0, 1, 1, 2, 3])


def iexpr():
    """Integer-linear expression over the scope: c + sum coef * scope[-1-ref]."""
    return st.tuples(st.integers(-2, 4), st.lists(st.tuples(st.sampled_from([1, 1, -1, 2]), ref), max_size=2)).map(
        lambda t: {"c": t[0], "t": [list(x) for x in t[1]]})


def pred():
    return st.tuples(st.sampled_from(["<", "==", "!=", ">=", "even"]), iexpr(), iexpr()).map(
        lambda t: {"cmp": t[0], "l": t[1], "r": t[2]})


def gate_stmt():
    return st.tuples(st.sampled_from(G1P + G1P + G1 + G2 + G2P), iexpr(), iexpr(), iexpr()).map(
        lambda t: {"k": "op", "g": t[0], "w": t[1], "w2": t[2], "a": t[3]})


IEXPR = iexpr()
PRED = pred()
GATE = gate_stmt()
OPT_IEXPR = st.one_of(st.none(), IEXPR)
OPT_PRED = st.one_of(st.none(), PRED)
G1P_S = st.sampled_from(G1P)
CARRY_F = st.sampled_from([0, 0, 1, 1, 2])
CARRY_W = st.sampled_from([0, 0, 1, 2])
FORM = st.sampled_from([1, 2, 3, 3, 3])
STEP = st.sampled_from([1, 1, 2, 3, -1, -1, -2, -3, 0])
STYLE = st.sampled_from(["call", "call", "deco", "optype"])
ELIFS_AS = st.sampled_from(["tuple", "list"])
I13 = st.integers(1, 3)
I02 = st.integers(0, 2)
I099 = st.integers(0, 99)
DELTA = st.integers(-6, 6)
D15 = st.integers(-1, 5)


@st.composite
def block(draw, budget, depth):
    out = []
    for _ in range(draw(I13)):
        if budget[0] <= 0:
            break
        budget[0] -= 1
        r = draw(I099)
        if r < 40 or depth >= 3:
            out.append(draw(GATE))
        elif r < 65:
            carry = draw(CARRY_F)
            delta, step = draw(DELTA), draw(STEP)
            if step * delta < 0 and draw(I099) < 70:
                step = -step   # mostly non-empty ranges; mismatched signs (empty range) stay in the mix
            out.append({"k": "for", "form": draw(FORM), "start": draw(IEXPR),
                        "delta": delta, "step": step,
                        "init": [draw(IEXPR) for _ in range(carry)], "body": draw(block(budget, depth + 1)),
                        "upd": [draw(IEXPR) for _ in range(carry)]})
        elif r < 80:
            carry = draw(CARRY_W)
            out.append({"k": "while", "limit": draw(IEXPR), "d": draw(D15), "inc": draw(I13),
                        "init": [draw(IEXPR) for _ in range(carry)], "body": draw(block(budget, depth + 1)),
                        "upd": [draw(IEXPR) for _ in range(carry)],
                        "stop_if": draw(OPT_PRED)})
        else:
            style = draw(STYLE)
            n = draw(I13)
            has_else = draw(st.booleans())
            nargs = draw(I02)
            c = {"k": "cond", "style": style, "preds": [draw(PRED) for _ in range(n)],
                 "elifs_as": draw(ELIFS_AS), "args": [draw(IEXPR) for _ in range(nargs)]}
            if style == "optype":
                c["gates"] = [draw(G1P_S) for _ in range(n)]
                c["else_gate"] = draw(G1P_S) if has_else else None
                c["w"] = draw(IEXPR)
                c["a"] = draw(IEXPR)
            else:
                c["branches"] = [draw(block(budget, depth + 1)) for _ in range(n)]
                c["rets"] = [draw(OPT_IEXPR) for _ in range(n)]
                c["else"] = {"body": draw(block(budget, depth + 1)), "ret": draw(OPT_IEXPR)} if has_else else None
            out.append(c)
    return out


@st.composite
def classical(draw, size):
    budget = [size]
    return {"mode": "classical", "nw": draw(st.integers(1, 4)), "body": draw(block(budget, 0)) + draw(block(budget, 0))}


MPRED = ["m", "not", "eq", "and", "or", "sumeq", "ne", "lt", "mul"]


@st.composite
def mcm(draw, tier):
    n = draw(st.integers(2, 4))
    wires = list(range(n))
    ang = gen.generic_angles()
    steps = list(draw(gen.op_list(wires, pool={**gen.GATES1, "CNOT": (0, 2), "CRY": (1, 2), "IsingXX": (1, 2)}, max_depth=3, ang=ang, p_derive=0)))
    steps = [{"k": "op", **o} for o in steps]
    nm = 0
    for _ in range(draw(st.integers(2, 7 if tier == "quick" else 10))):
        r = draw(st.integers(0, 9))
        if (r < 3 and nm < 3) or nm == 0:
            steps.append({"k": "measure", "w": draw(st.sampled_from(wires)), "reset": draw(st.sampled_from([False, False, False, True]))})
            nm += 1
        elif r < 5:
            steps.append({"k": "op", **draw(gen.gate(wires, {**gen.GATES1, "CNOT": (0, 2), "CRX": (1, 2)}, ang))})
        else:
            p = {"t": draw(st.sampled_from(MPRED)), "i": draw(st.integers(0, 3)), "j": draw(st.integers(0, 3)), "v": draw(st.integers(0, 1))}
            if p["t"] == "sumeq":
                p["v"] = draw(st.integers(0, 2))
            style = draw(st.sampled_from(["fn", "fn", "optype"]))
            c = {"k": "cond", "pred": p, "style": style}
            pool = {k: v for k, v in gen.GATES1.items()}
            pool.update({"CNOT": (0, 2), "CRZ": (1, 2), "SWAP": (0, 2), "Toffoli": (0, 3)})
            if style == "fn":
                c["true"] = draw(gen.op_list(wires, pool, max_depth=3, ang=ang, p_derive=0))
                c["false"] = draw(st.one_of(st.none(), gen.op_list(wires, pool, max_depth=2, ang=ang, p_derive=0)))
            else:
                npar = draw(st.sampled_from([0, 1, 1, 3]))
                names = {0: ["PauliX", "Hadamard", "S", "PauliZ"], 1: ["RX", "RY", "RZ", "PhaseShift"], 3: ["Rot", "U3"]}[npar]
                c["tg"] = draw(st.sampled_from(names))
                c["fg"] = draw(st.one_of(st.none(), st.sampled_from(names)))
                c["p"] = [draw(ang) for _ in range(npar)]
                c["w"] = [draw(st.sampled_from(wires))]
            steps.append(c)
    meas = draw(st.lists(gen.analytic_measurement(wires, with_state=False), min_size=1, max_size=2))
    meas = [m for m in meas if m["mp"] in ("expval", "var", "probs")]
    if not meas:
        meas = [{"mp": "probs", "w": wires}]
    return {"mode": "mcm", "nw": n, "steps": steps, "meas": meas}


def strategy(tier):
    return st.one_of(classical(14 if tier == "quick" else 22), classical(14 if tier == "quick" else 22), mcm(tier))


# ---------------------------------------------------------------------------------------------
# shared leaf evaluation (expressions, gate emission) — control flow is NOT shared
# ---------------------------------------------------------------------------------------------

def ev(e, scope):
    v = e["c"]
    if scope:
        for coef, r in e["t"]:
            v += coef * scope[len(scope) - 1 - (r % len(scope))]
    return v


def evp(p, scope):
    a, b = ev(p["l"], scope), ev(p["r"], scope)
    c = p["cmp"]
    if c == "<":
        return a < b
    if c == "==":
        return a == b
    if c == "!=":
        return a != b
    if c == ">=":
        return a >= b
    return (a + b) % 2 == 0


def emit(qp, s, scope, nw):
    g = s["g"]
    w = ev(s["w"], scope) % nw
    ang = 0.1 * ev(s["a"], scope)
    if g in G1P:
        return getattr(qp, g)(ang, wires=w)
    if g in G1:
        return getattr(qp, g)(wires=w)
    if nw < 2:
        return qp.RX(ang, wires=w)
    w2 = (w + 1 + ev(s["w2"], scope) % (nw - 1)) % nw
    if g in G2:
        return getattr(qp, g)(wires=[w, w2])
    return getattr(qp, g)(ang, wires=[w, w2])


class Trace:
    def __init__(self):
        self.vals = []
        self.iters = 0          # max iterations of any loop
        self.branch = set()     # which branch indices were taken (0 = first, ..., "else", "none")
        self.kinds = set()


def _norm(carry, res):
    if carry == 0:
        return None if res is None else ("unexpected", repr(res))
    if carry == 1:
        return res
    if not isinstance(res, (tuple, list)) or len(res) != carry:
        return ("unexpected", repr(res))
    return tuple(res)


def _arity(what, got, want):
    if len(got) != want:
        raise Viol("callback-arity", f"{what} was called with {len(got)} carried values, the loop carries {want}")


# ---------------------------------------------------------------------------------------------
# interpreter A: plain Python control flow
# ---------------------------------------------------------------------------------------------

def py_block(qp, stmts, scope, nw, tr):
    for s in stmts:
        k = s["k"]
        if k == "op":
            emit(qp, s, scope, nw)
        elif k == "for":
            carried = [ev(e, scope) for e in s["init"]]
            start, stop, step = for_bounds(s, scope)
            n = 0
            for i in range(start, stop, step):
                inner = scope + [i] + carried
                py_block(qp, s["body"], inner, nw, tr)
                carried = [ev(e, inner) for e in s["upd"]]
                n += 1
            tr.iters = max(tr.iters, n)
            tr.kinds.add("for")
            tr.vals.append(("for", None if not carried else carried[0] if len(carried) == 1 else tuple(carried)))
        elif k == "while":
            limit = ev(s["limit"], scope)
            carried = [limit - s["d"]] + [ev(e, scope) for e in s["init"]]
            n = 0
            while carried[0] < limit and not (s["stop_if"] is not None and evp(s["stop_if"], scope + carried)):
                inner = scope + carried
                py_block(qp, s["body"], inner, nw, tr)
                carried = [carried[0] + s["inc"]] + [ev(e, inner) for e in s["upd"]]
                n += 1
            tr.iters = max(tr.iters, n)
            tr.kinds.add("while")
            tr.vals.append(("while", carried[0] if len(carried) == 1 else tuple(carried)))
        elif k == "cond":
            args = [ev(e, scope) for e in s["args"]]
            preds = [evp(p, scope) for p in s["preds"]]
            inner = scope + args
            res = None
            taken = "none"
            if s["style"] == "optype":
                w = ev(s["w"], scope) % nw
                a = 0.1 * ev(s["a"], scope)
                if preds[0]:
                    getattr(qp, s["gates"][0])(a, wires=w)
                    taken = 0
                elif len(preds) > 1 and preds[1]:
                    getattr(qp, s["gates"][1])(a, wires=w)
                    taken = 1
                elif len(preds) > 2 and preds[2]:
                    getattr(qp, s["gates"][2])(a, wires=w)
                    taken = 2
                elif s["else_gate"]:
                    getattr(qp, s["else_gate"])(a, wires=w)
                    taken = "else"
            else:
                if preds[0]:
                    py_block(qp, s["branches"][0], inner, nw, tr)
                    res = None if s["rets"][0] is None else ev(s["rets"][0], inner)
                    taken = 0
                elif len(preds) > 1 and preds[1]:
                    py_block(qp, s["branches"][1], inner, nw, tr)
                    res = None if s["rets"][1] is None else ev(s["rets"][1], inner)
                    taken = 1
                elif len(preds) > 2 and preds[2]:
                    py_block(qp, s["branches"][2], inner, nw, tr)
                    res = None if s["rets"][2] is None else ev(s["rets"][2], inner)
                    taken = 2
                elif s["else"] is not None:
                    py_block(qp, s["else"]["body"], inner, nw, tr)
                    res = None if s["else"]["ret"] is None else ev(s["else"]["ret"], inner)
                    taken = "else"
                tr.vals.append(("cond", res))
            tr.branch.add(taken)
            tr.kinds.add("cond:" + s["style"])


def for_bounds(s, scope):
    if s["form"] == 1:
        return 0, s["delta"], 1
    start = ev(s["start"], scope)
    if s["form"] == 2:
        return start, start + s["delta"], 1
    return start, start + s["delta"], s["step"]


# ---------------------------------------------------------------------------------------------
# interpreter B: qp.for_loop / qp.while_loop / qp.cond
# ---------------------------------------------------------------------------------------------

def qp_block(qp, stmts, scope, nw, tr):  # noqa: C901
    for s in stmts:
        k = s["k"]
        if k == "op":
            emit(qp, s, scope, nw)
        elif k == "for":
            init = [ev(e, scope) for e in s["init"]]
            carry = len(init)
            start, stop, step = for_bounds(s, scope)
            if s["form"] == 1:
                deco = qp.for_loop(stop)
            elif s["form"] == 2:
                deco = qp.for_loop(start, stop)
            else:
                deco = qp.for_loop(start, stop, step)

            def body(i, *carried, s=s, scope=scope, carry=carry):
                _arity("for_loop body", carried, carry)
                inner = scope + [i] + list(carried)
                qp_block(qp, s["body"], inner, nw, tr)
                new = [ev(e, inner) for e in s["upd"]]
                return None if carry == 0 else new[0] if carry == 1 else tuple(new)

            res = deco(body)(*init)
            tr.vals.append(("for", _norm(carry, res)))
        elif k == "while":
            limit = ev(s["limit"], scope)
            init = [limit - s["d"]] + [ev(e, scope) for e in s["init"]]
            carry = len(init)

            def cond_fn(*carried, s=s, scope=scope, limit=limit, carry=carry):
                _arity("while_loop cond_fn", carried, carry)
                return carried[0] < limit and not (s["stop_if"] is not None and evp(s["stop_if"], scope + list(carried)))

            def wbody(*carried, s=s, scope=scope, carry=carry):
                _arity("while_loop body", carried, carry)
                inner = scope + list(carried)
                qp_block(qp, s["body"], inner, nw, tr)
                new = [carried[0] + s["inc"]] + [ev(e, inner) for e in s["upd"]]
                return new[0] if carry == 1 else tuple(new)

            res = qp.while_loop(cond_fn)(wbody)(*init)
            tr.vals.append(("while", _norm(carry, res)))
        elif k == "cond":
            args = [ev(e, scope) for e in s["args"]]
            preds = [evp(p, scope) for p in s["preds"]]
            if s["style"] == "optype":
                w = ev(s["w"], scope) % nw
                a = 0.1 * ev(s["a"], scope)
                cls = [getattr(qp, g) for g in s["gates"]]
                elifs = [(p, c) for p, c in zip(preds[1:], cls[1:])]
                elifs = tuple(elifs) if s["elifs_as"] == "tuple" else elifs
                false_fn = getattr(qp, s["else_gate"]) if s["else_gate"] else None
                if elifs:
                    qp.cond(preds[0], cls[0], false_fn, elifs)(a, wires=w)
                elif false_fn is not None:
                    qp.cond(preds[0], cls[0], false_fn)(a, wires=w)
                else:
                    qp.cond(preds[0], cls[0])(a, wires=w)
                continue

            def mk(body, ret, scope=scope):
                def fn(*a, nargs=len(args)):
                    _arity("cond branch", a, nargs)
                    inner = scope + list(a)
                    qp_block(qp, body, inner, nw, tr)
                    return None if ret is None else ev(ret, inner)
                return fn

            fns = [mk(b, r) for b, r in zip(s["branches"], s["rets"])]
            else_fn = mk(s["else"]["body"], s["else"]["ret"]) if s["else"] is not None else None
            if s["style"] == "call":
                elifs = [(p, f) for p, f in zip(preds[1:], fns[1:])]
                elifs = tuple(elifs) if s["elifs_as"] == "tuple" else elifs
                if elifs:
                    c = qp.cond(preds[0], fns[0], else_fn, elifs=elifs) if s["elifs_as"] == "list" else qp.cond(preds[0], fns[0], else_fn, elifs)
                else:
                    c = qp.cond(preds[0], fns[0], else_fn)
            else:
                c = qp.cond(preds[0])(fns[0])
                for p, f in zip(preds[1:], fns[1:]):
                    c = c.else_if(p)(f)
                if else_fn is not None:
                    c = c.otherwise(else_fn)
            tr.vals.append(("cond", c(*args)))


def run(qp, spec, which):
    tr = Trace()
    exc = None

    def qfunc():
        (py_block if which == "py" else qp_block)(qp, spec["body"], [], spec["nw"], tr)

    try:
        tape = qp.tape.make_qscript(qfunc)()
    except ValueError as e:
        if "arg 3 must not be zero" not in str(e):
            raise
        return None, tr, "ValueError:step0"
    return tape, tr, exc


def check_classical(qp, spec):
    t_py, tr_py, e_py = run(qp, spec, "py")
    t_qp, tr_qp, e_qp = run(qp, spec, "qp")
    if qp.queuing.QueuingManager.recording():
        raise Viol("recording-leak", "a queuing context is still active after the program")
    if e_py != e_qp:
        raise Viol("exception", f"python: {e_py} qp: {e_qp}")
    labels = sorted(tr_py.kinds) + [f"iters{min(tr_py.iters, 4)}"] + [f"branch:{b}" for b in sorted(map(str, tr_py.branch))]
    if e_py:
        return Result(False, labels + ["step0"])
    a, b = t_py.operations, t_qp.operations
    if len(a) != len(b):
        raise Viol("op-count", f"python control flow records {len(a)} ops, qp control flow {len(b)}: {[str(o) for o in a][:12]} vs {[str(o) for o in b][:12]}")
    for i, (x, y) in enumerate(zip(a, b)):
        if not qp.equal(x, y):
            raise Viol("op-differs", f"position {i}: python {x} qp {y}")
    if tr_py.vals != tr_qp.vals:
        raise Viol("returned-values", f"python {tr_py.vals} qp {tr_qp.vals}")
    nt = tr_py.iters >= 2 or any(br != 0 for br in tr_py.branch)
    return Result(nt and len(a) > 0, labels)


# ---------------------------------------------------------------------------------------------
# MCM mode
# ---------------------------------------------------------------------------------------------

def mpred_bits(p, bits):
    """Truth value of predicate spec `p` given the list of measured bits so far."""
    n = len(bits)
    a, b = bits[p["i"] % n], bits[p["j"] % n]
    t = p["t"]
    if t == "m":
        return a == 1
    if t == "not":
        return a == 0
    if t == "eq":
        return a == p["v"]
    if t == "and":
        return bool(a & b)
    if t == "or":
        return bool(a | b)
    if t == "sumeq":
        return a + b == p["v"]
    if t == "ne":
        return a != b
    if t == "lt":
        return a < b
    if t == "mul":
        return a * b == 1
    raise ValueError(t)


def mpred_value(p, ms):
    n = len(ms)
    a, b = ms[p["i"] % n], ms[p["j"] % n]
    t = p["t"]
    if t == "m":
        return a
    if t == "not":
        return ~a
    if t == "eq":
        return a == p["v"]
    if t == "and":
        return a & b
    if t == "or":
        return a | b
    if t == "sumeq":
        return (a + b) == p["v"]
    if t == "ne":
        return a != b
    if t == "lt":
        return a < b
    if t == "mul":
        return (a * b) == 1
    raise ValueError(t)


def mpred_mcms(p, n):
    t = p["t"]
    return [p["i"] % n] if t in ("m", "not", "eq") else sorted({p["i"] % n, p["j"] % n})


def branch_ops(c):
    """(true ops, false ops or None) as op specs."""
    if c["style"] == "fn":
        return c["true"], c["false"]
    t = [{"op": c["tg"], "p": c["p"], "w": c["w"]}]
    f = [{"op": c["fg"], "p": c["p"], "w": c["w"]}] if c["fg"] else None
    return t, f


def build_mcm_tape(qp, spec):
    def qfunc():
        ms = []
        for s in spec["steps"]:
            if s["k"] == "op":
                specs.build_op(s)
            elif s["k"] == "measure":
                ms.append(qp.measure(s["w"], reset=s["reset"]))
            elif ms:
                mv = mpred_value(s["pred"], ms)
                if s["style"] == "fn":
                    def tf(s=s):
                        for o in s["true"]:
                            specs.build_op(o)

                    def ff(s=s):
                        for o in s["false"]:
                            specs.build_op(o)

                    if s["false"] is None:
                        qp.cond(mv, tf)()
                    else:
                        qp.cond(mv, tf, ff)()
                else:
                    tg = getattr(qp, s["tg"])
                    if s["fg"]:
                        qp.cond(mv, tg, getattr(qp, s["fg"]))(*s["p"], wires=s["w"])
                    else:
                        qp.cond(mv, tg)(*s["p"], wires=s["w"])
        for m in spec["meas"]:
            specs.build_meas(m)

    return qp.tape.make_qscript(qfunc)()


def enumerate_branches(qp, spec, order):
    """Reference semantics: list of (bits, unnormalised state tensor) after all steps."""
    n = len(order)
    P = [np.diag([1.0, 0.0]).astype(complex), np.diag([0.0, 1.0]).astype(complex)]
    X = np.array([[0, 1], [1, 0]], dtype=complex)
    branches = [([], sim.zero_state(n))]
    info = {"nonconst": 0, "conds": 0}
    for s in spec["steps"]:
        if s["k"] == "op":
            op = specs.build_op(s)
            branches = [(b, sim.apply_op(psi, op, order)) for b, psi in branches]
        elif s["k"] == "measure":
            ax = [order.index(s["w"])]
            new = []
            for b, psi in branches:
                for out in (0, 1):
                    phi = sim.apply(psi, P[out], ax)
                    if s["reset"] and out == 1:
                        phi = sim.apply(phi, X, ax)
                    new.append((b + [out], phi))
            branches = new
        else:
            if not branches[0][0]:
                continue
            t_ops, f_ops = branch_ops(s)
            t_ops = [specs.build_op(o) for o in t_ops]
            f_ops = [specs.build_op(o) for o in f_ops] if f_ops is not None else None
            new = []
            seen = set()
            for b, psi in branches:
                val = mpred_bits(s["pred"], b)
                if np.linalg.norm(psi) > 1e-9:
                    seen.add(val)
                todo = t_ops if val else (f_ops or [])
                for op in todo:
                    psi = sim.apply_op(psi, op, order)
                new.append((b, psi))
            branches = new
            info["conds"] += 1
            info["nonconst"] += len(seen) == 2
    return branches, info


def measure_mixture(branches, mp, order):
    kind = type(mp).__name__
    flat = [psi.reshape(-1) for _, psi in branches]
    if kind == "ProbabilityMP":
        return sum(sim.measure(psi, mp, order) for psi in flat)
    O = sim.obs_matrix(mp.obs, order)
    e = sum(np.vdot(psi, O @ psi).real for psi in flat)
    if kind == "ExpectationMP":
        return e
    e2 = sum(np.vdot(psi, O @ (O @ psi)).real for psi in flat)
    return e2 - e * e


def manual_deferred(qp, spec, order):
    """Hand-built deferred circuit: every measurement copies its wire to a fresh auxiliary wire (and un-computes the wire for
    reset); conditionals become controlled ops on the auxiliary wires, one per satisfying assignment."""
    import itertools

    ops = []
    aux = []
    for s in spec["steps"]:
        if s["k"] == "op":
            ops.append(specs.build_op(s))
        elif s["k"] == "measure":
            a = f"aux{len(aux)}"
            aux.append(a)
            ops.append(qp.CNOT(wires=[s["w"], a]))
            if s["reset"]:
                ops.append(qp.CNOT(wires=[a, s["w"]]))
        elif aux:
            t_ops, f_ops = branch_ops(s)
            idx = mpred_mcms(s["pred"], len(aux))
            for assign in itertools.product([0, 1], repeat=len(idx)):
                bits = [0] * len(aux)
                for i, v in zip(idx, assign):
                    bits[i] = v
                val = mpred_bits(s["pred"], bits)
                todo = t_ops if val else (f_ops or [])
                for o in todo:
                    ops.append(qp.ctrl(specs.build_op(o), control=[aux[i] for i in idx], control_values=list(assign)))
    return ops, aux


def check_mcm(qp, spec):  # noqa: C901
    order = list(range(spec["nw"]))
    tape = build_mcm_tape(qp, spec)
    # ---- (a) structure of the recorded tape
    uid_index = {}
    pos = 0
    recorded = list(tape.operations)

    def nxt(what):
        nonlocal pos
        if pos >= len(recorded):
            raise Viol("tape-structure", f"tape ended, expected {what}; tape={[str(o) for o in recorded]}")
        o = recorded[pos]
        pos += 1
        return o

    nmeas = 0
    for s in spec["steps"]:
        if s["k"] == "op":
            o = nxt("op")
            if not qp.equal(o, specs.build_op(s)):
                raise Viol("tape-structure", f"expected {s} got {o}")
        elif s["k"] == "measure":
            o = nxt("MidMeasure")
            if type(o).__name__ != "MidMeasure" or list(o.wires) != [s["w"]] or bool(o.reset) != s["reset"] or o.postselect is not None:
                raise Viol("tape-structure", f"expected measure({s['w']}, reset={s['reset']}) got {o}")
            uid_index[o.meas_uid] = nmeas
            nmeas += 1
        elif nmeas:
            t_ops, f_ops = branch_ops(s)
            for want, lst in ((True, t_ops), (False, f_ops or [])):
                for ospec in lst:
                    o = nxt("Conditional")
                    if type(o).__name__ != "Conditional":
                        raise Viol("tape-structure", f"expected Conditional({ospec}) got {o}", sig="not-conditional")
                    if not qp.equal(o.base, specs.build_op(ospec)):
                        raise Viol("conditional-base", f"expected base {ospec} got {o.base}")
                    mv = o.meas_val
                    idx = [uid_index[m.meas_uid] for m in mv.measurements]
                    for assign, val in mv.branches.items():
                        bits = [0] * nmeas
                        for i, v in zip(idx, assign):
                            bits[i] = int(v)
                        exp = mpred_bits(s["pred"], bits) == want
                        # the predicate may only depend on measurements listed by the value
                        if bool(val) != exp:
                            raise Viol("conditional-predicate", f"{s['pred']} ({'true' if want else 'false'} branch) at outcomes {bits}: "
                                       f"measurement value gives {val}, expected {exp}", sig=s["pred"]["t"])
                    need = set(mpred_mcms(s["pred"], nmeas))
                    if not need <= set(idx) and _depends(s["pred"], nmeas, need - set(idx)):
                        raise Viol("conditional-predicate", f"{s['pred']}: value ignores measurement(s) {need - set(idx)}", sig=s["pred"]["t"])
    if pos != len(recorded):
        raise Viol("tape-structure", f"{len(recorded) - pos} extra operations recorded: {[str(o) for o in recorded[pos:]]}")
    # ---- (b) semantics: defer_measurements(tape) on the reference simulator vs branch enumeration
    branches, info = enumerate_branches(qp, spec, order)
    ref_res = [measure_mixture(branches, mp, order) for mp in tape.measurements]
    man_ops, aux = manual_deferred(qp, spec, order)
    man = sim.run_ops(man_ops, order + aux)
    for mp, r in zip(tape.measurements, ref_res):
        m = sim.measure(man, mp, order + aux)
        if not close(np.asarray(m), np.asarray(r), 1e-9):
            raise RuntimeError(f"harness: branch enumeration and hand-deferred circuit disagree ({m} vs {r})")
    try:
        (dtape,), fn = qp.defer_measurements(tape)
    except ValueError as e:
        raise e
    dorder = order + [w for w in dtape.wires if w not in order]
    if len(dorder) > 12:
        raise Reject("too many auxiliary wires")
    got = sim.run_tape(dtape, dorder)
    got = fn([got if len(got) != 1 else got[0]])
    if len(tape.measurements) == 1:
        got = (got,)
    for mp, g, r in zip(tape.measurements, got, ref_res):
        if not close(np.asarray(g), np.asarray(r), 1e-8):
            raise Viol("deferred-semantics", f"{mp}: deferred tape gives {np.asarray(g)} reference {np.asarray(r)} diff={maxdiff(np.asarray(g), np.asarray(r))}",
                       sig=type(mp).__name__)
    labels = ["mcm", f"mcms{nmeas}", f"conds{min(info['conds'], 4)}"]
    labels += sorted({"pred:" + s["pred"]["t"] for s in spec["steps"] if s["k"] == "cond"})
    labels += sorted({"style:" + s["style"] for s in spec["steps"] if s["k"] == "cond"})
    if any(s["k"] == "measure" and s["reset"] for s in spec["steps"]):
        labels.append("reset")
    return Result(info["nonconst"] >= 1, labels)


def _depends(p, n, which):
    import itertools

    for bits in itertools.product([0, 1], repeat=n):
        for i in which:
            flipped = list(bits)
            flipped[i] ^= 1
            if mpred_bits(p, list(bits)) != mpred_bits(p, flipped):
                return True
    return False


def check(spec):
    import pennylane as qp

    if qp.capture.enabled():
        raise RuntimeError("harness: program capture is enabled")
    if spec["mode"] == "classical":
        return check_classical(qp, spec)
    return check_mcm(qp, spec)


def selftest():
    sim.selftest()
    assert ev({"c": 1, "t": [[2, 0], [-1, 1]]}, [5, 7]) == 1 + 14 - 5
    assert mpred_bits({"t": "sumeq", "i": 0, "j": 1, "v": 1}, [1, 0]) is True
