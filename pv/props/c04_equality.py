"""C04 — qp.equal is an equivalence compatible with hashing and matrices (operators and measurement processes)."""
import copy
import math

import numpy as np
from hypothesis import strategies as st

from pv import gen, specs, zoo, zoo_extra
from pv.cmp import maxdiff
from pv.engine import Reject, Result, Viol
from pv.props import c03_operator_arithmetic as c03
from pv.specs import wire

ID = "C04"
TECHNIQUE = ("hypothesis-generated operators / measurement processes with independent rebuilds, copies and single-field mutations of the "
             "spec; oracle = reflexivity, rebuild equality + hash equality, symmetry of qp.equal, and equal => same matrix")
RULE = (
    "Object a: a zoo leaf (every class with a builder), a leaf under adjoint/pow/ctrl wrappers, a nested arithmetic expression (C03's generator) or a "
    "measurement process (expval/var/probs/sample/counts/state/density_matrix/purity/vn_entropy/mutual_info over generated observables / wires). "
    "b = an independent rebuild from the same spec, copy.copy, copy.deepcopy and a pytree flatten/unflatten round trip. c = a single-field mutation of "
    "the spec chosen among: one parameter shifted by 1e-3 / 0.1 / 2pi / 4pi / 1e-12, one wire relabelled or two wires swapped, one hyperparameter "
    "changed (pauli word letter, control value, dim, rotation axis, order ...), control value flipped, control wires swapped / replaced / one added, coefficient / scalar "
    "changed, operand order swapped, exponent changed, gate class replaced by one with the same signature, measurement kind / log base / wires "
    "changed. Oracle: qp.equal(a,a); qp.equal(a,b) and qp.equal(b,a) and hash(a)==hash(b) and {a,b} has one element; "
    "qp.equal(a,c)==qp.equal(c,a) for every structural mutation or shift >= 1e-3; qp.equal(x,y) True => the matrices of x and y on the joint wire "
    "order agree within 10x the tolerance handed to qp.equal scaled by the parameter magnitude (for measurements: their observables). Non-trivial: a "
    "mutated pair whose objects are nested, parametrised or carry hyperparameters."
)
ASSUMPTIONS = [
    "No claim that unequal hashes imply unequal objects, nor that objects equal only within tolerance hash equally.",
    "A 2pi / 4pi shift may legitimately compare equal or unequal; only symmetry and 'equal => same matrix' are asserted for it.",
    "Measurement processes over mid-circuit-measurement values are not generated (a rebuilt qp.measure carries a fresh id by design).",
    "LinearCombination @ LinearCombination on shared wires is refused by __matmul__ with its own ValueError (stated precondition): rejected, after "
    "verifying on the built operands that the pair really is two LinearCombinations with a common wire.",
    "Matrix implication only where both objects expose a matrix through qp.matrix (channels, state preparations, matrix-free templates with work wires skip it).",
]
BUDGET = {"quick": {"examples": 1100}, "thorough": {"examples": 100000, "shards": 16}}
SHRINK_LISTS = ("operands",)

DELTAS = [1e-3, 0.1, 2 * math.pi, 4 * math.pi, -2 * math.pi, 1e-12]
SAME_SIG = [["RX", "RY", "RZ", "PhaseShift", "U1"], ["PauliX", "PauliY", "PauliZ", "Hadamard", "S", "T", "SX"], ["CNOT", "CZ", "CY", "CH", "SWAP", "ISWAP"],
            ["CRX", "CRY", "CRZ", "ControlledPhaseShift", "IsingXX", "IsingYY", "IsingZZ", "IsingXY", "SingleExcitation"], ["Toffoli", "CSWAP", "CCZ"],
            ["QFT", "GroverOperator"], ["BitFlip", "PhaseFlip", "DepolarizingChannel", "AmplitudeDamping", "PhaseDamping"]]
MP_OBS = ["expval", "var", "sample", "counts", "probs"]
MP_W = ["probs", "sample", "counts", "density_matrix", "purity", "vn_entropy"]


@st.composite
def _meas(draw, wires):
    kind = draw(st.sampled_from(["expval", "var", "probs_obs", "sample_obs", "counts_obs", "probs", "sample", "counts", "state", "density_matrix",
                                 "purity", "vn_entropy", "mutual_info"]))
    if kind in ("expval", "var") or kind.endswith("_obs"):
        obs = draw(st.one_of(gen.observable(wires), c03.expr(wires[:3], 2, "H")))
        k = kind.replace("_obs", "")
        if k in ("probs", "sample", "counts"):
            obs = draw(gen.pauli_word_obs(wires))
        return {"mp": k, "obs": obs}
    if kind == "state":
        return {"mp": "state"}
    if kind == "mutual_info":
        p = draw(st.permutations(wires))
        k0 = draw(st.integers(1, max(1, len(p) - 1)))
        if len(p) < 2:
            return {"mp": "purity", "w": list(p)}
        return {"mp": "mutual_info", "w0": list(p[:k0]), "w1": list(p[k0:k0 + draw(st.integers(1, len(p) - k0))]), "log_base": draw(st.sampled_from([None, 2, 10]))}
    w = draw(st.integers(1, len(wires)).flatmap(lambda k: gen.subset(wires, k)))
    out = {"mp": kind, "w": w}
    if kind == "vn_entropy":
        out["log_base"] = draw(st.sampled_from([None, 2, 10]))
    if kind == "counts":
        out["all_outcomes"] = draw(st.booleans())
    return out


@st.composite
def _case(draw, tier):
    kind = draw(st.sampled_from(["leaf"] * 4 + ["wrapped"] * 2 + ["expr"] * 3 + ["meas"] * 3))
    wires = draw(gen.wire_labels(6))
    if kind == "leaf":
        name = draw(st.sampled_from(sorted(zoo.ZOO)))
        a = draw(zoo.ZOO[name][0](wires))
    elif kind == "wrapped":
        a = draw(zoo.wrapped(wires[:4], "matrix", max_depth=3))
    elif kind == "expr":
        a = draw(c03.expr(wires[:draw(st.integers(1, 4))], draw(st.integers(1, 3)), draw(st.sampled_from(["U", "H", "M"]))))
    else:
        a = draw(_meas(wires[:4]))
    return {"a": a, "site": draw(st.integers(0, 10**6)), "how": draw(st.integers(0, 10**6)), "fresh": draw(st.sampled_from(["nw", 77, "q9"]))}


def strategy(tier):
    return _case(tier)


def enumerate_cases(tier):
    yield {"coverage": True}
    # broadcast operators whose batches repeat one value: batch size 1 / 3 / 2 and the scalar are four different operators
    for name, nw in (("RX", 1), ("PhaseShift", 1), ("CRZ", 2), ("IsingXX", 2)):
        w = [0, "t"][:nw]
        forms = {"scalar": 0.3, "b1": [0.3], "b2": [0.3, 0.3], "b3": [0.3, 0.3, 0.3]}
        keys = list(forms)
        for i, ka in enumerate(keys):
            for kb in keys[i + 1:]:
                for wrap in (None, "adjoint"):
                    a, b = {"op": name, "p": [forms[ka]], "w": w}, {"op": name, "p": [forms[kb]], "w": w}
                    if wrap:
                        a, b = {"op": "adjoint", "base": a}, {"op": "adjoint", "base": b}
                    yield {"pair": {"a": a, "b": b, "kind": f"batch:{ka}/{kb}"}}
    # controlled operators with several control wires and mixed control values, mutated by swapping two control wires
    # (same wire set, same positional values, different map): symmetric-looking comparisons are easy to get wrong here
    bases = [{"op": "RX", "p": [0.37], "w": [0]}, {"op": "PauliZ", "p": [], "w": ["t"]}, {"op": "IsingXX", "p": [1.1], "w": [0, "t"]},
             {"op": "QubitUnitary", "p": [{"U": [0.2, -0.4, 0.7], "n": 1}], "w": [0]}]
    k = 0
    for b in bases:
        for cw, cv in ((["a", "b"], [1, 0]), (["a", "b"], [0, 1]), ([5, "b", 7], [1, 0, 0]), ([5, "b", 7], [0, 1, 1])):
            for wrap in (None, "adjoint", "pow"):
                a = {"op": "ctrl", "base": b, "cw": cw, "cv": cv}
                if wrap == "adjoint":
                    a = {"op": "adjoint", "base": a}
                elif wrap == "pow":
                    a = {"op": "pow", "base": a, "z": 2}
                for force in ("control-swap", "control-value"):
                    k += 1
                    yield {"a": a, "site": k, "how": k, "fresh": "nw", "force": force}


# ---------------------------------------------------------------------------------------------------
# mutations of a spec
# ---------------------------------------------------------------------------------------------------

def _sites(s, path=()):
    """All (path, kind) mutation sites of a spec."""
    out = []
    if not isinstance(s, dict):
        return out
    if "mp" in s:
        out.append((path, "mp-kind"))
        if s.get("w"):
            out.append((path, "wire"))
        if "log_base" in s:
            out.append((path, "log_base"))
        if "all_outcomes" in s:
            out.append((path, "all_outcomes"))
        if isinstance(s.get("obs"), dict):
            out += _sites(s["obs"], path + ("obs",))
        return out
    kind = s["op"]
    for k in ("base", "compute", "target", "uncompute"):
        if isinstance(s.get(k), dict):
            out += _sites(s[k], path + (k,))
    for i, o in enumerate(s.get("operands") or []):
        out += _sites(o, path + ("operands", i))
    if s.get("operands") and len(s["operands"]) >= 2 and kind in ("prod", "sum", "lincomb", "dot"):
        out.append((path, "operand-order"))
    if kind in ("s_prod", "exp", "evolution"):
        out.append((path, "scalar"))
    if kind in ("lincomb", "dot"):
        out.append((path, "coeff"))
    if kind == "pow":
        out.append((path, "exponent"))
    if kind == "ctrl":
        out.append((path, "control-value"))
        if len(s["cw"]) >= 2:
            out.append((path, "control-swap"))
        out.append((path, "control-wire"))
        out.append((path, "control-add"))
    if kind in ("adjoint", "pow", "ctrl", "prod", "sum"):
        out.append((path, "wrap-adjoint"))
    if "w" in s or "p" in s:  # leaf
        p = s.get("p") or []
        if any(isinstance(x, (int, float)) and not isinstance(x, bool) for x in p):
            out.append((path, "param"))
        if any(isinstance(x, dict) and any(k in x for k in ("U", "H", "vec", "arr", "kraus", "rho", "sparseH", "Udim", "phases")) for x in p):
            out.append((path, "array-param"))
        if s.get("w"):
            out.append((path, "wire"))
            if len(s["w"]) >= 2:
                out.append((path, "wire-swap"))
        kw = s.get("kw") or {}
        if any(k in kw for k in ("pauli_word", "control_values", "dim", "rotation", "rot_axis", "order", "state", "permutation", "value", "geq", "operators",
                                 "n_repeats", "seed", "reset", "postselect", "only_visual", "tag", "local_field", "iters", "n", "time", "alpha", "mod", "k")):
            out.append((path, "hyper"))
        if any(kind in grp for grp in SAME_SIG):
            out.append((path, "class"))
    return out


def _get(s, path):
    for k in path:
        s = s[k]
    return s


def _set(s, path, val):
    if not path:
        return val
    if isinstance(s, dict):
        out = dict(s)
        out[path[0]] = _set(s[path[0]], path[1:], val)
        return out
    out = list(s)
    out[path[0]] = _set(s[path[0]], path[1:], val)
    return out


def _shift_scalar(c, d):
    if isinstance(c, dict) and "c" in c:
        return {"c": [c["c"][0] + d, c["c"][1]]}
    return c + d


def mutate(a, site_i, how, fresh, force=None):
    """Returns (c, kind, magnitude) or None if the spec has no mutation site."""
    sites = _sites(a)
    if not sites:
        return None
    kinds = sorted({k for _, k in sites})  # pick the kind first so that rare kinds (hyperparameter, control value, ...) are not drowned by wires
    knd = force if force in kinds else kinds[site_i % len(kinds)]
    cands = [st_ for st_ in sites if st_[1] == knd]
    path, kind = cands[(site_i // 97) % len(cands)]
    node = _get(a, path)
    delta = DELTAS[how % len(DELTAS)]
    new = dict(node)
    mag = "structural"
    if kind == "param":
        idx = [i for i, x in enumerate(node["p"]) if isinstance(x, (int, float)) and not isinstance(x, bool)]
        i = idx[(how // 7) % len(idx)]
        p = list(node["p"])
        if node["op"] in ("BitFlip", "PhaseFlip", "DepolarizingChannel", "AmplitudeDamping", "PhaseDamping", "GeneralizedAmplitudeDamping", "ResetError",
                          "ThermalRelaxationError"):  # probabilities: stay inside the documented domain
            d = 1e-3 if abs(delta) < 0.05 else 0.1
            p[i] = round(p[i] - d if p[i] - d >= 0 and (node["op"] != "ThermalRelaxationError" or i not in (1, 2) or p[i] - d > 0) else p[i] + d, 6)
            if node["op"] == "ThermalRelaxationError" and not (p[1] > 0 and 0 < p[2] <= 2 * p[1]):
                return None
            if node["op"] == "ResetError" and p[0] + p[1] > 1:
                return None
            delta = d
        else:
            p[i] = p[i] + delta
        new["p"] = p
        mag = "tiny" if abs(delta) < 1e-9 else "period" if abs(delta) > 6 else "shift"
    elif kind == "array-param":
        i = next(j for j, x in enumerate(node["p"]) if isinstance(x, dict))
        x = dict(node["p"][i])
        key = next(k for k in ("U", "H", "vec", "arr", "kraus", "rho", "sparseH", "Udim", "phases") if k in x)
        vals = list(x[key])
        if not vals:
            return None
        j = how % len(vals)
        vals[j] = round(vals[j] + (0.25 if vals[j] < 0.5 else -0.25), 6)
        x[key] = vals
        p = list(node["p"])
        p[i] = x
        new["p"] = p
        mag = "shift"
    elif kind == "wire":
        w = list(node["w"])
        w[how % len(w)] = fresh
        if len(set(map(repr, w))) != len(w):
            return None
        new["w"] = w
    elif kind == "wire-swap":
        w = list(node["w"])
        i = how % (len(w) - 1)
        w[i], w[i + 1] = w[i + 1], w[i]
        new["w"] = w
    elif kind == "hyper":
        kw = dict(node["kw"])
        keys = sorted(k for k in kw if k in ("pauli_word", "control_values", "dim", "rotation", "rot_axis", "order", "state", "permutation", "value", "geq",
                                             "operators", "n_repeats", "seed", "reset", "postselect", "only_visual", "tag", "local_field", "iters", "n", "time",
                                             "alpha", "mod", "k"))
        k = keys[how % len(keys)]
        v = kw[k]
        if isinstance(v, bool):
            kw[k] = not v
        elif k == "rotation" and v in ("RX", "RY", "RZ"):
            kw[k] = {"RX": "RY", "RY": "RZ", "RZ": "RX"}[v]
        elif isinstance(v, str) and v:
            alphabet = "XYZ" if set(v) <= set("XYZI") else v + "_"
            ch = alphabet[(alphabet.index(v[0]) + 1) % len(alphabet)] if v[0] in alphabet else "X"
            kw[k] = (ch + v[1:]) if set(v) <= set("XYZI") else v + "_"
        elif isinstance(v, list) and v and all(isinstance(x, (int, bool)) and x in (0, 1) for x in v):
            j = how % len(v)
            kw[k] = v[:j] + [1 - int(v[j])] + v[j + 1:]
        elif isinstance(v, list) and len(v) >= 2:
            kw[k] = v[1:] + v[:1]
        elif isinstance(v, int) and k in ("dim", "order", "n_repeats", "iters", "n", "value"):
            kw[k] = v + 1 if k != "order" else max(1, v - 1) if v > 1 else None
            if kw[k] is None:
                return None
            if k == "dim" and kw[k] > 2 ** len(node["w"]):
                kw[k] = v - 1
            if k == "dim" and kw[k] < 0:
                return None
        elif isinstance(v, (int, float)) and k in ("seed", "time", "alpha", "k"):
            kw[k] = v + 1
        elif v is None and k in ("postselect",):
            kw[k] = 1
        elif v is None and k == "tag":
            kw[k] = "t"
        elif k == "postselect":
            kw[k] = None
        else:
            return None
        new["kw"] = kw
    elif kind == "class":
        grp = next(g for g in SAME_SIG if node["op"] in g)
        new["op"] = grp[(grp.index(node["op"]) + 1 + how % (len(grp) - 1)) % len(grp)]
    elif kind == "operand-order":
        ops = list(node["operands"])
        i = how % (len(ops) - 1)
        ops[i], ops[i + 1] = ops[i + 1], ops[i]
        new["operands"] = ops
        if "coeffs" in node:
            cs = list(node["coeffs"])
            if how % 2:  # swap operands but keep coefficient positions (changes the operator) or swap both (same operator)
                cs[i], cs[i + 1] = cs[i + 1], cs[i]
            new["coeffs"] = cs
    elif kind == "scalar":
        new["c"] = _shift_scalar(node["c"], delta if abs(delta) < 1 else 0.5)
        mag = "tiny" if abs(delta) < 1e-9 else "shift"
    elif kind == "coeff":
        cs = list(node["coeffs"])
        i = how % len(cs)
        cs[i] = _shift_scalar(cs[i], delta if abs(delta) < 1 else 0.5)
        new["coeffs"] = cs
        mag = "tiny" if abs(delta) < 1e-9 else "shift"
    elif kind == "exponent":
        z = node["z"]
        new["z"] = z + 1 if float(z).is_integer() else z + 0.25
    elif kind == "control-value":
        cv = list(node.get("cv") or [1] * len(node["cw"]))
        i = how % len(cv)
        cv[i] = 1 - int(cv[i])
        new["cv"] = cv
    elif kind == "control-swap":
        cw = list(node["cw"])
        cw[0], cw[1] = cw[1], cw[0]
        new["cw"] = cw
    elif kind == "control-wire":
        cw = list(node["cw"])
        cw[how % len(cw)] = fresh
        new["cw"] = cw
    elif kind == "control-add":
        new["cw"] = list(node["cw"]) + [fresh]
        new["cv"] = list(node.get("cv") or [1] * len(node["cw"])) + [how % 2]
    elif kind == "wrap-adjoint":
        new = {"op": "adjoint", "base": node}
    elif kind == "mp-kind":
        k = node["mp"]
        if node.get("obs") is not None and k in MP_OBS:
            new["mp"] = MP_OBS[(MP_OBS.index(k) + 1 + how % (len(MP_OBS) - 1)) % len(MP_OBS)]
            if new["mp"] in ("probs", "sample", "counts") and not _is_pauli_word(node["obs"]):
                new["mp"] = "var" if k == "expval" else "expval"
        elif node.get("obs") is None and k in MP_W:
            new["mp"] = MP_W[(MP_W.index(k) + 1 + how % (len(MP_W) - 1)) % len(MP_W)]
            new.pop("log_base", None)
            new.pop("all_outcomes", None)
        else:
            return None
    elif kind == "log_base":
        new["log_base"] = {None: 2, 2: 10, 10: None}[node.get("log_base")]
    elif kind == "all_outcomes":
        new["all_outcomes"] = not node["all_outcomes"]
    if new == node:
        return None
    return _set(a, path, new), kind, mag


def _is_pauli_word(o):
    if o.get("op") in ("PauliX", "PauliY", "PauliZ"):
        return True
    return o.get("op") == "prod" and all(x.get("op") in ("PauliX", "PauliY", "PauliZ") for x in o["operands"])


# ---------------------------------------------------------------------------------------------------

def _build(s):
    if "mp" in s:
        import pennylane as qp

        m = dict(s)
        obs = zoo_extra.build(m["obs"]) if m.get("obs") else None
        if obs is not None:
            k = m["mp"]
            if k == "expval":
                return qp.expval(obs)
            if k == "var":
                return qp.var(obs)
            if k == "probs":
                return qp.probs(op=obs)
            if k == "sample":
                return qp.sample(op=obs)
            if k == "counts":
                return qp.counts(op=obs, all_outcomes=m.get("all_outcomes", False))
        return specs.build_meas(m)
    return zoo_extra.build(s)


LC_MATMUL_MSG = "LinearCombinations can only be multiplied together if they act on different sets of wires"


def _lc_matmul_precondition_broken(s):
    """True iff some `prod` node of the spec built with the `@` dunder multiplies two LinearCombination objects that share a wire.

    LinearCombination.__matmul__ states that precondition itself and refuses such a pair with a dedicated ValueError (qp.prod is the
    documented way to multiply operators on overlapping wires). C03's expression generator, which this module reuses, does not know the
    precondition, so the thorough tier reported the refusal as an unexpected exception. The refusal is turned into a rejection only after
    re-doing the fold on the built operands and seeing that both sides really are LinearCombinations with a common wire: the same
    message for any other pair still alarms."""
    import pennylane as qp

    if isinstance(s, list):
        return any(_lc_matmul_precondition_broken(x) for x in s)
    if not isinstance(s, dict):
        return False
    if s.get("op") == "prod" and s.get("via") == "dunder":
        try:
            ops = [zoo_extra.build(o) for o in s["operands"]]
        except ValueError:
            ops = None  # the refusal comes from deeper inside: the recursion below finds it
        if ops:
            out = ops[0]
            for o in ops[1:]:
                LC = qp.ops.LinearCombination
                if isinstance(out, LC) and isinstance(o, LC) and set(out.wires) & set(o.wires):
                    return True
                out = out @ o
    return any(_lc_matmul_precondition_broken(v) for v in s.values() if isinstance(v, (dict, list)))


def _matrix_of(x, order):
    """Dense matrix of an operator / of a measurement's observable on `order`, or None."""
    import pennylane as qp

    op = getattr(x, "obs", None) if isinstance(x, qp.measurements.MeasurementProcess) else x
    if op is None or not set(op.wires) <= set(order) or len(order) > 7:
        return None
    try:
        if not (op.has_matrix or getattr(op, "has_sparse_matrix", False)):
            return None
        M = qp.matrix(op, wire_order=order) if order else qp.matrix(op)
        return np.asarray(M.toarray() if hasattr(M, "toarray") else M, dtype=complex)
    except Exception:  # noqa: BLE001  (representation availability is C01's subject)
        return None


def _numbers(s):
    if isinstance(s, bool):
        return []
    if isinstance(s, (int, float)):
        return [abs(float(s))]
    if isinstance(s, list):
        return [v for x in s for v in _numbers(x)]
    if isinstance(s, dict):
        return [v for k, x in s.items() if k not in ("w", "cw", "ww", "w0", "w1", "kw") for v in _numbers(x)]
    return []


def _eq(x, y):
    import pennylane as qp

    return bool(qp.equal(x, y))


def _sig(s):
    if "mp" in s:
        return "mp:" + s["mp"]
    return s["op"]


def _check_pair(pr):
    """Two explicitly different operators (broadcast batch sizes 1 / N / M with repeated values, scalar vs batch): qp.equal must say
    False in both argument orders (their matrix stacks have different shapes), and neither comparison may raise."""
    x, y = _build(pr["a"]), _build(pr["b"])
    order = list(dict.fromkeys(list(x.wires) + list(y.wires)))
    Mx, My = _matrix_of(x, order), _matrix_of(y, order)
    if Mx is None or My is None or (Mx.shape == My.shape and np.allclose(Mx, My)):
        raise Reject("pair is not distinguishable by its matrices")
    feats = {"cls": _sig(pr["a"]), "pair": pr.get("kind", "pair")}
    for u, v, tag in ((x, y, "(a,b)"), (y, x, "(b,a)")):
        if _eq(u, v):
            raise Viol("equal-but-different-matrix", f"qp.equal{tag} is True for {pr['a']} vs {pr['b']}: matrix shapes {Mx.shape} / {My.shape}",
                       sig="pair:" + pr.get("kind", "pair"), features=feats)
    return Result(True, labels=["pair:" + pr.get("kind", "pair")])


def check(spec):
    import pennylane as qp

    if spec.get("coverage"):
        return Result(False, labels=zoo_extra.coverage_labels())
    if "pair" in spec:
        return _check_pair(spec["pair"])
    a = spec["a"]
    sig = _sig(a)
    try:
        x = _build(a)
    except ValueError as ex:
        if LC_MATMUL_MSG in str(ex) and _lc_matmul_precondition_broken(a):
            raise Reject("LinearCombination @ LinearCombination on shared wires (precondition stated by __matmul__)") from None
        raise
    tname = type(x).__name__
    feats = {"cls": sig, "type": tname}
    labels = ["a:" + sig, "type:" + tname]
    # reflexivity
    if not _eq(x, x):
        raise Viol("reflexive", f"qp.equal(a, a) is False for {a} -> {x!r}", sig=sig, features=feats)
    # rebuild / copies: equal both ways, same hash, one set element
    twins = {"rebuild": _build(a), "copy": copy.copy(x), "deepcopy": copy.deepcopy(x)}
    try:
        leaves, tree = qp.pytrees.flatten(x)
        twins["pytree"] = qp.pytrees.unflatten(leaves, tree)
    except Exception as ex:  # noqa: BLE001  (round trips are C06's subject)
        labels.append("pytree:" + type(ex).__name__)
    for how, y in twins.items():
        if not _eq(x, y) or not _eq(y, x):
            raise Viol("twin-not-equal", f"{how}: qp.equal(a,b)={_eq(x, y)} qp.equal(b,a)={_eq(y, x)} for {a} -> {x!r} vs {y!r}", sig=f"{sig}:{how}", features=feats)
        if hash(x) != hash(y):
            hs = any(n in repr(a) for n in ("'HilbertSchmidt'", "'LocalHilbertSchmidt'"))  # input class of a reported finding
            raise Viol("twin-hash", f"{how}: hash differs for {a} -> {x!r}", sig="contains-HilbertSchmidt" if hs else f"{sig}:{how}",
                       features={**feats, "hilbert_schmidt": hs})
        if len({x, y}) != 1:
            raise Viol("twin-set", f"{how}: {{a, b}} has two elements for {a}", sig=f"{sig}:{how}", features=feats)
    # mutation
    mut = mutate(a, spec["site"], spec["how"], spec["fresh"], spec.get("force"))
    if mut is None:
        return Result(False, labels=labels + ["mutation:none"])
    c, kind, mag = mut
    try:
        y = _build(c)
    except (ValueError, TypeError, qp.exceptions.QuantumFunctionError, qp.wires.WireError, AssertionError, IndexError, KeyError) as ex:
        # the mutated spec left the class's documented domain (e.g. overlapping wires, wrong register size)
        return Result(False, labels=labels + ["mutation:invalid:" + kind, "invalid:" + type(ex).__name__])
    labels += ["mut:" + kind, "mag:" + mag]
    e1, e2 = _eq(x, y), _eq(y, x)
    feats = {**feats, "mutation": kind, "magnitude": mag}
    if mag != "tiny" and e1 != e2:
        raise Viol("asymmetric", f"qp.equal(a,c)={e1} but qp.equal(c,a)={e2}; a={a} c={c}", sig=f"{sig}:{kind}", features=feats)
    labels.append("equal:" + str(e1 and e2))
    if e1 or e2:
        order = list(dict.fromkeys(list(x.wires) + list(y.wires)))
        Mx, My = _matrix_of(x, order), _matrix_of(y, order)
        if Mx is not None and My is not None:
            scale = max([1.0] + _numbers(a))
            tol = 10 * (1e-5 * scale + 1e-9) * max(1.0, float(np.abs(Mx).max())) * 4
            if Mx.shape != My.shape or float(np.abs(Mx - My).max()) > tol:
                raise Viol("equal-but-different-matrix", f"qp.equal says equal (a,c)={e1} (c,a)={e2} but matrices differ by {maxdiff(Mx, My)}; a={a} c={c} "
                           f"-> {x!r} vs {y!r}", sig=f"{sig}:{kind}", features=feats)
            labels.append("equal=>matrix-checked")
    nested = isinstance(a.get("base") or a.get("operands") or a.get("obs"), (dict, list))
    return Result(bool(nested or _numbers(a) or a.get("kw")), labels=labels + zoo_extra.coverage_labels())
