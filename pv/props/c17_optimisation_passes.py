"""C17 — optimisation passes preserve semantics and accept all valid circuits."""
import numpy as np
from hypothesis import strategies as st

from pv import passes, specs
from pv.cmp import close, maxdiff
from pv.engine import Reject, Result, Viol
from pv.ref import sim

ID = "C17"
TECHNIQUE = "hypothesis-generated circuits per pass (pattern-biased: inverse pairs, mergeable rotations, embedded patterns) with a unitary-equivalence oracle on an independent simulator"
RULE = (
    "For each of 18 pass variants (cancel_inverses, merge_rotations, commute_controlled, single_qubit_fusion, undo_swaps, "
    "combine_global_phases, remove_barrier, unitary_to_rot, compile, merge_amplitude_embedding, match_relative_phase_toffoli, "
    "match_controlled_iX_gate, pattern_matching_optimization, zx.push_hadamards/todd/optimize_t_count/reduce_non_clifford, rowcol) "
    "a circuit over the gates the pass documents (1-5 wires, depth <= 14, ints/str wire labels, boundary-biased angles; every next "
    "op is with p=0.3 the adjoint / re-parametrisation / wire permutation of the previous one) and random options. Oracle: the pass "
    "must not raise; reference-simulator unitary of output == input up to a global phase (state from |0..0> for undo_swaps / "
    "merge_amplitude_embedding, exactly incl. phase for combine_global_phases/remove_barrier/rowcol), measurements unchanged and "
    "reference results of every measurement equal. Non-trivial: the pass changed the operation list."
)
ASSUMPTIONS = ["rz_phase_gradient is checked separately under C17's thorough tier only if its module is present; "
               "parity_matrix is covered through rowcol."]
BUDGET = {"quick": {"examples": 1400}, "thorough": {"examples": 40000, "shards": 16}}
SHRINK_LISTS = ("ops", "meas")


def strategy(tier):
    return st.sampled_from(passes.PASS_NAMES).flatmap(passes.case_for)


def enumerate_cases(tier):
    """commute_controlled, both directions: a single-qubit gate at the very start (left) / end (right) of the tape, a blocking gate, and a
    controlled gate it commutes with through control or target (boundary positions of the backwards / forwards search)."""
    singles = [("PauliZ", []), ("S", []), ("T", []), ("RZ", [0.37]), ("PhaseShift", [0.9]), ("PauliX", []), ("RX", [0.53]), ("SX", []), ("PauliY", []), ("RY", [1.1])]
    blockers = [("Hadamard", []), ("RY", [0.8]), ("RX", [0.4]), ("PauliZ", [])]
    ctrls = [("CZ", [], [0, 1]), ("CNOT", [], [0, 1]), ("CNOT", [], [1, 0]), ("CRX", [0.7], [1, 0]), ("CRZ", [0.7], [0, 1]), ("CY", [], [1, 0]),
             ("Toffoli", [], [0, 2, 1]), ("Toffoli", [], [1, 2, 0])]
    for g, gp in singles:
        for b, bp in blockers:
            for c, cp, cw in ctrls:
                wires = [0, 1] + ([2] if 2 in cw else [])
                core = [{"op": g, "p": gp, "w": [0]}, {"op": b, "p": bp, "w": [0]}, {"op": c, "p": cp, "w": cw}]
                yield {"pass": "commute_controlled", "opts": {"direction": "left"}, "ops": core, "wires": wires, "meas": []}
                yield {"pass": "commute_controlled", "opts": {"direction": "right"}, "ops": core[::-1], "wires": wires, "meas": []}
                # the same with an unrelated gate in front / behind, so that the moved gate is not at the boundary
                pad = {"op": "Hadamard", "p": [], "w": [1]}
                yield {"pass": "commute_controlled", "opts": {"direction": "left"}, "ops": [pad] + core, "wires": wires, "meas": []}


def check(spec):
    import pennylane as qp

    name = spec["pass"]
    order = list(map(specs.wire, spec["wires"]))
    tape = specs.build_tape(spec)
    in_ops = list(tape.operations)  # the pass must be judged against what went in, even if it mutates its input (C18)
    tape0 = specs.build_tape(spec)
    try:
        tapes, fn = passes.apply_pass(spec, tape)
    except TypeError as e:
        if name.startswith("zx.") and "must be a" in str(e):
            raise Reject("zx: documented TypeError") from None
        raise
    except qp.exceptions.QuantumFunctionError as e:
        if "less qubits than the pattern" in str(e):
            raise Reject("pattern larger than circuit (documented)") from None
        raise
    except qp.exceptions.DecompositionUndefinedError:
        if name == "compile" and spec["opts"].get("basis_set"):
            raise Reject("compile: basis_set cannot express the circuit (documented decomposition error)") from None
        raise
    if len(tapes) != 1:
        raise Viol("fanout", f"{name} returned {len(tapes)} tapes", sig=name)
    out = tapes[0]
    for w in out.wires:
        if w not in order:
            order.append(w)
    mode = passes.MODE.get(name, "phase")
    if name in ("combine_global_phases", "remove_barrier"):
        mode = "exact"
    feats = {"pass": name}
    # passes that fuse rotations go through fuse_rot_angles, documented as numerically unstable at its singular points (fused theta
    # near 0 or pi): arccos of a float within 1e-16 of 1 is only accurate to sqrt(eps) ~ 1.5e-8, so these passes are compared at
    # 1e-7 (a seeded wrong fusion is off by O(1)); every other pass stays at 1e-8
    TOL = 1e-7 if name in ("merge_rotations", "single_qubit_fusion", "compile", "undo_swaps+fusion") else 1e-8
    if mode in ("phase", "exact", "perm"):
        U0 = sim.unitary(tape0.operations, order)
        U1 = sim.unitary(out.operations, order)
        if mode == "exact" or name == "rowcol":
            ok = close(U1, U0, TOL)
        else:
            ok = sim.allclose_phase(U1, U0, TOL)
        if not ok:
            raise Viol("unitary-changed", f"{name} opts={spec['opts']} in={spec['ops']} out={[str(o) for o in out.operations]}",
                       sig=name, features=feats)
    else:
        s0 = sim.run_ops(tape0.operations, order)
        s1 = sim.run_ops(out.operations, order)
        if not sim.allclose_phase(s1, s0, TOL):
            raise Viol("state-changed", f"{name} in={spec['ops']} out={[str(o) for o in out.operations]}", sig=name, features=feats)
    if len(out.measurements) != len(tape.measurements):
        raise Viol("measurements-changed", name, sig=name, features=feats)
    r0 = sim.run_tape(tape0, order)
    r1 = sim.run_tape(out, order)
    r1 = fn([r1 if len(r1) != 1 else r1[0]])
    if len(tape.measurements) == 1:
        r1 = (r1,)
    for a, b in zip(r0, r1):
        if not close(np.asarray(b), np.asarray(a), TOL):
            raise Viol("result-changed", f"{name} diff={maxdiff(np.asarray(b), np.asarray(a))} in={spec['ops']} meas={spec['meas']}", sig=name, features=feats)
    fired = len(out.operations) != len(in_ops) or any(
        not qp.equal(a, b) for a, b in zip(out.operations, in_ops))
    return Result(fired, labels=[name, name + (":fired" if fired else ":noop")])


def selftest():
    sim.selftest()
