"""C18 — transforms never modify their input circuit."""
import copy

import numpy as np
from hypothesis import strategies as st

from pv import gen, passes, specs
from pv.cmp import close, to_np
from pv.engine import Reject, Result, Viol

ID = "C18"
TECHNIQUE = "hypothesis-generated circuits through every adapted public transform / pipeline; deep structural fingerprint of the input before vs after (independent of the cached tape.hash) plus re-execution"
RULE = (
    "For each adapted transform (the 18 optimisation-pass variants of C17 plus decompose, defer_measurements, "
    "split_non_commuting, split_to_single_terms, diagonalize_measurements, broadcast_expand, param_shift, finite_diff, "
    "spsa_grad, hadamard_grad, param_shift_hessian, metric_tensor, adjoint_metric_tensor, transpile, fold_global, insert, "
    "add_noise, map_wires, convert_to_numpy_parameters, sign_expand, dynamic_one_shot, clifford_t_decomposition, "
    "commutation_dag, circuit_spectrum, snapshots, to_zx, parity_matrix, phase_polynomial, cut_circuit, mitigate_with_zne, "
    "device preprocessing programs, 2-3 stage CompilePipelines) a circuit inside the transform's domain with a random "
    "trainable subset and shots. Oracle: fingerprint(tape) before == after, where the fingerprint is the per-operator "
    "(class, wires, raw bytes of every parameter array, hyperparameter repr, nested bases), measurements, "
    "trainable_params, shots, batch_size, identity and length of the internal operation/measurement lists and the hash "
    "of a freshly built script; default.qubit results of the original before == after; checked also when the transform "
    "raises. Non-trivial: the transform returned something different from its input (or fan-out != 1)."
)
ASSUMPTIONS = ["Transforms without an adapter are listed under coverage.uncovered_transforms and not claimed."]
BUDGET = {"quick": {"examples": 1500}, "thorough": {"examples": 40000, "shards": 16}}
SHRINK_LISTS = ("ops", "meas")

EXTRA = ["decompose", "defer_measurements", "split_non_commuting", "split_to_single_terms", "diagonalize_measurements",
         "broadcast_expand", "param_shift", "finite_diff", "spsa_grad", "hadamard_grad", "param_shift_hessian",
         "metric_tensor", "adjoint_metric_tensor", "transpile", "transpile", "transpile", "fold_global", "insert", "add_noise", "map_wires",
         "convert_to_numpy_parameters", "sign_expand", "dynamic_one_shot", "clifford_t_decomposition", "commutation_dag",
         "circuit_spectrum", "snapshots", "to_zx", "parity_matrix", "phase_polynomial", "cut_circuit", "mitigate_with_zne",
         "preprocess:default.qubit", "preprocess:default.mixed", "preprocess:reference.qubit", "pipeline"]

ROT_POOL = {k: gen.ALL_GATES[k] for k in ("RX", "RY", "RZ", "PhaseShift", "Rot", "CRX", "CRY", "CRZ", "IsingXX", "IsingZZ",
                                          "Hadamard", "CNOT", "CZ", "PauliX", "S", "T", "SWAP", "Toffoli", "U3", "SingleExcitation")}


@st.composite
def _extra_case(draw, name):
    n = draw(st.integers(2, 4))
    wires = draw(gen.wire_labels(n)) if name not in ("transpile", "cut_circuit") else list(range(n))
    opts = {}
    pool = ROT_POOL
    ang = gen.angles()
    if name in ("param_shift", "finite_diff", "spsa_grad", "hadamard_grad", "param_shift_hessian", "metric_tensor",
                "adjoint_metric_tensor"):
        pool = {k: gen.ALL_GATES[k] for k in ("RX", "RY", "RZ", "CRX", "IsingXX", "Hadamard", "CNOT", "PhaseShift", "Rot")}
        ang = gen.generic_angles()
    if name in ("parity_matrix",):
        pool = {"CNOT": (0, 2)}
    if name == "phase_polynomial":
        pool = {"CNOT": (0, 2), "RZ": (1, 1)}
    if name == "clifford_t_decomposition":
        pool = {k: gen.ALL_GATES[k] for k in ("RZ", "Hadamard", "CNOT", "S", "T", "RX", "PhaseShift")}
        ang = gen.generic_angles()
    if name == "to_zx":
        pool = {k: gen.ALL_GATES[k] for k in ("RZ", "Hadamard", "CNOT", "S", "T", "RX", "CZ", "PauliX", "PauliZ", "SWAP")}
    ops = draw(gen.op_list(wires, pool, 8, ang=ang, extras=False, p_derive=0.2 if name not in ("parity_matrix", "phase_polynomial") else 0.0))
    if name == "broadcast_expand":
        b = draw(st.integers(1, 3))
        ops.append({"op": "RX", "p": [draw(st.lists(gen.angles(), min_size=b, max_size=b))], "w": [wires[0]]})
    if name == "snapshots":
        ops.insert(draw(st.integers(0, len(ops))), {"op": "Snapshot", "p": [], "w": [], "kw": {}})
    if name in ("defer_measurements", "dynamic_one_shot"):
        opts["mcm_at"] = draw(st.integers(0, len(ops)))
        opts["mcm_wire"] = 0
        opts["reset"] = draw(st.booleans())
    if name == "cut_circuit":
        ops = [{"op": "RX", "p": [draw(ang)], "w": [0]}, {"op": "CNOT", "p": [], "w": [0, 1]},
               {"op": "WireCut", "p": [], "w": [1]}, {"op": "CNOT", "p": [], "w": [1, 2 if n > 2 else 0]},
               {"op": "RY", "p": [draw(ang)], "w": [1]}]
        if n == 2:
            ops[3] = {"op": "RY", "p": [0.3], "w": [1]}
    # measurements
    if name in ("split_non_commuting", "split_to_single_terms", "diagonalize_measurements", "sign_expand"):
        meas = draw(st.lists(gen.pauli_word_obs(wires).map(lambda o: {"mp": "expval", "obs": o}), min_size=1, max_size=4))
        if name in ("split_to_single_terms", "sign_expand"):
            meas = [{"mp": "expval", "obs": {"op": "sum", "operands": [
                {"op": "s_prod", "c": draw(gen.floats01), "base": draw(gen.pauli_word_obs(wires))} for _ in range(draw(st.integers(2, 3)))]}}]
        if name == "diagonalize_measurements":
            meas = meas[:1]
    elif name in ("cut_circuit", "mitigate_with_zne", "hadamard_grad", "metric_tensor", "adjoint_metric_tensor", "param_shift_hessian"):
        meas = [{"mp": "expval", "obs": {"op": "PauliZ", "w": [wires[0]]}}]
        if name == "cut_circuit":
            meas = [{"mp": "expval", "obs": {"op": "prod", "operands": [{"op": "PauliZ", "w": [0]}, {"op": "PauliZ", "w": [1]}]}}]
    elif name in ("dynamic_one_shot",):
        meas = [{"mp": "expval", "obs": {"op": "PauliZ", "w": [wires[-1]]}}]
    elif name in ("parity_matrix", "phase_polynomial", "commutation_dag", "to_zx"):
        meas = []
    else:
        meas = draw(st.lists(gen.analytic_measurement(wires, with_state=False).filter(lambda m: m["mp"] != "var" or True), min_size=1, max_size=3))
    shots = draw(st.sampled_from([None, None, 100, [10, 20]]))
    if name in ("dynamic_one_shot",):
        shots = 20
    if name in ("adjoint_metric_tensor", "metric_tensor", "cut_circuit", "sign_expand", "mitigate_with_zne", "param_shift_hessian",
                "preprocess:reference.qubit", "diagonalize_measurements"):
        shots = None
    if name == "pipeline":
        opts["stages"] = draw(st.lists(st.sampled_from(["cancel_inverses", "merge_rotations", "commute_controlled", "single_qubit_fusion",
                                                         "split_non_commuting", "undo_swaps", "combine_global_phases"]), min_size=2, max_size=3))
    if name == "transpile":
        opts["edges"] = [[i, i + 1] for i in range(n - 1)]
        opts["device"] = draw(st.sampled_from([None, "default.qubit", "default.mixed"]))
        if opts["device"]:
            pool1 = {k: gen.ALL_GATES[k] for k in ("RX", "RY", "Hadamard", "CNOT", "CZ", "S")}
            if draw(st.booleans()):
                ops = draw(gen.op_list(wires, pool1, 6, p_derive=0.0))
            meas = [draw(st.sampled_from([{"mp": "probs", "w": None}, {"mp": "state"}, {"mp": "sample", "w": None},
                                          {"mp": "expval", "obs": {"op": "PauliZ", "w": [wires[0]]}}]))]
            if meas[0]["mp"] == "sample":
                shots = 10
            elif meas[0]["mp"] == "state":
                shots = None
    if name == "fold_global":
        opts["scale"] = draw(st.sampled_from([1, 2, 3, 1.5, 2.7]))
    if name == "map_wires":
        opts["shift"] = 10
    npar = sum(len(o.get("p", [])) for o in ops)
    return {"pass": name, "opts": opts, "ops": ops, "wires": wires, "meas": meas, "shots": shots,
            "train_mask": draw(st.lists(st.booleans(), min_size=8, max_size=8))}


def strategy(tier):
    a = st.sampled_from(passes.PASS_NAMES).flatmap(passes.case_for)
    b = st.sampled_from(EXTRA).flatmap(_extra_case)
    return st.one_of(a, b, b)


# ----------------------------------------------------------------------------------------------

def _fp_op(op):
    out = [type(op).__name__, tuple(map(repr, op.wires))]
    for d in op.data:
        a = np.asarray(to_np(d))
        out.append((str(a.dtype), a.shape, a.tobytes()))
    hp = getattr(op, "hyperparameters", None)
    if hp:
        out.append(repr(sorted((k, _r(v)) for k, v in hp.items())))
    for attr in ("base",):
        b = getattr(op, attr, None)
        if b is not None and hasattr(b, "wires"):
            out.append(_fp_op(b))
    ops = getattr(op, "operands", None)
    if ops:
        out.append(tuple(_fp_op(o) for o in ops))
    return tuple(out)


def _r(v):
    if isinstance(v, np.ndarray):
        return ("nd", v.shape, v.tobytes())
    if hasattr(v, "wires") and hasattr(v, "data"):
        return _fp_op(v)
    if isinstance(v, (list, tuple)):
        return tuple(_r(x) for x in v)
    return repr(v)


def _fp_mp(mp):
    out = [type(mp).__name__, tuple(map(repr, mp.wires))]
    if mp.obs is not None:
        out.append(_fp_op(mp.obs))
    ev = getattr(mp, "_eigvals", None)
    if ev is not None:
        out.append(np.asarray(ev).tobytes())
    return tuple(out)


def fingerprint(tape):
    import pennylane as qp

    fresh = qp.tape.QuantumScript(list(tape.operations), list(tape.measurements), shots=tape.shots)
    return {
        "ops": tuple(_fp_op(o) for o in tape.operations),
        "meas": tuple(_fp_mp(m) for m in tape.measurements),
        "trainable": tuple(tape.trainable_params),
        "shots": repr(tape.shots),
        "batch_size": tape.batch_size,
        "n_ops": len(tape.operations),
        "id_ops": id(tape.operations),
        "id_meas": id(tape.measurements),
        "fresh_hash": fresh.hash,
        "hash": tape.hash,
        "wires": tuple(map(repr, tape.wires)),
    }


def _build(spec):
    import pennylane as qp

    name = spec["pass"]
    tape = specs.build_tape({"ops": spec["ops"], "meas": spec["meas"], "shots": spec.get("shots")})
    o = spec["opts"]
    if name in ("defer_measurements", "dynamic_one_shot"):
        ops = list(tape.operations)
        with qp.queuing.AnnotatedQueue() as q:
            m = qp.measure(tape.wires[0], reset=o["reset"])
            qp.cond(m, qp.PauliX)(tape.wires[-1])
        mid = list(qp.tape.QuantumScript.from_queue(q).operations)
        ops[o["mcm_at"]:o["mcm_at"]] = mid
        tape = qp.tape.QuantumScript(ops, tape.measurements, shots=tape.shots)
    npar = len(tape.get_parameters(trainable_only=False))
    mask = spec.get("train_mask")
    if mask is not None and npar:
        tr = [i for i in range(npar) if mask[i % len(mask)]]
        if name in ("param_shift", "finite_diff", "spsa_grad", "hadamard_grad", "param_shift_hessian", "metric_tensor", "adjoint_metric_tensor"):
            # only gate parameters are differentiable
            n_gate = sum(len(op.data) for op in tape.operations)
            tr = [i for i in tr if i < n_gate] or ([0] if n_gate else [])
        tape.trainable_params = tr
    return tape


def _apply(spec, tape):
    import pennylane as qp

    name, o = spec["pass"], spec["opts"]
    T = qp.transforms
    if name in passes.PASS_NAMES:
        return passes.apply_pass(spec, tape)
    if name == "decompose":
        return T.decompose(tape, gate_set={"RX", "RY", "RZ", "CNOT", "GlobalPhase", "PhaseShift", "Hadamard"})
    if name == "split_non_commuting":
        return T.split_non_commuting(tape)
    if name == "diagonalize_measurements":
        return T.diagonalize_measurements(tape)
    if name in ("param_shift", "finite_diff", "spsa_grad", "hadamard_grad", "param_shift_hessian"):
        return getattr(qp.gradients, name)(tape)
    if name == "metric_tensor":
        return qp.metric_tensor(tape, approx="block-diag")
    if name == "adjoint_metric_tensor":
        return qp.adjoint_metric_tensor(tape)
    if name == "transpile":
        dev = qp.device(o["device"], wires=len(spec["wires"]) + 1) if o.get("device") else None
        return T.transpile(tape, coupling_map=[tuple(e) for e in o["edges"]], device=dev)
    if name == "fold_global":
        return qp.noise.fold_global(tape, o["scale"])
    if name == "insert":
        return qp.noise.insert(tape, qp.AmplitudeDamping, 0.1, position="all")
    if name == "add_noise":
        nm = qp.NoiseModel({qp.noise.op_eq(qp.RX) | qp.noise.op_eq(qp.Hadamard): qp.noise.partial_wires(qp.PhaseDamping, 0.1)})
        return qp.noise.add_noise(tape, nm)
    if name == "map_wires":
        return qp.map_wires(tape, {w: f"m{i}" for i, w in enumerate(tape.wires)})
    if name == "sign_expand":
        return T.sign_expand(tape)
    if name == "dynamic_one_shot":
        return T.dynamic_one_shot(tape)
    if name == "clifford_t_decomposition":
        return T.clifford_t_decomposition(tape, epsilon=1e-2)
    if name == "circuit_spectrum":
        return qp.fourier.circuit_spectrum(tape)
    if name == "snapshots":
        return qp.snapshots(tape)
    if name == "cut_circuit":
        return qp.cut_circuit(tape, device_wires=qp.wires.Wires(list(range(len(tape.wires)))))
    if name == "mitigate_with_zne":
        return qp.noise.mitigate_with_zne(tape, [1, 2, 3], qp.noise.fold_global, qp.noise.richardson_extrapolate)
    if name.startswith("preprocess:"):
        dev = qp.device(name.split(":")[1], wires=list(tape.wires))
        prog = dev.preprocess_transforms()
        return prog((tape,))
    if name == "pipeline":
        pipe = qp.CompilePipeline(*[getattr(T, n) for n in o["stages"]])
        return pipe((tape,))
    return getattr(T, name)(tape)


def check(spec):
    import pennylane as qp

    name = spec["pass"]
    tape = _build(spec)
    feats = {"transform": name}
    before = fingerprint(tape)
    exec_before = None
    can_exec = tape.measurements and name not in ("snapshots",) and not any(type(o).__name__ in ("WireCut",) for o in tape.operations)
    if can_exec:
        try:
            dev = qp.device("default.qubit", seed=7)
            exec_before = to_np(qp.execute([copy.deepcopy(tape)], dev)[0]) if tape.shots else to_np(qp.execute([tape.copy()], dev)[0])
        except Exception:  # noqa: BLE001 - circuit not executable as is (e.g. channels): skip the execution clause
            exec_before = None
    raised = None
    out = None
    try:
        out = _apply(spec, tape)
    except Exception as e:  # noqa: BLE001 - the input must be untouched also when the transform raises
        raised = e
    after = fingerprint(tape)
    for k in before:
        if before[k] != after[k]:
            raise Viol("input-mutated:" + k, f"{name}: field {k} changed; ops={spec['ops']}", sig=name + ":" + k, features=feats)
    if exec_before is not None and not tape.shots:
        dev = qp.device("default.qubit", seed=7)
        exec_after = to_np(qp.execute([tape.copy()], dev)[0])
        if not _same(exec_before, exec_after):
            raise Viol("execution-changed", f"{name}", sig=name, features=feats)
    if raised is not None:
        raise Reject(f"{name}: {type(raised).__name__}: {str(raised)[:60]}")
    changed = True
    try:
        tapes = out[0]
        if len(tapes) == 1 and hasattr(tapes[0], "operations"):
            t1 = tapes[0]
            changed = fingerprint(t1)["ops"] != before["ops"] or fingerprint(t1)["meas"] != before["meas"]
            if t1 is tape:
                changed = False
    except Exception:  # noqa: BLE001
        pass
    return Result(changed, labels=[name, name + (":changed" if changed else ":same")])


def _same(a, b):
    if isinstance(a, tuple):
        return isinstance(b, tuple) and len(a) == len(b) and all(_same(x, y) for x, y in zip(a, b))
    if isinstance(a, dict):
        return a == b
    return close(a, b, 1e-10)
