"""C68 — kernel utilities return valid kernel matrices."""
import itertools
import math as pymath

import numpy as np
from hypothesis import strategies as st

from pv.cmp import close, maxdiff
from pv.engine import Reject, Result, Viol

ID = "C68"
TECHNIQUE = ("hypothesis-generated data sets / labels / kernel functions and symmetric matrices with designed spectra; entrywise "
             "re-evaluation, docstring formulas, and optimality (KKT) characterisations of the PSD post-processing maps")
RULE = (
    "matrix: kernel_matrix(X1, X2, k) and square_kernel_matrix(X, k, assume_normalized_kernel) for 1-8 / 1-6 points of dimension 1-3 "
    "(arrays or nested lists) and kernels rbf, product-state embedding overlap (numpy), AngleEmbedding QNode overlap, polynomial, an "
    "indefinite symmetric function, and (kernel_matrix only) a non-symmetric function; oracle: entry (i,j) = k(x_i, y_j) evaluated "
    "directly, shape (n,m), symmetry, diagonal exactly 1 under assume_normalized_kernel, 1e-12. cost: polarity / target_alignment with "
    "labels +-1 (balanced, unbalanced, single class) and all flag combinations; oracle: sum_ij y_i y_j K_ij with y/n_y rescaling and "
    "division by ||K||_F ||T||_F when normalised (the form implemented through frobenius_inner_product), target_alignment == "
    "polarity(normalize=True), |TA| <= 1, 1e-10. post: threshold / displace / flip / closest_psd_matrix on symmetric matrices "
    "Q diag(w) Q^T with w drawn to contain negative, zero, repeated and positive eigenvalues (plus PSD and noisy unit-diagonal kernel "
    "matrices, float or int); oracle: output symmetric with lambda_min >= -1e-9; threshold/closest(fix_diagonal=False): R-K PSD and "
    "tr(R(R-K)) = 0 (the KKT conditions that characterise the Frobenius projection on the PSD cone) and spec(R) = max(spec(K),0); "
    "displace: R-K = max(0,-lambda_min) * I; flip: R PSD with R^2 = K^2 (unique PSD square root) and RK = KR; PSD inputs are returned "
    "unchanged; closest_psd_matrix(fix_diagonal=True, solver CVXOPT/CLARABEL/SCS): PSD and unit diagonal within 1e-4, and its distance to "
    "K equals that of an independent Higham/Dykstra alternating-projection solution within 2e-3. Non-trivial: >= 2 points and a kernel "
    "value strictly between 0 and 1 off the diagonal (matrix/cost); an input with a negative eigenvalue < -1e-3 (post)."
)
ASSUMPTIONS = [
    "Kernel functions passed to square_kernel_matrix / polarity / target_alignment are symmetric (the function documents that it uses this).",
    "The docstring formula of target_alignment writes sqrt(sum y_i y_j) for the label norm; the Frobenius norm of y y^T (what 'alias for polarity(normalize=True)' implies) is used.",
    "Vector-valued (broadcasted) kernel outputs are not documented and not generated.",
    "SDP results are compared at solver accuracy (1e-4 feasibility, 2e-3 objective).",
    "mitigate_depolarizing_noise is not part of the property statement.",
]
BUDGET = {"quick": {"examples": 700}, "thorough": {"examples": 30000, "shards": 16}}
SHRINK_LISTS = ("X", "X2", "Y", "w")

_coord = st.floats(-2, 2, allow_nan=False).map(lambda x: round(x, 3))
KERNELS = ("rbf", "rbf", "embed", "embed", "poly", "indef", "qnode")


def _points(n_lo, n_hi, d):
    return st.lists(st.lists(_coord, min_size=d, max_size=d), min_size=n_lo, max_size=n_hi)


@st.composite
def _matrix(draw, tier):
    d = draw(st.integers(1, 3))
    square = draw(st.booleans())
    kern = draw(st.sampled_from(KERNELS + (() if square else ("nonsym",) * 5)))
    X = draw(_points(1, 4 if kern == "qnode" else 8, d))
    if draw(st.integers(0, 4)) == 0 and len(X) >= 2:
        X[-1] = list(X[0])  # duplicate data point
    return {"kind": "matrix", "square": square, "kernel": kern, "par": draw(st.sampled_from([0.3, 1.0, 2.5])), "X": X,
            "X2": None if square else draw(_points(1, 3 if kern == "qnode" else 6, d)), "assume": square and draw(st.booleans()),
            "as": draw(st.sampled_from(["array", "list"]))}


@st.composite
def _cost(draw, tier):
    d = draw(st.integers(1, 3))
    kern = draw(st.sampled_from(("rbf", "rbf", "embed", "poly", "indef")))
    X = draw(_points(1, 8, d))
    mode = draw(st.sampled_from(["random", "random", "balanced", "allplus", "allminus", "oneminus"]))
    n = len(X)
    if mode == "random":
        Y = draw(st.lists(st.sampled_from([-1, 1]), min_size=n, max_size=n))
    elif mode == "balanced":
        Y = [1 if i % 2 == 0 else -1 for i in range(n)]
    elif mode == "allplus":
        Y = [1] * n
    elif mode == "allminus":
        Y = [-1] * n
    else:
        Y = [-1] + [1] * (n - 1)
    return {"kind": "cost", "kernel": kern, "par": draw(st.sampled_from([0.3, 1.0, 2.5])), "X": X, "Y": Y,
            "assume": draw(st.booleans()), "rescale": draw(st.booleans()), "normalize": draw(st.booleans()),
            "as": draw(st.sampled_from(["array", "list"])), "float_labels": draw(st.booleans())}


@st.composite
def _post(draw, tier):
    n = draw(st.integers(2, 8 if tier == "thorough" else 6))
    style = draw(st.sampled_from(["spectrum", "spectrum", "spectrum", "psd", "noisy-kernel", "int"]))
    ev = st.sampled_from([-2.0, -1.0, -0.5, -0.01, 0.0, 0.0, 0.3, 1.0, 1.0, 2.5])
    w = draw(st.lists(ev, min_size=n, max_size=n))
    if style == "psd":
        w = [abs(x) + 0.05 for x in w]
    fn = draw(st.sampled_from(["threshold", "displace", "flip", "closest", "closest_diag"]))
    return {"kind": "post", "fn": fn, "style": style, "w": w, "seed": draw(st.integers(0, 2 ** 31)),
            "solver": draw(st.sampled_from([None, None, "CLARABEL", "SCS"])), "noise": draw(st.sampled_from([0.05, 0.3, 0.8]))}


def strategy(tier):
    return st.one_of(_matrix(tier), _matrix(tier), _cost(tier), _post(tier), _post(tier))


def enumerate_cases(tier):
    """The docstring examples and all flag combinations of polarity on a fixed 4-point data set."""
    X = [[0.977, 0.381], [0.923, 0.262], [0.319, 0.118], [0.242, 0.319]]
    for assume, rescale, normalize in itertools.product((False, True), repeat=3):
        for Y in ([-1, -1, 1, 1], [1, -1, 1, 1]):
            yield {"kind": "cost", "kernel": "embed", "par": 1.0, "X": X, "Y": Y, "assume": assume, "rescale": rescale,
                   "normalize": normalize, "as": "array", "float_labels": False}
    for fn in ("threshold", "displace", "flip", "closest", "closest_diag"):
        yield {"kind": "post", "fn": fn, "style": "doc", "w": [], "seed": 0, "solver": None, "noise": 0.0}


# ------------------------------------------------------------------------------------------------ kernels (plain Python/numpy)

def _embed_state(x):
    """product state  (x)_i RX(x_i)|0>  as in AngleEmbedding (rotation='X')"""
    psi = np.ones(1, dtype=complex)
    for t in x:
        psi = np.kron(psi, np.array([pymath.cos(t / 2), -1j * pymath.sin(t / 2)]))
    return psi


def _kernel_value(name, par, x, y):
    x, y = [float(a) for a in x], [float(b) for b in y]
    if name == "rbf":
        return pymath.exp(-par * sum((a - b) ** 2 for a, b in zip(x, y)))
    if name in ("embed", "qnode"):
        return float(abs(np.vdot(_embed_state(x), _embed_state(y))) ** 2)
    if name == "poly":
        return (sum(a * b for a, b in zip(x, y)) + par) ** 2
    if name == "indef":
        return pymath.cos(par * sum(a + b for a, b in zip(x, y))) - sum(abs(a - b) for a, b in zip(x, y))
    # non-symmetric
    return sum((i + 1) * a for i, a in enumerate(x)) - par * sum(b * b for b in y) + x[0] * y[-1]


def _kernel_callable(name, par, calls):
    if name == "qnode":
        import pennylane as qp

        def mk(nw):
            dev = qp.device("default.qubit", wires=nw)

            @qp.qnode(dev)
            def circuit(x1, x2):
                qp.templates.AngleEmbedding(x1, wires=range(nw))
                qp.adjoint(qp.templates.AngleEmbedding)(x2, wires=range(nw))
                return qp.probs(wires=range(nw))
            return circuit
        cache = {}

        def k(x1, x2):
            calls.append(1)
            nw = len(x1)
            if nw not in cache:
                cache[nw] = mk(nw)
            return cache[nw](x1, x2)[0]
        return k

    def k(x1, x2):
        calls.append(1)
        return _kernel_value(name, par, list(x1), list(x2))
    return k


def _ref_matrix(name, par, X1, X2):
    return np.array([[_kernel_value(name, par, x, y) for y in X2] for x in X1], dtype=float)


# ------------------------------------------------------------------------------------------------ checks

def _check_matrix(spec):
    import pennylane as qp

    name, par, X, X2 = spec["kernel"], spec["par"], spec["X"], spec["X2"]
    calls = []
    k = _kernel_callable(name, par, calls)
    conv = (lambda P: np.array(P, dtype=float)) if spec["as"] == "array" else (lambda P: [list(p) for p in P])
    tol = 1e-9 if name == "qnode" else 1e-12
    feats = {"fn": "square_kernel_matrix" if spec["square"] else "kernel_matrix", "kernel": name}
    if spec["square"]:
        got = np.asarray(qp.kernels.square_kernel_matrix(conv(X), k, assume_normalized_kernel=spec["assume"]), dtype=float)
        exp = _ref_matrix(name, par, X, X)
        if spec["assume"]:
            np.fill_diagonal(exp, 1.0)
        n = len(X)
        if got.shape != (n, n):
            raise Viol("shape", f"square_kernel_matrix: {got.shape} for {n} points", sig="square_kernel_matrix:shape", features=feats)
        if not close(got, exp, tol):
            raise Viol("entries", f"square_kernel_matrix kernel={name} assume={spec['assume']}: maxdiff {maxdiff(got, exp)}",
                       sig="square_kernel_matrix", features=feats)
        if not np.array_equal(got, got.T):
            raise Viol("symmetry", "square_kernel_matrix result is not exactly symmetric", sig="square_kernel_matrix", features=feats)
        if spec["assume"] and not np.array_equal(np.diag(got), np.ones(n)):
            raise Viol("unit-diagonal", f"diag = {np.diag(got)}", sig="square_kernel_matrix", features=feats)
        if name in ("rbf", "embed", "qnode") and not close(np.diag(got), np.ones(n), 1e-9):
            raise Viol("unit-diagonal", f"normalised kernel: diag = {np.diag(got)}", sig="square_kernel_matrix", features=feats)
        off = exp[~np.eye(n, dtype=bool)]
    else:
        got = np.asarray(qp.kernels.kernel_matrix(conv(X), conv(X2), k), dtype=float)
        exp = _ref_matrix(name, par, X, X2)
        if got.shape != exp.shape:
            raise Viol("shape", f"kernel_matrix: {got.shape}, expected {exp.shape}", sig="kernel_matrix:shape", features=feats)
        if not close(got, exp, tol):
            raise Viol("entries", f"kernel_matrix kernel={name}: maxdiff {maxdiff(got, exp)}", sig="kernel_matrix", features=feats)
        off = exp.ravel()
    labels = ["matrix", feats["fn"], f"kernel={name}", f"n={len(X)}"] + (["assume-normalized"] if spec["assume"] else [])
    generic = bool(off.size) and bool(np.any((np.abs(off) > 1e-6) & (np.abs(off - 1) > 1e-6)))
    return Result(len(X) >= 2 and generic, labels)


def _check_cost(spec):
    import pennylane as qp

    name, par, X, Y = spec["kernel"], spec["par"], spec["X"], spec["Y"]
    k = _kernel_callable(name, par, [])
    Xa = np.array(X, dtype=float) if spec["as"] == "array" else [list(p) for p in X]
    Ya = [float(y) for y in Y] if spec["float_labels"] else list(Y)
    Ya = np.array(Ya) if spec["as"] == "array" else Ya
    K = _ref_matrix(name, par, X, X)
    if spec["assume"]:
        np.fill_diagonal(K, 1.0)
    n = len(Y)
    npl = sum(1 for y in Y if y == 1)
    nmi = n - npl
    y = np.array([(v / npl if v == 1 else v / nmi) for v in Y], dtype=float) if spec["rescale"] else np.array(Y, dtype=float)
    T = np.outer(y, y)
    pol = float((K * T).sum())
    normK, normT = float(np.sqrt((K * K).sum())), float(np.sqrt((T * T).sum()))
    if normK < 1e-9:
        raise Reject("zero kernel matrix")
    ta = pol / (normK * normT)
    feats = {"fn": "polarity", "rescale": spec["rescale"], "normalize": spec["normalize"], "assume": spec["assume"]}
    got = qp.kernels.polarity(Xa, Ya, k, assume_normalized_kernel=spec["assume"], rescale_class_labels=spec["rescale"],
                              normalize=spec["normalize"])
    exp = ta if spec["normalize"] else pol
    if np.shape(got) != () or not close(float(got), exp, 1e-10):
        raise Viol("polarity", f"Y={Y} flags={feats}: got {got} expected {exp}", sig="polarity", features=feats)
    got_ta = qp.kernels.target_alignment(Xa, Ya, k, assume_normalized_kernel=spec["assume"], rescale_class_labels=spec["rescale"])
    if np.shape(got_ta) != () or not close(float(got_ta), ta, 1e-10):
        raise Viol("target-alignment", f"Y={Y} assume={spec['assume']} rescale={spec['rescale']}: got {got_ta} expected {ta}",
                   sig="target_alignment", features=dict(feats, fn="target_alignment"))
    if abs(float(got_ta)) > 1 + 1e-12:
        raise Viol("target-alignment-bound", f"{got_ta}", sig="target_alignment")
    labels = ["cost", f"kernel={name}", f"labels:{'single-class' if npl in (0, n) else 'balanced' if npl == nmi else 'unbalanced'}",
              f"rescale={spec['rescale']}", f"normalize={spec['normalize']}"]
    off = K[~np.eye(n, dtype=bool)]
    generic = bool(off.size) and bool(np.any((np.abs(off) > 1e-6) & (np.abs(off - 1) > 1e-6)))
    return Result(n >= 2 and generic, labels)


def _proj_psd(A):
    w, V = np.linalg.eigh((A + A.T) / 2)
    return (V * np.clip(w, 0, None)) @ V.T


def _nearest_correlation(K, iters=3000):
    """Higham's alternating projections with Dykstra's correction: nearest unit-diagonal PSD matrix in Frobenius norm."""
    Yk = K.copy()
    dS = np.zeros_like(K)
    for _ in range(iters):
        R = Yk - dS
        Xk = _proj_psd(R)
        dS = Xk - R
        Ynew = Xk.copy()
        np.fill_diagonal(Ynew, 1.0)
        if np.linalg.norm(Ynew - Xk) < 1e-9 and np.linalg.norm(Ynew - Yk) < 1e-10:
            Yk = Ynew
            break
        Yk = Ynew
    return Yk


def _post_matrix(spec):
    if spec["style"] == "doc":
        if spec["fn"] == "closest_diag":
            return np.array([[0.9, 1.0], [1.0, 0.9]])
        return np.array([[0, 1, 0], [1, 0, 0], [0, 0, 2]])
    rng = np.random.default_rng(spec["seed"])
    w = np.array(spec["w"], dtype=float)
    n = len(w)
    if spec["style"] == "int":
        A = rng.integers(-2, 3, size=(n, n))
        return A + A.T
    Q, _ = np.linalg.qr(rng.normal(size=(n, n)))
    if spec["style"] == "noisy-kernel":
        P = rng.normal(size=(n, 2))
        K = np.exp(-((P[:, None, :] - P[None, :, :]) ** 2).sum(-1))
        E = rng.normal(size=(n, n)) * spec["noise"]
        K = K + (E + E.T) / 2
        np.fill_diagonal(K, 1.0)
        return K
    K = (Q * w) @ Q.T
    return (K + K.T) / 2


def _check_post(spec):
    import pennylane as qp

    fn = spec["fn"]
    K = _post_matrix(spec)
    Kf = np.asarray(K, dtype=float)
    n = K.shape[0]
    scale = max(1.0, float(np.abs(Kf).max()))
    wK = np.linalg.eigvalsh(Kf)
    feats = {"fn": fn, "style": spec["style"]}
    tol = 1e-9 * scale
    if fn == "threshold":
        R = qp.kernels.threshold_matrix(K.copy())
    elif fn == "displace":
        R = qp.kernels.displace_matrix(K.copy())
    elif fn == "flip":
        R = qp.kernels.flip_matrix(K.copy())
    elif fn == "closest":
        R = qp.kernels.closest_psd_matrix(K.copy())
    else:
        kw = {} if spec["solver"] is None else {"solver": spec["solver"]}
        R = qp.kernels.closest_psd_matrix(Kf.copy(), fix_diagonal=True, **kw)
    R = np.asarray(R, dtype=float)
    if R.shape != K.shape:
        raise Viol("shape", f"{fn}: {R.shape}", sig=fn, features=feats)
    sdp = fn == "closest_diag"
    stol = 1e-4 * scale if sdp else tol
    if maxdiff(R, R.T) > (stol if sdp else 1e-12 * scale):
        raise Viol("symmetric", f"{fn}: asymmetry {maxdiff(R, R.T)}", sig=fn, features=feats)
    wR = np.linalg.eigvalsh((R + R.T) / 2)
    if wR[0] < -stol:
        raise Viol("psd", f"{fn}: lambda_min = {wR[0]} for input spectrum {np.round(wK, 6).tolist()}", sig=fn, features=feats)
    already = wK[0] >= 1e-9
    if already and not sdp and not close(R, Kf, 1e-12):
        raise Viol("no-effect-on-psd", f"{fn} changed a PSD input by {maxdiff(R, Kf)}", sig=fn, features=feats)
    if fn in ("threshold", "closest"):
        D = R - Kf
        wD = np.linalg.eigvalsh((D + D.T) / 2)
        if wD[0] < -tol or abs(float(np.trace(R @ D))) > 1e-8 * scale ** 2 * n:
            raise Viol("projection-kkt", f"{fn}: lambda_min(R-K)={wD[0]}, tr(R(R-K))={np.trace(R @ D)}", sig=fn, features=feats)
        if not close(wR, np.clip(wK, 0, None), 1e-9):
            raise Viol("clipped-spectrum", f"{fn}: {wR.tolist()} vs clip {np.clip(wK, 0, None).tolist()}", sig=fn, features=feats)
    elif fn == "displace":
        c = max(0.0, -float(wK[0]))
        if not close(R - Kf, c * np.eye(n), 1e-9):
            raise Viol("displacement", f"displace_matrix: R-K is not {c}*I (maxdiff {maxdiff(R - Kf, c * np.eye(n))})", sig=fn, features=feats)
    elif fn == "flip":
        if not close(R @ R, Kf @ Kf, 1e-9) or not close(R @ Kf, Kf @ R, 1e-9):
            raise Viol("abs-spectrum", f"flip_matrix: R^2-K^2 {maxdiff(R @ R, Kf @ Kf)}, [R,K] {maxdiff(R @ Kf, Kf @ R)}", sig=fn, features=feats)
        if not close(wR, np.sort(np.abs(wK)), 1e-9):
            raise Viol("abs-spectrum", f"flip_matrix spectrum {wR.tolist()} vs {np.sort(np.abs(wK)).tolist()}", sig=fn, features=feats)
    else:
        if np.abs(np.diag(R) - 1).max() > stol:
            raise Viol("unit-diagonal", f"closest_psd_matrix(fix_diagonal=True): diag {np.diag(R).tolist()}", sig=fn, features=feats)
        ref = _nearest_correlation(Kf)
        wref = np.linalg.eigvalsh(ref)
        if wref[0] < -1e-6:
            raise Reject("reference alternating projections did not converge")
        d_sut, d_ref = float(np.linalg.norm(R - Kf)), float(np.linalg.norm(ref - Kf))
        if abs(d_sut - d_ref) > 2e-3 * (1 + d_ref):
            raise Viol("not-closest", f"closest_psd_matrix(fix_diagonal=True, solver={spec['solver']}): distance {d_sut}, reference {d_ref}",
                       sig=fn, features=feats)
    labels = ["post", fn, f"style={spec['style']}", "input:psd" if already else "input:indefinite"] + ([f"solver={spec['solver']}"] if sdp else [])
    return Result(wK[0] < -1e-3, labels)


def check(spec):
    return {"matrix": _check_matrix, "cost": _check_cost, "post": _check_post}[spec["kind"]](spec)


def selftest():
    assert abs(_kernel_value("rbf", 1.0, [0, 0], [1, 1]) - pymath.exp(-2)) < 1e-15
    assert abs(_kernel_value("embed", 1.0, [0.3, 1.2], [0.3, 1.2]) - 1) < 1e-14
    # AngleEmbedding overlap closed form: prod cos^2((x_i - y_i)/2)
    assert abs(_kernel_value("embed", 1.0, [0.3, 1.2], [1.0, -0.4]) - pymath.cos(0.35) ** 2 * pymath.cos(0.8) ** 2) < 1e-14
    K = np.array([[0.9, 1.0], [1.0, 0.9]])
    R = _nearest_correlation(K)
    assert np.allclose(R, np.ones((2, 2)), atol=1e-6)
    A = np.array([[2.0, -1.0, 0.0], [-1.0, 2.0, -1.0], [0.0, -1.0, 2.0]])  # PSD, diag != 1
    R = _nearest_correlation(A)
    assert np.allclose(np.diag(R), 1) and np.linalg.eigvalsh(R)[0] > -1e-8
    assert np.allclose(_proj_psd(np.diag([-1.0, 2.0])), np.diag([0.0, 2.0]))
