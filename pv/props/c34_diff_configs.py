"""C34 — every accepted differentiation configuration gives the true derivative."""
import math

import numpy as np
from hypothesis import strategies as st

from pv.cmp import to_np
from pv.engine import Reject, Result, Viol
from pv.ref import fd, fresh, hybrid

ID = "C34"
TECHNIQUE = ("hypothesis-generated hybrid programs (classical pre-processing + circuit) x differentiation configurations; "
             "oracle = 6th-order central finite differences with Richardson check on the independent simulator")
RULE = (
    "A program = 1-3 QNode arguments (scalars / vectors), gate parameters that are smooth expressions of them (c*x, sin, cos, square, "
    "sums, products, indexing, shared arguments; optionally one vector argument used whole = a broadcast batch of size 1-3) or "
    "constants, 1-8 gates on 1-4 wires (int or string labels) drawn from 2-term (RX..U3, Ising*, MultiRZ, PauliRot), 4-term "
    "(CRX..CRot, IsingXY, SingleExcitation, PSWAP, DoubleExcitation), general (OrbitalRotation, ctrl(RX) with 2 controls, "
    "evolve(H,t) with a random Pauli sum, adjoint(...)) and no-shift-rule (fractional pow -> finite-diff fallback) classes, "
    "1-3 measurements from expval / var (Pauli words, Hermitian, linear combinations) and probs. A configuration = interface "
    "{autograd, jax (jacrev / jacfwd), jax-jit, torch} x diff_method {backprop, parameter-shift (+broadcast=True), adjoint, hadamard "
    "(standard / reversed / direct / reversed-direct / auto via gradient_kwargs and via the diff_method aliases, explicit aux_wire or "
    "device wires), finite-diff (h, approx_order, strategy), spsa} x grad_on_execution {best, True, False} x device_vjp x output "
    "post-processing (stacked vector / raw tuple). The QNode on default.qubit is differentiated with respect to all arguments. A "
    "configuration that raises one of the documented 'not supported' errors is rejected. Oracle: Jacobian of the whole hybrid "
    "function by pv.ref.fd on pv.ref.hybrid/sim: analytic methods within 1e-6 (1e-5 when a no-shift-rule gate makes parameter-shift "
    "fall back to finite differences); finite-diff within 2 h^p (|d^(p+1) f| + p h |d^(p+2) f|) + 2e-14/h per gate parameter "
    "(derivatives from the reference), chained through the reference classical Jacobian; spsa: mean over N seeded directions within "
    "5 sigma/sqrt(N), sigma = exact standard deviation of the Rademacher estimator computed from the reference gradient. Output "
    "structure (tuple per measurement / per argument, shapes = result shape + argument shape) is asserted as well. "
    "Non-trivial: accepted configuration, >= 2 scalar inputs and a Jacobian entry with |d| > 1e-3."
)
ASSUMPTIONS = [
    "Analytic execution (shots=None) on default.qubit; finite-shot gradients are statistical and not compared.",
    "Documented rejections (turned into rejected cases): device_vjp=True without device support, grad_on_execution=True with a gradient "
    "transform, adjoint/backprop not supported for the circuit, variances/probabilities with hadamard modes, multiple measurements in "
    "reversed modes, missing aux_wire for standard/reversed hadamard, trainable broadcast parameters with finite-diff/spsa/hadamard, "
    "broadcast=True on an already broadcast tape or with operations that do not support broadcasting, centered finite differences "
    "with odd order.",
    "finite-diff / spsa perturb the tape's gate parameters; the pool only contains operations with a grad_method, so no decomposition "
    "changes the parameter set before the perturbation.",
    "SPSA uses the default Rademacher sampler with an integer sampler_rng (same directions on every call, as documented).",
    "Broadcast (batched) parameters only feed plain named gates: Adjoint2 / ControlledOp2 in this tree do not propagate batch_size "
    "(qp.adjoint(qp.RX([.1,.2],0)).batch_size is None), so wrapped batched operators are not executable at all (reported separately).",
    "Fractional powers use the principal branch (parameters of the base kept in (-pi, pi)).",
    "qp.evolve(H, t): t is a scalar (never the broadcast argument) and not traced by jax.jit; Evolution documents that it 'may not be "
    "differentiable' and its has_generator / generator test the concrete value of the coefficient.",
]
BUDGET = {"quick": {"examples": 240, "min_nontrivial": 40}, "thorough": {"examples": 1200, "shards": 16, "min_nontrivial": 200}}
SHRINK_LISTS = ("ops", "meas")

# ------------------------------------------------------------------------------------------------ gate pool
# name -> (n_params, n_wires, class)
POOL = {
    "RX": (1, 1, "2term"), "RY": (1, 1, "2term"), "RZ": (1, 1, "2term"), "PhaseShift": (1, 1, "2term"), "U1": (1, 1, "2term"),
    "Rot": (3, 1, "2term"), "U2": (2, 1, "2term"), "U3": (3, 1, "2term"),
    "IsingXX": (1, 2, "2term"), "IsingYY": (1, 2, "2term"), "IsingZZ": (1, 2, "2term"), "CPhaseShift10": (1, 2, "2term"),
    "SingleExcitationPlus": (1, 2, "2term"), "ControlledPhaseShift": (1, 2, "2term"),
    "CRX": (1, 2, "4term"), "CRY": (1, 2, "4term"), "CRZ": (1, 2, "4term"), "CRot": (3, 2, "4term"), "IsingXY": (1, 2, "4term"),
    "SingleExcitation": (1, 2, "4term"), "PSWAP": (1, 2, "4term"), "FermionicSWAP": (1, 2, "4term"),
    "DoubleExcitation": (1, 4, "4term"), "OrbitalRotation": (1, 4, "general"),
}
FIXED = {"Hadamard": 1, "PauliX": 1, "S": 1, "T": 1, "SX": 1, "CNOT": 2, "CZ": 2, "SWAP": 2, "Toffoli": 3}

_val = st.floats(-1.5, 1.5, allow_nan=False).map(lambda x: round(x, 3)).filter(lambda x: abs(x) > 0.05)


def _expr(leaves, depth):
    leaf = st.sampled_from(leaves)
    if depth == 0:
        return leaf
    sub = _expr(leaves, depth - 1)
    c = st.sampled_from([-2.0, -0.5, 0.7, 1.5])
    return st.one_of(leaf, leaf, leaf, st.tuples(st.just("mul"), c, sub).map(list), st.tuples(st.sampled_from(["sin", "cos", "sq"]), sub).map(list),
                     st.tuples(st.sampled_from(["add", "prod"]), sub, sub).map(list))


@st.composite
def _program(draw, tier):
    n = draw(st.sampled_from([1, 2, 2, 2, 3, 3, 3, 4] if tier == "thorough" else [1, 2, 2, 2, 3, 3, 3, 3, 4]))
    labels = draw(st.sampled_from([list(range(6)), list(range(6)), ["a", "b", "c", "d", "e", "f"], [3, "x", 0, "q1", 7, 2]]))
    wires = labels[:n]
    nargs = draw(st.sampled_from([1, 2, 2, 3]))
    batch_arg = draw(st.sampled_from([None, None, None, None, 0]))
    args = []
    for a in range(nargs):
        if a == batch_arg:
            shape = [draw(st.sampled_from([1, 2, 3]))]
        else:
            shape = draw(st.sampled_from([[], [], [2], [3]] if nargs > 1 else [[2], [3], [2], []]))
        args.append({"shape": shape, "val": [draw(_val) for _ in range(shape[0] if shape else 1)]})
    leaves = []
    for a, spec in enumerate(args):
        if a == batch_arg or not spec["shape"]:
            leaves.append(["arg", a, None])
        else:
            leaves += [["arg", a, i] for i in range(spec["shape"][0])]
    par = st.one_of(_expr(leaves, 2), _expr(leaves, 1), _expr(leaves, 0), _expr(leaves, 0), _val.map(lambda v: ["const", v]))
    # parameters of wrapped operators (adjoint / ctrl / pow / evolve) never use the broadcast argument
    nb = [e for e in leaves if e[1] != batch_arg]
    wpar = st.one_of(_expr(nb, 2), _expr(nb, 1), _expr(nb, 0), _expr(nb, 0), _val.map(lambda v: ["const", v])) if nb else _val.map(lambda v: ["const", v])
    small = st.one_of(st.sampled_from(nb), st.sampled_from(nb).map(lambda e: ["mul", 0.5, e]), st.sampled_from(nb).map(lambda e: ["sin", e])) if nb else None

    def sub(k):
        return list(draw(st.permutations(wires)))[:k]

    names = sorted(g for g, (_, k, _) in POOL.items() if k <= n)
    fixed = sorted(g for g, k in FIXED.items() if k <= n)
    ops = []
    if draw(st.integers(0, 7)) > 0:
        # constant scrambling prefix: a generic product state (plus entanglement), so that later gates and observables matter
        for k, w in enumerate(wires):
            ops.append({"op": "U3", "p": [["const", round(0.9 + 0.37 * k, 3)], ["const", round(0.5 - 0.21 * k, 3)], ["const", round(0.3 + 0.13 * k, 3)]], "w": [w]})
        if n >= 2 and draw(st.booleans()):
            ops += [{"op": "CNOT", "p": [], "w": [wires[k], wires[k + 1]]} for k in range(n - 1)]
    for _ in range(draw(st.integers(1, 8 if tier == "thorough" else 6))):
        kind = draw(st.sampled_from(["pool"] * 10 + ["fixed"] * 4 + ["multirz", "paulirot", "adjoint", "ctrl", "evolve", "pow"]))
        if kind == "pool":
            g = draw(st.sampled_from(names))
            npar, k, _ = POOL[g]
            ops.append({"op": g, "p": [draw(par) for _ in range(npar)], "w": sub(k)})
        elif kind == "fixed":
            g = draw(st.sampled_from(fixed))
            ops.append({"op": g, "p": [], "w": sub(FIXED[g])})
        elif kind == "multirz":
            ops.append({"op": "MultiRZ", "p": [draw(par)], "w": sub(draw(st.integers(1, min(n, 3))))})
        elif kind == "paulirot":
            k = draw(st.integers(1, min(n, 3)))
            ops.append({"op": "PauliRot", "p": [draw(par)], "w": sub(k), "kw": {"pauli_word": draw(st.text("XYZ", min_size=k, max_size=k))}})
        elif kind == "adjoint":
            g = draw(st.sampled_from([x for x in names if x in ("RX", "RY", "Rot", "CRX", "IsingXX", "PhaseShift", "U3", "IsingXY")]))
            npar, k, _ = POOL[g]
            ops.append({"op": "adjoint", "base": {"op": g, "p": [draw(wpar) for _ in range(npar)], "w": sub(k)}})
        elif kind == "ctrl" and n >= 2:
            nc = draw(st.integers(1, min(2, n - 1)))
            ws = sub(nc + 1)
            g = draw(st.sampled_from(["RX", "RY", "RZ", "PhaseShift", "Rot"]))
            ops.append({"op": "ctrl", "cw": ws[:nc], "cv": [draw(st.integers(0, 1)) for _ in range(nc)],
                        "base": {"op": g, "p": [draw(wpar) for _ in range(POOL[g][0])], "w": ws[nc:]}})
        elif kind == "evolve":
            k = draw(st.integers(1, min(n, 2)))
            ws = sub(k)
            weighted = draw(st.sampled_from([False, False, False, True]))
            terms = []
            for _ in range(draw(st.integers(1, 3))):
                word = draw(st.text("XYZ", min_size=k, max_size=k))
                base = [{"op": {"X": "PauliX", "Y": "PauliY", "Z": "PauliZ"}[c], "w": [w]} for c, w in zip(word, ws)]
                base = base[0] if k == 1 else {"op": "prod", "operands": base}
                terms.append({"op": "s_prod", "c": draw(st.sampled_from([0.5, -0.8, 1.3, 0.3])), "base": base} if weighted else base)
            H = terms[0] if len(terms) == 1 else {"op": "sum", "operands": terms}
            # the evolution time never depends on the broadcast argument (Evolution.generator needs a scalar coefficient)
            if not nb:
                continue
            ops.append({"op": "evolve", "H": H, "t": draw(st.one_of(_expr(nb, 1), _expr(nb, 0)))})
        elif kind == "pow" and small is not None:
            g = draw(st.sampled_from([x for x in ("RX", "RZ", "IsingXX", "CRY") if POOL[x][1] <= n]))
            ops.append({"op": "pow", "z": draw(st.sampled_from([2.5, 0.5, 1.5])),
                        "base": {"op": g, "p": [draw(small)], "w": sub(POOL[g][1])}})
    # at least one gate parameter must depend on the arguments
    if not any(not hybrid.is_const(e) for o in ops for e in hybrid.op_exprs(o)):
        ops.append({"op": "RY", "p": [draw(st.sampled_from(leaves))], "w": sub(1)})
    if batch_arg is not None and not any((batch_arg, None) in hybrid.deps(e) for o in ops for e in hybrid.op_exprs(o)):
        ops.append({"op": "RX", "p": [["arg", batch_arg, None]], "w": sub(1)})
    meas = []
    expval_only = draw(st.integers(0, 4)) < 2  # adjoint / hadamard modes only accept expectation values
    for _ in range(draw(st.sampled_from([1, 1, 1, 2, 2, 3]))):
        mk = "expval" if expval_only else draw(st.sampled_from(["expval", "expval", "expval", "var", "probs"]))
        if mk == "probs":
            meas.append({"mp": "probs", "w": sub(draw(st.integers(1, min(n, 2))))})
        else:
            meas.append({"mp": mk, "obs": draw(_observable(wires))})
    return {"args": args, "wires": wires, "ops": ops, "meas": meas}


def _observable(wires):
    n = len(wires)

    def word(ws):
        return st.lists(st.sampled_from(["PauliX", "PauliY", "PauliZ"]), min_size=len(ws), max_size=len(ws)).map(
            lambda nm: {"op": nm[0], "w": [ws[0]]} if len(ws) == 1 else {"op": "prod", "operands": [{"op": a, "w": [w]} for a, w in zip(nm, ws)]})

    pw = st.integers(1, min(2, n)).flatmap(lambda k: st.permutations(wires).map(lambda p: list(p)[:k])).flatmap(word)
    herm = st.tuples(st.lists(st.floats(-1, 1).map(lambda x: round(x, 3)), min_size=5, max_size=5), st.permutations(wires).map(lambda p: list(p)[:1])).map(
        lambda t: {"op": "Hermitian", "p": [{"H": t[0], "n": 1}], "w": t[1]})
    lin = st.lists(st.tuples(st.sampled_from([0.5, -1.2, 0.8, 2.0]), pw), min_size=2, max_size=3).map(
        lambda ts: {"op": "sum", "operands": [{"op": "s_prod", "c": c, "base": o} for c, o in ts]})
    return st.one_of(pw, pw, pw, herm, lin)


METHODS = ["backprop", "parameter-shift", "parameter-shift", "ps-broadcast", "adjoint", "adjoint", "hadamard", "hadamard", "hadamard",
           "finite-diff", "finite-diff", "spsa"]


@st.composite
def _config(draw, tier, prog):
    kinds = {m["mp"] for m in prog["meas"]}
    batched = hybrid.batch_size(prog) is not None
    # methods that are expected to accept this program (a 15% share of arbitrary picks keeps the rejection paths exercised)
    likely = ["backprop"]
    if not batched:
        likely += ["parameter-shift", "parameter-shift", "ps-broadcast", "finite-diff", "finite-diff", "spsa"]
    if kinds == {"expval"}:
        likely += ["adjoint", "adjoint"]
        if not batched:
            likely += ["hadamard"] * 7
    elif "var" not in kinds and not batched:
        likely += ["hadamard"]
    wild = draw(st.integers(0, 6)) == 0
    m = draw(st.sampled_from(METHODS if wild else likely))
    iface = draw(st.sampled_from(["autograd"] * 8 + ["torch"] * 7 + ["jax"] * 6 + ["jax-jit"] * (1 if tier == "quick" else 3)))
    transform = m not in ("backprop", "adjoint")
    cfg = {"iface": iface, "method": m, "gk": {},
           "goe": draw(st.sampled_from(["best", "best", "best", False, True] if (wild or not transform) else ["best", "best", False])),
           "dvjp": draw(st.sampled_from([False, False, False, True])) if (wild or m == "backprop") else False,
           "post": draw(st.sampled_from(["stack", "raw"])) if iface != "autograd" else "stack",
           "jac": draw(st.sampled_from(["rev", "rev", "fwd"])) if iface == "jax" else "rev",
           "devwires": draw(st.sampled_from(["none", "exact", "spare"]))}
    if m == "adjoint":
        cfg["dvjp"] = draw(st.booleans())
    if m == "hadamard":
        modes = ["standard", "reversed", "direct", "reversed-direct", "auto"]
        if not wild:
            if "probs" in kinds:
                modes = ["standard", "auto"]
            elif len(prog["meas"]) > 1:
                modes = ["standard", "direct", "auto"]
        mode = draw(st.sampled_from(modes))
        cfg["mode"] = mode
        cfg["alias"] = draw(st.booleans())  # select the mode by diff_method name instead of gradient_kwargs
        cfg["aux"] = draw(st.sampled_from(["explicit", "explicit", "explicit", "none"])) if (wild or mode not in ("standard", "reversed")) else "explicit"
        if cfg["aux"] == "explicit":
            cfg["devwires"] = draw(st.sampled_from(["none", "spare"]))
    if m == "finite-diff":
        cfg["gk"] = draw(st.sampled_from([
            {}, {}, {"h": 1e-5}, {"h": 1e-3}, {"h": 1e-2, "approx_order": 2}, {"h": 1e-3, "approx_order": 2, "strategy": "center"},
            {"h": 1e-2, "approx_order": 2, "strategy": "center"}, {"h": 1e-3, "strategy": "backward"}, {"h": 1e-2, "approx_order": 2, "strategy": "backward"},
            {"h": 2e-2, "approx_order": 4, "strategy": "center"}, {"h": 1e-3, "approx_order": 1, "strategy": "center"}]))
    if m == "spsa":
        cfg["gk"] = {"num_directions": 60 if tier == "quick" else 1000, "sampler_rng": draw(st.integers(0, 10**6))}
    return cfg


def strategy(tier):
    return _program(tier).flatmap(lambda p: _config(tier, p).map(lambda c: {"prog": p, "cfg": c}))


def enumerate_cases(tier):
    """Device-derivative paths (adjoint Jacobian / adjoint VJP, backprop with device_vjp) x every observable representation
    (Pauli word, Hermitian matrix on 1 and 2 wires, linear combination, product with a Hermitian factor) x interface: the
    random configurations reach each combination too rarely in the quick tier."""
    args = [{"shape": [], "val": [0.412]}, {"shape": [], "val": [-0.733]}]
    ops = [{"op": "RX", "p": [["arg", 0, None]], "w": [0]}, {"op": "U3", "p": [["const", 0.4], ["const", -0.9], ["const", 0.2]], "w": [0]},
           {"op": "RY", "p": [["arg", 1, None]], "w": [1]}, {"op": "CNOT", "p": [], "w": [0, 1]},
           {"op": "Rot", "p": [["const", 0.3], ["arg", 0, None], ["const", -0.2]], "w": [1]}, {"op": "IsingXY", "p": [["arg", 1, None]], "w": [1, 0]}]
    H1 = {"op": "Hermitian", "p": [{"H": [0.3, -0.2, 0.9, 0.4, 0.1], "n": 1}], "w": [1]}
    H1b = {"op": "Hermitian", "p": [{"H": [-0.6, 0.5, 0.2, -0.7, 0.8], "n": 1}], "w": [0]}
    obs = {
        "pauli": [{"op": "PauliZ", "w": [0]}, {"op": "prod", "operands": [{"op": "PauliX", "w": [0]}, {"op": "PauliY", "w": [1]}]}],
        "hermitian": [H1],
        "hermitian+pauli": [H1b, {"op": "PauliY", "w": [1]}],
        "hermitian-only-2": [H1, H1b],
        "lin": [{"op": "sum", "operands": [{"op": "s_prod", "c": 0.5, "base": {"op": "PauliZ", "w": [0]}}, {"op": "s_prod", "c": -1.2, "base": {"op": "PauliX", "w": [1]}}]}],
    }
    # a controlled global phase is a physical relative phase: every method has to differentiate it (not treat it like GlobalPhase)
    cgp = [{"op": "Hadamard", "p": [], "w": [0]}, {"op": "ctrl", "cw": [0], "cv": [1], "base": {"op": "GlobalPhase", "p": [["arg", 0, None]], "w": []}},
           {"op": "RY", "p": [["arg", 1, None]], "w": [0]}, {"op": "CNOT", "p": [], "w": [1, 0]}]
    for m, iface in (("parameter-shift", "autograd"), ("parameter-shift", "jax"), ("backprop", "autograd"), ("adjoint", "autograd"), ("finite-diff", "torch")):
        yield {"prog": {"args": args, "wires": [0, 1], "ops": cgp, "meas": [{"mp": "expval", "obs": {"op": "PauliX", "w": [0]}},
                                                                             {"mp": "expval", "obs": {"op": "PauliY", "w": [0]}}]},
               "cfg": {"iface": iface, "method": m, "gk": {}, "goe": "best", "dvjp": False, "post": "stack" if iface == "autograd" else "raw", "jac": "rev", "devwires": "none"}}
    for oname, ol in obs.items():
        for iface in ("autograd", "jax", "torch"):
            for m, dvjp in (("adjoint", True), ("adjoint", False), ("backprop", True)):
                if tier == "quick" and m == "backprop" and oname not in ("hermitian", "pauli"):
                    continue
                yield {"prog": {"args": args, "wires": [0, 1], "ops": ops, "meas": [{"mp": "expval", "obs": o} for o in ol]},
                       "cfg": {"iface": iface, "method": m, "gk": {}, "goe": "best", "dvjp": dvjp, "post": "stack" if iface == "autograd" else "raw",
                               "jac": "rev", "devwires": "none"}}


# ------------------------------------------------------------------------------------------------ running a configuration

_REJECT_PATTERNS = [
    ("QuantumFunctionError", "device_vjp=True is not supported"),
    ("QuantumFunctionError", "does not support adjoint with requested circuit"),
    ("QuantumFunctionError", "does not support backprop with requested circuit"),
    ("ValueError", "Gradient transforms cannot be used with grad_on_execution=True"),
    ("ValueError", "require an auxiliary wire"),
    ("ValueError", "which requires an auxiliary wire"),  # hadamard mode='auto' with probs and no aux_wire
    ("ValueError", "Computing the gradient of variances with the"),
    ("ValueError", "Computing the gradient of probabilities with the"),
    ("ValueError", "Computing the gradient of circuits that return the state"),
    ("NotImplementedError", "Computing the gradient of broadcasted tapes"),
    ("NotImplementedError", "does not support multiple measurements"),
    ("ValueError", "Centered finite-difference requires an even order approximation"),
    ("WireError", "no free wire for the auxiliary wire"),
    ("TypeError", "can't apply forward-mode autodiff (jvp) to a custom_vjp function"),  # jax.jacfwd with device_vjp=True
]


def _documented_rejection(e):
    name = type(e).__name__
    msg = str(e)
    for n, pat in _REJECT_PATTERNS:
        if n == name and pat in msg:
            return pat
    if name in ("XlaRuntimeError", "JaxRuntimeError") and "CpuCallback error" in msg:
        # under jax.jit the gradient transform runs inside a host callback; its exception text is embedded
        for n, pat in _REJECT_PATTERNS:
            if f"{n}: " in msg and pat in msg:
                return pat
    return None


def _setup_frameworks(iface):
    """Keep every computation on the calling thread (no asynchronous dispatch while the next case is being built)."""
    if iface in ("jax", "jax-jit"):
        import jax
        try:
            jax.config.update("jax_cpu_enable_async_dispatch", False)
        except Exception:  # noqa: BLE001
            pass
    if iface == "torch":
        import torch
        if torch.get_num_threads() != 1:
            torch.set_num_threads(1)


def _to_iface(v, iface):
    if iface == "autograd":
        from pennylane import numpy as pnp
        return pnp.array(v, requires_grad=True)
    if iface in ("jax", "jax-jit"):
        import jax.numpy as jnp
        return jnp.array(v)
    import torch
    return torch.tensor(v, dtype=torch.float64, requires_grad=True)


def aux_label(prog):
    return "aux" if any(isinstance(w, str) for w in prog["wires"]) else 99


def build_qnode(prog, cfg, max_diff=1):
    import pennylane as qp

    wires = [w for w in prog["wires"]]
    aux = aux_label(prog)
    devw = {"none": None, "exact": wires, "spare": wires + [aux]}[cfg.get("devwires", "none")]
    dev = qp.device(cfg.get("device", "default.qubit"), wires=devw)
    m = cfg["method"]
    gk = dict(cfg.get("gk", {}))
    dm = {"ps-broadcast": "parameter-shift"}.get(m, m)
    if m == "ps-broadcast":
        gk["broadcast"] = True
    if m == "hadamard":
        mode = cfg["mode"]
        if cfg.get("alias") and mode != "auto":
            dm = {"standard": "hadamard", "reversed": "reversed-hadamard", "direct": "direct-hadamard", "reversed-direct": "reversed-direct-hadamard"}[mode]
        else:
            gk["mode"] = mode
        if cfg.get("aux") == "explicit" and mode in ("standard", "reversed", "auto"):
            gk["aux_wire"] = aux
    kwargs = {}
    if max_diff != 1:
        kwargs["max_diff"] = max_diff

    @qp.qnode(dev, interface="jax" if cfg["iface"] == "jax-jit" else cfg["iface"], diff_method=dm, gradient_kwargs=gk,
              grad_on_execution=cfg.get("goe", "best"), device_vjp=cfg.get("dvjp", False), **kwargs)
    def circuit(*args):
        return hybrid.queue_program(prog, args, qp)

    return circuit


def stacked(circuit):
    import pennylane as qp

    def cost(*args):
        r = circuit(*args)
        r = r if isinstance(r, (tuple, list)) else (r,)
        return qp.math.concatenate([qp.math.reshape(t, (-1,)) for t in r])

    return cost


def run_jacobian(prog, cfg):
    """Jacobian in PennyLane for the configuration. Returns ("stack", [J_arg ...]) or ("raw", [[J_meas_arg ...] ...])."""
    import pennylane as qp

    circuit = build_qnode(prog, cfg)
    iface = cfg["iface"]
    args = [_to_iface(v, iface) for v in hybrid.arg_values(prog)]
    n = len(args)
    nm = len(prog["meas"])
    fn = stacked(circuit) if cfg["post"] == "stack" else circuit
    if iface == "autograd":
        J = qp.jacobian(fn, argnums=list(range(n)))(*args)
        J = J if isinstance(J, tuple) else (J,)
        return "stack", [to_np(j) for j in J]
    if iface in ("jax", "jax-jit"):
        import jax
        jf = (jax.jacfwd if cfg.get("jac") == "fwd" else jax.jacrev)(fn, argnums=tuple(range(n)))
        if iface == "jax-jit":
            jf = jax.jit(jf)
        J = jf(*args)
    else:
        import torch
        J = torch.autograd.functional.jacobian(fn, tuple(args))
    if cfg["post"] == "stack":
        return "stack", [to_np(j) for j in J]
    if nm == 1:
        J = (J,)
    return "raw", [[to_np(j) for j in row] for row in J]


# ------------------------------------------------------------------------------------------------ oracle pieces

def theta_program(prog):
    """The same circuit with every argument-dependent gate parameter as its own scalar argument (tape-level view)."""
    vals = hybrid.arg_values(prog)
    exprs = []

    def repl(e):
        if hybrid.is_const(e):
            return e
        exprs.append(e)
        return ["arg", len(exprs) - 1, None]

    ops = [hybrid.subst(o, repl) for o in prog["ops"]]
    args = [{"shape": [], "val": [float(hybrid.ev(e, vals))]} for e in exprs]
    return {"args": args, "wires": prog["wires"], "ops": ops, "meas": prog["meas"]}, exprs


def classical_jacobian(prog, exprs):
    def th(x):
        vals = hybrid.unflatten(prog, x)
        return np.array([float(hybrid.ev(e, vals)) for e in exprs])
    C, _ = fd.jacobian(th, hybrid.flat_x(prog), tol=1e-9)
    return C  # (n_theta, n_x)


def fd_tolerance(prog, gk):
    """Per (output, x) tolerance for finite-diff with options gk; None if not applicable (broadcast)."""
    h = gk.get("h", 1e-7)
    p = gk.get("approx_order", 1)
    tp, exprs = theta_program(prog)
    g = hybrid.reference_flat(tp)
    th0 = hybrid.flat_x(tp)
    g0 = g(th0)
    C = np.abs(classical_jacobian(prog, exprs))
    tol = np.zeros((g0.size, C.shape[1]))
    for j in range(len(exprs)):
        e = np.zeros(len(exprs))
        e[j] = 1.0
        M1, _ = fd.directional(g, th0, e, p + 1, h=0.2, tol=1e-4)
        M2, _ = fd.directional(g, th0, e, p + 2, h=0.2, tol=1e-3)
        tj = 2 * h**p * (np.abs(M1) + p * h * np.abs(M2)) + 2e-14 / h * np.maximum(1.0, np.abs(g0))
        tol += np.outer(tj, C[j])
    return tol + 1e-9


def spsa_sigma(prog):
    """Exact standard deviation of the single-direction Rademacher SPSA estimate, per (output, x)."""
    tp, exprs = theta_program(prog)
    Jt, _ = fd.jacobian(hybrid.reference_flat(tp), hybrid.flat_x(tp))  # (n_out, n_theta)
    C = classical_jacobian(prog, exprs)  # (n_theta, n_x)
    a2 = (C**2).sum(0)[None, :]
    b2 = (Jt**2).sum(1)[:, None]
    ab = Jt @ C
    var = a2 * b2 + ab**2 - 2 * (Jt**2) @ (C**2)
    return np.sqrt(np.maximum(var, 0.0))


def has_fallback_gate(prog):
    return any(o["op"] == "pow" and not hybrid.is_const(hybrid.op_exprs(o)[0]) for o in prog["ops"])


def out_shapes(prog):
    B = hybrid.batch_size(prog)
    shp = []
    for m in prog["meas"]:
        s = (2 ** len(m["w"]),) if m["mp"] == "probs" else ()
        shp.append(((B,) if B else ()) + s)
    return shp


# ------------------------------------------------------------------------------------------------ check

def check(spec):
    prog, cfg = spec["prog"], spec["cfg"]
    try:
        B = hybrid.batch_size(prog)
    except ValueError:
        raise Reject("inconsistent batch") from None
    if not any(not hybrid.is_const(e) for e in hybrid.program_exprs(prog)):
        raise Reject("no trainable gate parameter")
    if cfg["iface"] == "jax-jit" and any(o["op"] == "evolve" and not hybrid.is_const(o["t"]) for o in prog["ops"]):
        raise Reject("evolve with a traced time under jit (Evolution: 'may not be differentiable'; has_generator needs a concrete value)")
    if cfg["method"] == "ps-broadcast" and not _broadcast_precondition(prog):
        raise Reject("broadcast=True with a trainable operation outside supports_broadcasting (documented precondition)")
    x0 = hybrid.flat_x(prog)
    try:
        Jref, err = fd.jacobian(hybrid.reference_flat(prog), x0)
    except fd.FDError:
        raise Reject("reference finite differences did not converge") from None
    m = cfg["method"]
    sig = f"{m}{':' + cfg['mode'] if m == 'hadamard' else ''}:{cfg['iface']}"
    feats = {"method": m, "iface": cfg["iface"], "mode": cfg.get("mode"), "batch": B is not None, "post": cfg["post"], "dvjp": cfg["dvjp"],
             "goe": cfg["goe"], "jac": cfg.get("jac")}
    _setup_frameworks(cfg["iface"])
    try:
        kind, J = run_jacobian(prog, cfg)
    except Exception as e:  # noqa: BLE001
        why = _documented_rejection(e)
        if why is None:
            why = _other_rejection(e, prog, cfg, B)
        if why is not None:
            raise Reject(f"{m}: {why}"[:80]) from None
        try:  # an exception must be reproducible: state left behind by an earlier traced case is not a finding
            run_jacobian(prog, cfg)
        except Exception:  # noqa: BLE001
            _raise_exception_violation(e, prog, cfg, B, sig, feats)
        raise Reject("exception not reproduced on a second evaluation (state left by an earlier case)") from None

    def viol(clause, detail, vsig):
        if not fresh.confirm(ID, spec, (clause, vsig)):
            raise Reject("violation not reproduced in a fresh process (state left by an earlier case)")
        return Viol(clause, detail, sig=vsig, features=feats)
    slices = hybrid.arg_slices(prog)
    ashapes = [tuple(a["shape"]) for a in prog["args"]]
    shapes = out_shapes(prog)
    sizes = [int(np.prod(s, dtype=int)) for s in shapes]
    # structure -> dense (n_out, n_x)
    if kind == "stack":
        if len(J) != len(ashapes):
            raise viol("structure", f"{len(J)} Jacobians for {len(ashapes)} arguments", sig + ":structure")
        cols = []
        for j, ash in zip(J, ashapes):
            j = np.asarray(j)
            if j.shape != (sum(sizes),) + ash:
                raise viol("shape", f"jacobian shape {j.shape}, expected {(sum(sizes),) + ash}", sig + ":shape")
            cols.append(j.reshape(sum(sizes), -1))
        got = np.concatenate(cols, axis=1)
    else:
        if len(J) != len(shapes):
            raise viol("structure", f"{len(J)} measurement rows for {len(shapes)} measurements", sig + ":structure")
        rows = []
        for row, shp, sz in zip(J, shapes, sizes):
            if len(row) != len(ashapes):
                raise viol("structure", f"{len(row)} Jacobians for {len(ashapes)} arguments", sig + ":structure")
            cols = []
            for j, ash in zip(row, ashapes):
                j = np.asarray(j)
                if j.shape != shp + ash:
                    raise viol("shape", f"jacobian shape {j.shape}, expected {shp + ash}", sig + ":shape")
                cols.append(j.reshape(sz, -1))
            rows.append(np.concatenate(cols, axis=1))
        got = np.concatenate(rows, axis=0)
    if np.iscomplexobj(got):
        if np.abs(got.imag).max() > 1e-9:
            raise viol("complex-jacobian", f"imaginary part {np.abs(got.imag).max():.2e}", sig + ":complex")
        got = got.real
    if not np.all(np.isfinite(got)):
        raise viol("value", f"non-finite Jacobian {got.tolist()}", sig + ":nan")
    scale = max(1.0, float(np.abs(Jref).max()))
    if m == "finite-diff":
        tol = fd_tolerance(prog, cfg["gk"])
    elif m == "spsa":
        N = cfg["gk"]["num_directions"]
        tol = 5 * spsa_sigma(prog) / math.sqrt(N) + 1e-6 * scale
    else:
        tol = (1e-5 if (m in ("parameter-shift", "ps-broadcast") and has_fallback_gate(prog)) else 1e-6) * scale
        tol = np.full(Jref.shape, tol)
    bad = np.abs(got - Jref) > tol + 10 * err
    if bad.any():
        i = np.unravel_index(np.argmax(np.abs(got - Jref) - tol), Jref.shape)
        raise viol("value", f"{sig} gk={cfg['gk']} goe={cfg['goe']} dvjp={cfg['dvjp']} post={cfg['post']} jac={cfg.get('jac')}: d out[{i[0]}]/d x[{i[1]}] = "
                            f"{got[i]:.9g}, reference {Jref[i]:.9g} (tol {float(np.asarray(tol)[i]):.2e}); got={np.round(got, 6).tolist()} ref={np.round(Jref, 6).tolist()}", sig)
    labels = [f"iface:{cfg['iface']}", f"method:{m}" + (f":{cfg['mode']}" if m == "hadamard" else ""), f"post:{cfg['post']}",
              f"goe:{cfg['goe']}", f"dvjp:{cfg['dvjp']}"]
    if cfg.get("jac") == "fwd":
        labels.append("jax:jacfwd")
    if B is not None:
        labels.append("broadcast")
    if has_fallback_gate(prog):
        labels.append("fallback-gate")
    classes = set()
    for o in prog["ops"]:
        k = o["op"]
        if k in POOL and any(not hybrid.is_const(e) for e in o["p"]):
            classes.add(POOL[k][2])
        elif k in ("ctrl", "evolve", "adjoint", "pow") and any(not hybrid.is_const(e) for e in hybrid.op_exprs(o)):
            classes.add(k)
    labels += sorted("gate:" + c for c in classes)
    labels += sorted({"meas:" + mm["mp"] for mm in prog["meas"]})
    if any(e[0] not in ("arg", "const") for e in hybrid.program_exprs(prog)):
        labels.append("preprocessing")
    nontrivial = x0.size >= 2 and float(np.abs(Jref).max()) > 1e-3
    return Result(nontrivial, labels)


def _walk_ops(ops):
    for o in ops:
        yield o
        if "base" in o:
            yield from _walk_ops([o["base"]])


def _has_sprod(h):
    return h["op"] == "s_prod" or any(_has_sprod(x) for x in h.get("operands", []))


def _raise_exception_violation(e, prog, cfg, B, sig, feats):
    """Report an exception of the code under test with features that identify its input class."""
    from pv.engine import _origin

    origin, where = _origin(e.__traceback__)
    if origin != "sut":
        raise e
    name, msg = type(e).__name__, str(e)
    f = dict(feats, exc=name, where=where)
    ops = list(_walk_ops(prog["ops"]))
    trainable = lambda o: any(not hybrid.is_const(x) for x in hybrid.op_exprs(o))  # noqa: E731
    if cfg["method"] == "adjoint" and name == "ValueError" and "expected 'arg_specs' dtype" in msg and any(m["mp"] != "expval" for m in prog["meas"]):
        f["adjoint_no_obs_measurement"] = True
    if name == "IndexError" and where.endswith("bind_new_parameters_sprod") and any(o["op"] == "evolve" and _has_sprod(o["H"]) for o in ops):
        f["evolve_sprod_base"] = True
    if name == "OperatorPropertyUndefined" and cfg["method"] in ("parameter-shift", "ps-broadcast") and any(
            o["op"] == "ctrl" and o["base"]["op"] == "Rot" and (len(o["cw"]) >= 2 or 0 in (o.get("cv") or [])) and trainable(o) for o in ops):
        f["ctrl_rot_param_shift"] = True
    if name == "RuntimeError" and "Can't call numpy() on Tensor that requires grad" in msg and cfg["iface"] == "torch" and B is not None and any(
            o["op"] == "IsingXY" and any((a, None) in hybrid.deps(x) and prog["args"][a]["shape"] for x in o["p"] for a in range(len(prog["args"]))) for o in ops):
        f["isingxy_torch_batch"] = True
    raise Viol("unexpected-exception", f"{name}: {msg}"[:600], sig=f"{name}@{where}", features=f) from None


def _other_rejection(e, prog, cfg, B):
    """Documented restrictions whose error surfaces differently under tracing."""
    if B is not None and cfg["method"] in ("finite-diff", "spsa", "hadamard", "parameter-shift", "ps-broadcast"):
        # gradient transforms document (NotImplementedError, issue 4462) that trainable broadcast parameters are unsupported;
        # under jax.jit the same situation surfaces as a shape error of the callback
        return "trainable broadcast parameter with a gradient transform (documented unsupported)"
    return None


def _broadcast_precondition(prog):
    """param_shift(broadcast=True): 'operations with trainable parameters are required to support broadcasting
    (qp.ops.qubit.attributes.supports_broadcasting)'."""
    import pennylane as qp

    vals = hybrid.arg_values(prog)
    for o in prog["ops"]:
        if any(not hybrid.is_const(e) for e in hybrid.op_exprs(o)):
            op = hybrid.build_pl_op(hybrid.subst(o, lambda e: float(np.ravel(hybrid.ev(e, vals))[0])))
            if op not in qp.ops.qubit.attributes.supports_broadcasting:
                return False
    return True


def selftest():
    fd.selftest()
    hybrid.selftest()
    # sigma formula against brute-force enumeration of all Rademacher directions
    a = np.array([0.3, -1.2, 0.7])
    b = np.array([0.9, 0.4, -0.5])
    vals = []
    for bits in range(8):
        d = np.array([1 if bits >> k & 1 else -1 for k in range(3)])
        vals.append((a @ d) * (b @ d))
    var = np.var(vals)
    assert abs(var - ((a @ a) * (b @ b) + (a @ b) ** 2 - 2 * ((a * a) @ (b * b)))) < 1e-12
