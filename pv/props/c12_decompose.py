"""C12 — the decompose transform reaches the target gate set without changing the circuit (graph system on and off)."""
import warnings
from collections import Counter

import numpy as np
from hypothesis import strategies as st

from pv import gen, specs, zoo
from pv.engine import Reject, Result, Viol
from pv.ref import opalg, sim

ID = "C12"
TECHNIQUE = ("zoo circuits x (gate set, stopping condition, work-wire budget, fixed/alt rules, graph on/off) with a unitary-equivalence "
             "oracle from closed-form reference matrices and a gate-for-gate resource-estimate comparison")
RULE = (
    "Circuit: 1-5 wires (int/str/mixed labels), 1-6 operators from the operator zoo restricted to classes with a closed-form reference "
    "matrix (named gates, MultiRZ, PauliRot, PCPhase, MultiControlledX, QubitUnitary, DiagonalQubitUnitary, ControlledQubitUnitary, "
    "SpecialUnitary, QFT, GroverOperator, SelectPauliRot, Identity, GlobalPhase; 40% under adjoint / integer pow / ctrl wrappers). "
    "Config: gate_set = a predefined set of qp.decomposition.gate_sets or a subset of {RX,RY,RZ,Rot,PhaseShift,H,S,T,SX,X,Y,Z,CNOT,CZ,"
    "CY,SWAP,Toffoli,GlobalPhase,PauliRot,MultiRZ,QubitUnitary} (75% built around a universal 1q basis + entangler) given as names, "
    "types or (graph only) a weight dict; stopping_condition in {none, <=k wires, name list}; max_expansion in {None,0,1,2}; "
    "num_work_wires in {0,1,2,None}; minimize_work_wires; strict; fixed_decomps / alt_decomps = a rule drawn from list_decomps of an "
    "operator type in the circuit; graph enabled/disabled (restored in finally). Oracle: a documented rejection (DecompositionError, "
    "DecompositionUndefinedError, the transform's own RecursionError('Reached recursion limit...'), TypeError for fixed/alt_decomps "
    "without the graph) or (i) with max_expansion=None every output operator is in the gate set / satisfies the stopping condition, "
    "except an operator without any decomposition that is kept together with a UserWarning (documented note; GlobalPhase with the "
    "graph: explicit warning), and every accepted input operator reappears unchanged; (ii) the output unitary, with dynamically allocated wires resolved to fresh |0> wires that must return "
    "to |0>, equals the product of the closed-form reference matrices of the input operators exactly (incl. global phase) at 1e-7, "
    "at most num_work_wires dynamic wires are allocated simultaneously, measurements untouched; (iii) graph on, single operators: DecompositionGraph.solve().resource_estimate(op) equals the gate-name "
    "counter of the transform's output when every rule on the chosen path declares exact resources (<= for inexact ones is not asserted). "
    "Non-trivial: at least one input operator is outside the gate set and the operator list changed."
)
ASSUMPTIONS = [
    "Operators kept because they have no decomposition (GlobalPhase) are accepted when a UserWarning names them: the docstring note "
    "documents keep-and-warn for the legacy path and the graph path has a dedicated GlobalPhase warning; `strict` is documented only "
    "as 'treat operators without decomposition as supported' and is forwarded to the graph only.",
    "TemporaryAND, state preparations, channels and templates without a closed-form reference matrix are not generated (no independent reference).",
    "Work wires: a DynamicWire is mapped to a fresh auxiliary wire starting in |0>; 'any'-state allocations are exercised with |0> only.",
    "Weighted gate sets (dict) are generated only with the graph enabled (documented as graph-only).",
]
BUDGET = {"quick": {"examples": 120}, "thorough": {"examples": 1500, "shards": 5}}
SHRINK_LISTS = ("ops",)
TOL = 1e-7

PREDEFINED = ["CLIFFORD_T", "CLIFFORD_T_PLUS_RZ", "ROTATIONS_PLUS_CNOT", "MBQC_GATES", "PYZX", "ALL_QUBIT_OPS", "ALL_OPS", "IDENTITY"]
# without the graph only each operator's single built-in decomposition is followed: favour sets those can reach (fewer RecursionError rejections)
PREDEFINED_LEGACY = ["ROTATIONS_PLUS_CNOT", "ROTATIONS_PLUS_CNOT", "PYZX", "ALL_QUBIT_OPS", "ALL_OPS", "CLIFFORD_T", "CLIFFORD_T_PLUS_RZ"]
POOL = ["RX", "RY", "RZ", "Rot", "PhaseShift", "Hadamard", "S", "T", "SX", "PauliX", "PauliY", "PauliZ", "CNOT", "CZ", "CY", "SWAP",
        "Toffoli", "GlobalPhase", "PauliRot", "MultiRZ", "QubitUnitary"]
BASES = [["RX", "RY", "RZ"], ["RZ", "RY"], ["RX", "RZ"], ["RX", "RY"], ["Rot"], ["RZ", "RX", "Hadamard"], ["PhaseShift", "RX"], ["QubitUnitary"]]
ENTANGLERS = [["CNOT"], ["CZ"], ["CNOT", "CZ"], ["CY"], ["CNOT", "Toffoli"], ["CNOT", "SWAP"]]
EXCLUDE = ("TemporaryAND", "Hermitian", "Projector", "BasisRotation", "Permute", "FlipSign", "AQFT")
NONPARAM = ("PauliX", "PauliY", "PauliZ", "Hadamard", "S", "T", "SX", "CNOT", "CZ", "CY", "CH", "SWAP", "ISWAP", "ECR", "Toffoli",
            "CSWAP", "CCZ", "MultiControlledX", "Identity")


NONPARAM_LEGACY = ("PauliX", "PauliY", "PauliZ", "Hadamard", "S", "T", "SX", "CNOT", "CZ", "CY", "SWAP", "ISWAP", "Toffoli", "CSWAP", "CCZ", "Identity")


# ---------------------------------------------------------------------------------------------
# generator
# ---------------------------------------------------------------------------------------------

@st.composite
def _gate_set(draw, graph):
    kind = draw(st.sampled_from(["pre", "pre"] + ["univ"] * 9 + ["random"]))
    if kind == "pre":
        return {"named": draw(st.sampled_from(PREDEFINED if graph else PREDEFINED_LEGACY))}
    if kind == "univ":
        if graph:
            names = list(draw(st.sampled_from(BASES))) + list(draw(st.sampled_from(ENTANGLERS)))
        else:  # the legacy path only follows each operator's single built-in decomposition: these end in RX/RY/RZ/PhaseShift/CNOT
            names = ["RX", "RY", "RZ"] + list(draw(st.sampled_from([["CNOT"], ["CNOT", "CZ"], ["CNOT", "Toffoli"], ["CNOT", "SWAP", "PhaseShift"]])))
        names += draw(st.lists(st.sampled_from(POOL), max_size=3))
        if draw(st.integers(0, 9)) < 7:
            names.append("GlobalPhase")
    else:
        names = draw(st.lists(st.sampled_from(POOL), min_size=1, max_size=8))
    names = sorted(set(names))
    form = draw(st.sampled_from(["str", "type", "mixed"] + (["dict"] if graph else [])))
    gs = {"names": names, "form": form}
    if form == "dict":
        gs["weights"] = [draw(st.sampled_from([1.0, 1.0, 0.0, 0.5, 3.0, 50.0])) for _ in names]
    return gs


@st.composite
def _big_ctrl(draw, wires):
    """Many-control operator (work-wire rules become applicable): MultiControlledX or ctrl(1q gate) over all wires."""
    ws = list(draw(st.permutations(wires)))
    cv = [draw(st.integers(0, 1)) for _ in ws[:-1]]
    if draw(st.booleans()):
        return {"op": "MultiControlledX", "p": [], "w": ws, "kw": {"control_values": cv}}
    base = draw(gen.gate(ws[-1:], gen.GATES1))
    return {"op": "ctrl", "base": base, "cw": ws[:-1], "cv": cv}


@st.composite
def _case(draw, tier):
    n = draw(st.sampled_from([1, 2, 2, 3, 3, 3, 4, 4, 5] if tier == "quick" else [1, 2, 3, 3, 4, 4, 5, 5]))
    wires = draw(gen.wire_labels(n))
    graph = draw(st.booleans())
    gs = draw(_gate_set(graph))
    clifford = gs.get("named") in ("CLIFFORD_T", "MBQC_GATES", "IDENTITY")
    depth = draw(st.integers(1, 5 if tier == "quick" else 8))
    if clifford:
        names = [k for k in (NONPARAM if graph else NONPARAM_LEGACY) if zoo.ZOO[k][1] <= n]
        ops = [draw(st.sampled_from(names).flatmap(lambda k: zoo.ZOO[k][0](wires))) for _ in range(depth)]
    else:
        ops = [draw(zoo.instance(wires, "unitary", exclude=EXCLUDE)) for _ in range(depth)]
    nww = draw(st.sampled_from([0, 0, 0, 1, 2, None]))
    if n >= 4 and draw(st.sampled_from([True, False, False])):
        ops[draw(st.integers(0, depth - 1))] = draw(_big_ctrl(wires))
        nww = draw(st.sampled_from([0, 1, 2, None]))
    spec = {"wires": wires, "ops": ops, "graph": graph, "gs": gs,
            "stop": draw(st.sampled_from([None, None, None, {"max_wires": 1}, {"max_wires": 2}, {"names": ["Toffoli", "QubitUnitary", "PauliRot"]},
                                          {"names": ["Adjoint(S)", "Adjoint(T)", "C(RX)", "Pow(RX)", "MultiControlledX"]}])),
            "maxexp": draw(st.sampled_from([None, None, None, None, None, 0, 1, 2])),
            "nww": nww,
            "minww": draw(st.sampled_from([False, False, True])),
            "strict": draw(st.sampled_from([True, True, False])),
            "fixed": None, "alt": None,
            "meas": draw(st.lists(gen.analytic_measurement(wires, with_state=False), min_size=0, max_size=2))}
    plain = [i for i, o in enumerate(ops) if o["op"] not in ("adjoint", "pow", "ctrl", "prod", "s_prod")]
    want_custom = draw(st.sampled_from([True, True, False, False, False, False] if graph else [True] + [False] * 11))
    if plain and want_custom:
        key = draw(st.sampled_from(["fixed", "alt"]))
        spec[key] = {"op_index": draw(st.sampled_from(plain)), "rule_index": draw(st.integers(0, 5))}
    return spec


def strategy(tier):
    return _case(tier)


def enumerate_cases(tier):
    """Directed single-operator circuits (always run): symbolic wrappers and phase-only operators on the two standard rotation gate sets,
    graph on and off."""
    singles = [
        {"op": "ctrl", "base": {"op": "adjoint", "base": {"op": "Hadamard", "p": [], "w": [1]}}, "cw": [0], "cv": [1]},
        {"op": "pow", "base": {"op": "U3", "p": [0.3, 0.4, 0.5], "w": [0]}, "z": -1},
        {"op": "adjoint", "base": {"op": "DoubleExcitationMinus", "p": [0.7], "w": [0, 1, 2, 3]}},
        {"op": "GlobalPhase", "p": [0.3], "w": []},
        {"op": "ctrl", "base": {"op": "GlobalPhase", "p": [0.3], "w": []}, "cw": [0, 1], "cv": [1, 0]},
        {"op": "pow", "base": {"op": "CRX", "p": [0.9], "w": [0, 1]}, "z": 3},
        {"op": "adjoint", "base": {"op": "adjoint", "base": {"op": "SX", "p": [], "w": [2]}}},
        {"op": "MultiControlledX", "p": [], "w": [0, 1, 2, 3], "kw": {"control_values": [1, 0, 1]}},
        # wrappers with control-on-zero: the symbolic rules (flip_control_adjoint, controlled(rule), pow of controlled) must carry
        # the control values through
        {"op": "ctrl", "base": {"op": "adjoint", "base": {"op": "RX", "p": [0.7], "w": [1]}}, "cw": [0], "cv": [0]},
        {"op": "ctrl", "base": {"op": "adjoint", "base": {"op": "S", "p": [], "w": [2]}}, "cw": [0, 1], "cv": [0, 1]},
        {"op": "adjoint", "base": {"op": "ctrl", "base": {"op": "RY", "p": [0.4], "w": [1]}, "cw": [0], "cv": [0]}},
        {"op": "ctrl", "base": {"op": "pow", "base": {"op": "T", "p": [], "w": [1]}, "z": 3}, "cw": [2], "cv": [0]},
        {"op": "ctrl", "base": {"op": "IsingXX", "p": [0.6], "w": [1, 2]}, "cw": [0], "cv": [0]},
    ]
    # controlled products of non-commuting factors with zeroed / borrowed work wires (ladder rules must apply the factors in
    # operator order) - on six wires, graph on
    NC = {"op": "prod", "operands": [{"op": "RX", "p": [0.7], "w": [0]}, {"op": "RY", "p": [0.4], "w": [0]}, {"op": "Hadamard", "p": [], "w": [0]}]}
    wide = [{"op": "ctrl", "base": NC, "cw": cw, "cv": cv, "ww": ww, "wwt": wwt}
            for cw, cv, ww in (([1, 2], [1, 1], [4]), ([1, 2, 3], [1, 1, 1], [4, 5]), ([1, 2, 3], [1, 0, 1], [4, 5]), ([1, 2, 3], [1, 1, 1], [4]))
            for wwt in ("zeroed", "borrowed")]
    sets = [{"names": ["CNOT", "GlobalPhase", "RX", "RY", "RZ"], "form": "str"},
            {"names": ["CNOT", "GlobalPhase", "RX", "RY", "S"], "form": "type"}]
    for op in singles:
        for graph in (True, False):
            for gs in (sets if graph else sets[:1]):
                yield {"wires": [0, 1, 2, 3], "ops": [op], "graph": graph, "gs": gs, "stop": None, "maxexp": None, "nww": 0, "minww": False,
                       "strict": True, "fixed": None, "alt": None, "meas": []}
    for op in wide:
        for gs in sets + [{"names": ["CNOT", "Toffoli", "GlobalPhase", "RX", "RY", "RZ"], "form": "str"}]:
            yield {"wires": [0, 1, 2, 3, 4, 5], "ops": [op], "graph": True, "gs": gs, "stop": None, "maxexp": None, "nww": 0, "minww": False,
                   "strict": True, "fixed": None, "alt": None, "meas": []}


# ---------------------------------------------------------------------------------------------
# helpers
# ---------------------------------------------------------------------------------------------

def _zeroed_work_wires(ops):
    out = []
    for o in ops:
        if isinstance(o, dict):
            if o.get("wwt") == "zeroed":
                out += list(o.get("ww") or [])
            kw = o.get("kw") or {}
            if kw.get("work_wire_type") == "zeroed":
                out += list(kw.get("work_wires") or [])
            for k in ("base", "compute", "target", "uncompute"):
                if isinstance(o.get(k), dict):
                    out += _zeroed_work_wires([o[k]])
            if isinstance(o.get("operands"), list):
                out += _zeroed_work_wires(o["operands"])
    return out


def _resolve_gate_set(gs):
    """-> (argument for decompose, set of canonical names)."""
    import pennylane as qp
    from pennylane.decomposition import gate_sets

    if "named" in gs:
        obj = getattr(gate_sets, gs["named"], None)
        if obj is None:
            raise Reject("predefined gate set missing: " + gs["named"])
        return obj, set(obj.keys())
    names = list(gs["names"])
    classes = [getattr(qp, nm) for nm in names]
    if gs["form"] == "str":
        arg = set(names)
    elif gs["form"] == "type":
        arg = set(classes)
    elif gs["form"] == "mixed":
        arg = {(c if i % 2 else nm) for i, (nm, c) in enumerate(zip(names, classes))}
    else:
        arg = {c: w for c, w in zip(classes, gs["weights"])}
    return arg, set(names)


def _stop_fn(stop):
    if stop is None:
        return None
    if "max_wires" in stop:
        k = stop["max_wires"]
        return lambda op: len(op.wires) <= k
    names = set(stop["names"])
    return lambda op: op.name in names


def _reference(spec, order):
    U = np.eye(2 ** len(order), dtype=complex)
    for s in spec["ops"]:
        try:
            M, ws = opalg.evaluate(s)
        except KeyError as e:
            raise Reject(f"no closed-form reference: {e}") from None
        U = sim.embed(M, ws, order) @ U
    return U


class _Alloc:
    """Maps DynamicWire objects to auxiliary labels "_aux<i>"; labels are recycled after Deallocate."""

    def __init__(self):
        self.map, self.free, self.n, self.peak = {}, [], 0, 0

    def resolve(self, ops):
        out = []
        for o in ops:
            nm = type(o).__name__
            if nm == "Allocate":
                for w in o.wires:
                    if self.free:
                        self.map[w] = self.free.pop()
                    else:
                        self.map[w] = f"_aux{self.n}"
                        self.n += 1
                self.peak = max(self.peak, len(self.map))
                continue
            if nm == "Deallocate":
                for w in o.wires:
                    if w in self.map:
                        self.free.append(self.map.pop(w))
                continue
            dyn = [w for w in o.wires if type(w).__name__ == "DynamicWire"]
            if dyn:
                missing = [w for w in dyn if w not in self.map]
                if missing:
                    raise Viol("dynamic-wire-unallocated", f"{o} uses a dynamic wire outside an Allocate/Deallocate window", sig="alloc")
                o = o.map_wires({w: self.map[w] for w in dyn})
            out.append(o)
        return out


def _rules_for(op):
    import pennylane as qp

    try:
        return list(qp.list_decomps(type(op)))
    except Exception:  # noqa: BLE001
        return []


def _clone_rule(rule, op):
    """A new DecompositionRule with the same body, resources, condition and exactness under a fresh name (work-wire-free rules only)."""
    import pennylane as qp
    from pv.ref import rules as R

    params, _, _ = R.call_convention(op)
    if rule.get_work_wire_spec(**params).total:
        raise Reject("alt_decomps clone of a rule that needs work wires not generated")

    def _res(*a, **kw):
        return dict(rule.compute_resources(*a, **kw).gate_counts)

    @qp.register_condition(lambda *a, **kw: rule.is_applicable(*a, **kw))
    @qp.register_resources(_res, exact=bool(rule.exact_resources), name="pv_clone_of_" + rule.name)
    def clone(*args, **kwargs):
        rule(*args, **kwargs)

    return clone


def _run(tape, arg, spec, custom):
    import pennylane as qp

    kw = dict(gate_set=arg, stopping_condition=_stop_fn(spec["stop"]), max_expansion=spec["maxexp"], num_work_wires=spec["nww"],
              minimize_work_wires=spec["minww"], strict=spec["strict"])
    kw.update(custom)
    with warnings.catch_warnings(record=True) as rec:
        warnings.simplefilter("always")
        batch, fn = qp.transforms.decompose(tape, **kw)
    return batch, fn, [(w.category.__name__, str(w.message)) for w in rec]


# ---------------------------------------------------------------------------------------------
# oracle
# ---------------------------------------------------------------------------------------------

def check(spec):
    import pennylane as qp
    from pennylane.exceptions import DecompositionUndefinedError

    DecompositionError = qp.decomposition.DecompositionError
    order = [specs.wire(w) for w in spec["wires"]]
    tape = specs.build_tape(spec)
    in_ops = list(tape.operations)
    arg, names = _resolve_gate_set(spec["gs"])
    stop = _stop_fn(spec["stop"])

    def accepted(op):
        return op.name in names or (stop is not None and bool(stop(op)))

    U0 = _reference(spec, order)
    feats = {"graph": spec["graph"], "gs": spec["gs"].get("named", "custom"), "strict": spec["strict"]}
    mode = "graph" if spec["graph"] else "legacy"
    labels = [mode, "gs:" + feats["gs"], f"nww={spec['nww']}", f"maxexp={spec['maxexp']}"]

    custom = {}
    for key, argname in (("fixed", "fixed_decomps"), ("alt", "alt_decomps")):
        if spec.get(key):
            target = in_ops[spec[key]["op_index"] % len(in_ops)]
            rules = _rules_for(target)
            if not rules:
                raise Reject("no registered rules for the chosen operator")
            rule = rules[spec[key]["rule_index"] % len(rules)]
            # alt_decomps must be *new* rules (re-adding a registered rule is refused: "already exists"): use a renamed clone
            custom[argname] = {type(target): rule} if key == "fixed" else {type(target): [_clone_rule(rule, target)]}
            labels.append(key + "_decomps")
            feats[key] = f"{type(target).__name__}:{rule.name}"

    was_enabled = qp.decomposition.enabled_graph()
    try:
        (qp.decomposition.enable_graph if spec["graph"] else qp.decomposition.disable_graph)()
        try:
            batch, fn, warned = _run(tape, arg, spec, custom)
        except TypeError as e:
            if custom and not spec["graph"] and "only available with the new" in str(e):
                return Result(False, labels + ["legacy:fixed/alt -> documented TypeError"])
            raise
        except RecursionError as e:
            if "Reached recursion limit trying to decompose" in str(e):
                raise Reject(f"{mode}: RecursionError (gate set cannot express the circuit)") from None
            raise
        except RuntimeError as e:
            # the same infinite-expansion situation, when the RecursionError first hits a composite operator's constructor guard
            if "Maximum recursion depth reached" in str(e):
                raise Reject(f"{mode}: RuntimeError(Maximum recursion depth reached) (gate set cannot express the circuit)") from None
            raise
        except DecompositionUndefinedError:
            raise Reject(f"{mode}: DecompositionUndefinedError") from None
        except DecompositionError:
            raise Reject(f"{mode}: DecompositionError") from None
        if custom and not spec["graph"]:
            raise Viol("custom-decomps-accepted-without-graph", "fixed/alt_decomps given with the graph disabled but no TypeError",
                       sig="legacy-custom", features=feats)
        if len(batch) != 1:
            raise Viol("fanout", f"{len(batch)} tapes", sig=mode, features=feats)
        out = batch[0]
        out_ops = list(out.operations)

        # (i) target gate set
        kept = []
        if spec["maxexp"] is None:
            for o in out_ops:
                if type(o).__name__ in ("Allocate", "Deallocate") or accepted(o):
                    continue
                if type(o).__name__ == "Conditional" and accepted(o.base):
                    continue  # a classically controlled accepted gate (emitted by measurement-based rules)
                named = [c for c, m in warned if o.name in m]
                if not o.has_decomposition:
                    if not spec["graph"] and "UserWarning" in named:
                        kept.append(o.name)  # documented note: legacy path keeps it and warns
                        continue
                    if spec["graph"] and o.name == "GlobalPhase" and "UserWarning" in named:
                        kept.append(o.name)  # dedicated GlobalPhase warning of the graph path
                        continue
                    if spec["graph"] and not spec["strict"]:
                        kept.append(o.name)  # documented: strict=False treats it as supported
                        continue
                    if spec["graph"]:
                        raise Viol("outside-gate-set", f"graph, strict=True: {o} has no decomposition path and is left in the output with "
                                   f"{named or 'no warning'} instead of the documented DecompositionError; gate set {sorted(names)[:12]}",
                                   sig="graph:unsolved-op-kept", features={**feats, "kept_unsolved": True, "op": o.name.split("(")[0]})
                raise Viol("outside-gate-set", f"{mode}: {o} (has_decomposition={o.has_decomposition}) left in the output; gate set {sorted(names)[:12]} "
                           f"stop={spec['stop']} warnings={warned[:2]}", sig=f"{mode}:{o.name}", features={**feats, "op": o.name})
        if kept:
            labels.append("kept-with-warning:" + ",".join(sorted(set(kept))))

        # (i') accepted operators are not decomposed (docstring: "Operators that belong in the target gate set will not be decomposed";
        # stopping_condition "returns True if the operator does not need to be decomposed"): they reappear, in order, in the output
        pos = 0
        for o in in_ops:
            if not accepted(o):
                continue
            while pos < len(out_ops) and not qp.equal(out_ops[pos], o):
                pos += 1
            if pos == len(out_ops):
                raise Viol("accepted-op-decomposed", f"{mode}: input {o} is in the gate set / meets the stopping condition but does not reappear in "
                           f"the output {[x.name for x in out_ops][:20]}", sig=f"{mode}:accepted-op-decomposed", features={**feats, "op": o.name})
            pos += 1

        # (ii) same unitary
        if any(type(o).__name__ in ("MidMeasure", "MidMeasureMP", "PauliMeasure", "Conditional") for o in out_ops):
            raise Reject("output uses a measurement-based decomposition (dynamic circuit; covered by C13)")
        alloc = _Alloc()
        res_ops = alloc.resolve(out_ops)
        if spec["nww"] is not None and alloc.peak > spec["nww"]:
            raise Viol("work-wire-budget", f"{mode}: {alloc.peak} work wires allocated simultaneously with num_work_wires={spec['nww']}",
                       sig=mode + ":work-wires", features={**feats, "peak": alloc.peak})
        if alloc.n > 3:
            raise Reject("more than 3 auxiliary wires")
        aux = [f"_aux{i}" for i in range(alloc.n)]
        foreign = [w for o in res_ops for w in o.wires if w not in order and w not in aux]
        if foreign:
            raise Viol("foreign-wire", f"{mode}: output acts on {foreign[:3]}", sig=mode, features=feats)
        V = sim.unitary(res_ops, order + aux)
        d, a = 2 ** len(order), 2 ** len(aux)
        V4 = V.reshape(d, a, d, a)
        # operator-level work wires declared "zeroed" are promised to be |0> on input: the decomposition has to agree with the operator
        # (and restore them) on that subspace only
        zw = _zeroed_work_wires(spec["ops"])
        if zw:
            pos_z = [order.index(w) for w in {specs.wire(w) for w in zw} if w in order]
            cols = [i for i in range(d) if all(not (i >> (len(order) - 1 - p)) & 1 for p in pos_z)]
            err = float(np.abs(V4[:, 0, :, 0][:, cols] - U0[:, cols]).max())
        else:
            err = float(np.abs(V4[:, 0, :, 0] - U0).max())
        leak = float(np.abs(V4[:, 1:, :, 0]).max()) if a > 1 else 0.0
        if not err <= TOL or not leak <= TOL:
            raise Viol("unitary-changed", f"{mode}: max|V-U|={err:.3e} aux-leak={leak:.3e} ops={spec['ops']} gs={sorted(names)[:12]} "
                       f"out={[o.name for o in out_ops][:30]}", sig=mode + (":work-wires" if aux else ""), features={**feats, "aux": len(aux)})
        if aux:
            labels.append(f"work-wires-used={len(aux)}")
        if len(out.measurements) != len(tape.measurements) or not all(qp.equal(x, y) for x, y in zip(out.measurements, tape.measurements)):
            raise Viol("measurements-changed", mode, sig=mode, features=feats)

        # (iii) resource estimate == emitted gates (graph, exact rules only)
        if spec["graph"] and spec["maxexp"] is None and spec["stop"] is None and not kept:
            labels += _resource_clause(spec, in_ops, arg, names, custom, feats)
    finally:
        (qp.decomposition.enable_graph if was_enabled else qp.decomposition.disable_graph)()

    outside = [o for o in in_ops if not accepted(o)]
    changed = len(out_ops) != len(in_ops) or any(not qp.equal(x, y) for x, y in zip(out_ops, in_ops))
    labels.append("decomposed" if changed else "unchanged")
    for o in outside[:4]:
        labels.append("in:" + o.name.split("(")[0])
    return Result(bool(outside) and changed, labels)


def _walk(op, solution, names, nww, depth=0):
    """Gate-for-gate expansion along the rules the solution chooses -> (Counter of names, all rules exact?) or None if not fully solved."""
    import pennylane as qp
    from pv.ref import rules as R

    if op.name in names:
        return Counter({op.name: 1}), True
    if type(op).__name__ in ("Allocate", "Deallocate"):
        return Counter(), True
    if depth > 12 or not solution.is_solved_for(op, nww):
        return None
    rule = solution.decomposition(op, nww)
    params, args, kwargs = R.call_convention(op)
    with qp.queuing.AnnotatedQueue() as q:
        rule(*args, **kwargs)
    if nww is not None:
        nww = nww - rule.get_work_wire_spec(**params).total
    total, exact = Counter(), bool(rule.exact_resources)
    for sub in q.queue:
        if not isinstance(sub, qp.operation.Operator):
            continue
        got = _walk(sub, solution, names, nww, depth + 1)
        if got is None:
            return None
        total += got[0]
        exact = exact and got[1]
    return total, exact


def _resource_clause(spec, in_ops, arg, names, custom, feats):
    import pennylane as qp

    labels = []
    seen = set()
    for op in in_ops:
        if op.name in names or op.name in seen or len(seen) >= 1:
            continue
        seen.add(op.name)
        graph = qp.decomposition.DecompositionGraph([op], arg, fixed_decomps=custom.get("fixed_decomps"), alt_decomps=custom.get("alt_decomps"),
                                                    strict=spec["strict"])
        with warnings.catch_warnings():
            warnings.simplefilter("ignore")
            try:
                sol = graph.solve(num_work_wires=spec["nww"], minimize_work_wires=spec["minww"])
            except qp.decomposition.DecompositionError:
                continue
        nww = sol.num_work_wires
        if not sol.is_solved_for(op, nww):
            continue
        walked = _walk(op, sol, names, nww)
        if walked is None:
            labels.append("estimate:path-not-fully-solved")
            continue
        counts, exact = walked
        est = sol.resource_estimate(op, nww)
        est_counts = Counter()
        for k, v in est.gate_counts.items():
            est_counts[k.name] += v
        # the transform, on the single operator, must emit exactly what the chosen rules emit
        single = qp.tape.QuantumScript([op])
        batch, _, _ = _run(single, arg, spec, custom)
        emitted = Counter(o.name for o in batch[0].operations if type(o).__name__ not in ("Allocate", "Deallocate"))
        if emitted != counts:
            raise Viol("transform-differs-from-solution", f"{op}: transform emitted {dict(emitted)} but the solved rules give {dict(counts)}",
                       sig="estimate:" + op.name.split("(")[0], features={**feats, "op": op.name})
        if exact:
            if est_counts != emitted:
                raise Viol("resource-estimate-mismatch", f"{op}: estimate {dict(est_counts)} vs emitted {dict(emitted)} (all rules exact)",
                           sig="estimate:" + op.name.split("(")[0], features={**feats, "op": op.name})
            labels.append("estimate:exact-match")
        else:
            labels.append("estimate:inexact-rule-on-path")
    return labels


def selftest():
    sim.selftest()
    a = _Alloc()

    class W:  # noqa: D101
        pass
    assert a.n == 0 and a.resolve([]) == []
