"""C73 — the execution tracker counts what the device executed."""
import numpy as np
from hypothesis import strategies as st

from pv.engine import Reject, Result, Viol

ID = "C73"
TECHNIQUE = ("hypothesis-generated histories of QNode calls, gradients, qp.execute batches, direct device entry-point calls and "
             "tracker enter/exit/reset/manual toggles; independent event log from wrappers installed outside the tracking modifier")
RULE = (
    "History of 2-10 steps on default.qubit / default.mixed / reference.qubit / null.qubit: enter (new Tracker(dev, persistent) or "
    "re-enter), exit, reset, manual active toggle, QNode call, gradient (parameter-shift / backprop / adjoint / adjoint with "
    "device_vjp via qp.jacobian), qp.execute of a batch of 1-4 tapes, direct calls of the seven device entry points (single tape "
    "or batch). Circuits: 1-3 wires, RX/RY/RZ/H/CNOT/CZ, optional broadcast parameter, shots None / int / shot vector, "
    "measurements from families with an unambiguous number of hardware circuits (qubit-wise commuting Pauli words -> 1; Pauli "
    "words / one Sum clashing on a single wire -> number of distinct letters there; a single probs/sample -> 1; times batch size). "
    "Independent record: instance-level wrappers around execute, compute_derivatives, execute_and_compute_derivatives, "
    "compute_jvp/vjp and execute_and_compute_jvp/vjp log, for every call, the received circuits, the returned results and whether "
    "the tracker was active. Oracle (docstring of simulator_tracking / Tracker): per-key history lists (order and values) and "
    "totals of batches, simulations, executions, shots, derivative_batches, derivatives, execute_and_derivative_batches, "
    "vjp/jvp counters equal the ones derived from the log; history['results'] are the returned results, history['resources'] "
    "equal gate counts / wires / depth / total recomputed from the received circuits; latest = last update; nothing is recorded "
    "while inactive; enter resets unless persistent; reset clears. Non-trivial: >= 1 gradient or derivative call and >= 1 "
    "execute batch with >= 2 circuits recorded while active."
)
ASSUMPTIONS = [
    "'executions' is checked against the documented meaning (hardware circuits) only for measurement families where that number "
    "does not depend on a grouping heuristic; for execute_and_compute_* entry points the implementation records one execution per "
    "circuit, the documentation is silent: both readings are accepted when they differ.",
    "totals['results'] is not compared (only numeric results are summed).",
    "Device preprocessing may rewrite circuits; all expectations are computed from the circuits the device actually received.",
]
BUDGET = {"quick": {"examples": 600}, "thorough": {"examples": 16000, "shards": 16}}
SHRINK_LISTS = ("steps", "circs")

DEVICES = ["default.qubit", "default.qubit", "default.qubit", "default.mixed", "reference.qubit", "null.qubit"]
ENTRY = ["execute", "compute_derivatives", "execute_and_compute_derivatives", "compute_jvp", "execute_and_compute_jvp",
         "compute_vjp", "execute_and_compute_vjp"]
COUNTERS = {
    "compute_derivatives": ("derivative_batches", "derivatives"),
    "execute_and_compute_derivatives": ("execute_and_derivative_batches", "derivatives"),
    "compute_jvp": ("jvp_batches", "jvps"),
    "execute_and_compute_jvp": ("execute_and_jvp_batches", "jvps"),
    "compute_vjp": ("vjp_batches", "vjps"),
    "execute_and_compute_vjp": ("execute_and_vjp_batches", "vjps"),
}

# ------------------------------------------------------------------------------------------------ strategy

ang = st.sampled_from([0.1, 0.37, 0.52, 0.8, 1.1, 1.9, 2.4, -0.6, -1.3])


@st.composite
def circ(draw, grad=False, analytic=False):
    n = draw(st.integers(1, 3))
    ops = [{"g": "RX", "w": [0], "p": draw(ang)}]
    for _ in range(draw(st.integers(0, 5))):
        g = draw(st.sampled_from(["RX", "RY", "RZ", "H", "CNOT", "CZ"] if n > 1 else ["RX", "RY", "RZ", "H"]))
        if g in ("CNOT", "CZ"):
            w = draw(st.permutations(list(range(n))))[:2]
            ops.append({"g": g, "w": list(w)})
        elif g == "H":
            ops.append({"g": g, "w": [draw(st.integers(0, n - 1))]})
        else:
            ops.append({"g": g, "w": [draw(st.integers(0, n - 1))], "p": draw(ang)})
    fam = draw(st.sampled_from(["qwc", "qwc", "clash", "clash", "sum"] + ([] if grad else ["probs", "sample"])))
    w0 = draw(st.integers(0, n - 1))
    if fam in ("qwc", "clash", "sum"):
        letters = ["Z"] if fam == "qwc" else draw(st.lists(st.sampled_from("XYZ"), min_size=1, max_size=3, unique=True))
        words = []
        for L in letters:
            word = {str(w0): L}
            for w in range(n):
                if w != w0 and draw(st.booleans()):
                    word[str(w)] = "Z"
            words.append(word)
        for w in range(n):  # extra words that commute with everything
            if w != w0 and draw(st.integers(0, 2)) == 0:
                words.append({str(w): "Z"})
        seen, uniq = set(), []
        for wd in words:
            k = tuple(sorted(wd.items()))
            if k not in seen:
                seen.add(k)
                uniq.append(wd)
        meas = {"fam": fam, "words": uniq, "kind": draw(st.sampled_from(["expval", "expval", "var"])) if fam != "sum" and not grad else "expval"}
    else:
        k = draw(st.integers(1, n))
        meas = {"fam": fam, "wires": list(range(k))}
    shots = None
    if not analytic and (fam == "sample" or draw(st.integers(0, 2)) == 0):
        vec = st.lists(st.sampled_from([3, 3, 5, 10]), min_size=2, max_size=3)
        shots = draw(st.sampled_from([1, 7, 50]) if grad else st.one_of(st.sampled_from([1, 7, 50]), vec))
    batch = None
    if not grad and draw(st.integers(0, 4)) == 0:
        batch = draw(st.integers(1, 3))
    return {"n": n, "ops": ops, "meas": meas, "shots": shots, "batch": batch}


def step_st():
    return st.one_of(
        st.fixed_dictionaries({"op": st.just("enter"), "how": st.sampled_from(["new", "new", "reuse"]), "persistent": st.booleans()}),
        st.fixed_dictionaries({"op": st.just("enter"), "how": st.just("new"), "persistent": st.booleans()}),
        st.sampled_from([{"op": "exit"}, {"op": "reset"}, {"op": "manual", "active": True}, {"op": "manual", "active": False},
                         {"op": "exit"}]),
        st.fixed_dictionaries({"op": st.just("qnode"), "c": circ(), "diff": st.sampled_from(["best", "parameter-shift", "backprop", None])}),
        st.fixed_dictionaries({"op": st.just("qnode"), "c": circ(), "diff": st.sampled_from(["best", "parameter-shift", "backprop", None])}),
        st.fixed_dictionaries({"op": st.just("grad"), "c": circ(grad=True),
                               "diff": st.sampled_from(["parameter-shift", "parameter-shift", "backprop", "adjoint", "adjoint-vjp"])}),
        st.fixed_dictionaries({"op": st.just("grad"), "c": circ(grad=True),
                               "diff": st.sampled_from(["parameter-shift", "parameter-shift", "backprop", "adjoint", "adjoint-vjp"])}),
        st.fixed_dictionaries({"op": st.just("execute"), "circs": st.lists(circ(), min_size=1, max_size=4)}),
        st.fixed_dictionaries({"op": st.just("execute"), "circs": st.lists(circ(), min_size=2, max_size=4)}),
        st.fixed_dictionaries({"op": st.just("execute"), "circs": st.lists(circ(), min_size=2, max_size=3)}),
        st.fixed_dictionaries({"op": st.just("dev"), "entry": st.sampled_from(ENTRY), "circs": st.lists(circ(grad=True, analytic=True), min_size=1, max_size=3),
                               "single": st.booleans()}),
        st.fixed_dictionaries({"op": st.just("dev"), "entry": st.sampled_from(ENTRY[1:]),
                               "circs": st.lists(circ(grad=True, analytic=True), min_size=2, max_size=3), "single": st.just(False)}),
        st.fixed_dictionaries({"op": st.just("dev"), "entry": st.just("execute"), "circs": st.lists(circ(), min_size=1, max_size=3),
                               "single": st.booleans()}),
    )


@st.composite
def strategy(draw, tier="quick"):
    steps = draw(st.lists(step_st(), min_size=3, max_size=10 if tier == "quick" else 16))
    first = {"op": "enter", "how": "new", "persistent": draw(st.booleans())}
    if draw(st.booleans()):
        g = draw(st.fixed_dictionaries({"op": st.just("grad"), "c": circ(grad=True),
                                        "diff": st.sampled_from(["parameter-shift", "adjoint", "adjoint-vjp", "backprop"])}))
        e = draw(st.fixed_dictionaries({"op": st.just("execute"), "circs": st.lists(circ(), min_size=2, max_size=4)}))
        for x in (g, e):
            steps.insert(draw(st.integers(0, len(steps))), x)
    if draw(st.booleans()):
        # leave and re-enter the same tracker somewhere in the middle (persistent vs resetting trackers differ only here)
        i = draw(st.integers(1, len(steps)))
        steps[i:i] = [{"op": "exit"}, {"op": "enter", "how": "reuse", "persistent": False}]
    if draw(st.integers(0, 9)) > 0:
        steps = [first] + steps
    return {"device": draw(st.sampled_from(DEVICES)), "steps": steps}


def enumerate_cases(tier):
    # the documented example: parameter-shift gradient with 100 shots -> 2 batches, 3 executions, 300 shots
    c = {"n": 1, "ops": [{"g": "RX", "w": [0], "p": 0.1}], "meas": {"fam": "qwc", "words": [{"0": "Z"}], "kind": "expval"},
         "shots": 100, "batch": None}
    yield {"device": "default.qubit", "steps": [{"op": "enter", "how": "new", "persistent": False},
                                                 {"op": "grad", "c": c, "diff": "parameter-shift"}, {"op": "exit"}]}
    # the simulator_tracking docstring example: S then <X>,<Z> with 50 shots -> executions 2, shots 100
    c2 = {"n": 1, "ops": [{"g": "RZ", "w": [0], "p": 0.8}], "meas": {"fam": "clash", "words": [{"0": "X"}, {"0": "Z"}], "kind": "expval"},
          "shots": 50, "batch": None}
    for d in ("default.qubit", "default.mixed", "reference.qubit", "null.qubit"):
        yield {"device": d, "steps": [{"op": "enter", "how": "new", "persistent": False},
                                      {"op": "dev", "entry": "execute", "circs": [c2], "single": False}, {"op": "exit"}]}


# ------------------------------------------------------------------------------------------------ builders

def word_obs(qp, word):
    ops = [getattr(qp, "Pauli" + L)(int(w)) for w, L in sorted(word.items())]
    return ops[0] if len(ops) == 1 else qp.prod(*ops)


def measurements(qp, m):
    if m["fam"] == "probs":
        return [qp.probs(wires=m["wires"])]
    if m["fam"] == "sample":
        return [qp.sample(wires=m["wires"])]
    obs = [word_obs(qp, w) for w in m["words"]]
    if m["fam"] == "sum":
        return [qp.expval(qp.sum(*obs) if len(obs) > 1 else obs[0])]
    f = qp.expval if m.get("kind", "expval") == "expval" else qp.var
    return [f(o) for o in obs]


def apply_ops(qp, c, params):
    """Queue / build the operations; `params` is an indexable of the rotation angles (first one may be broadcast)."""
    out, k = [], 0
    for o in c["ops"]:
        if "p" in o:
            out.append(getattr(qp, o["g"])(params[k], wires=o["w"]))
            k += 1
        elif o["g"] == "H":
            out.append(qp.Hadamard(wires=o["w"]))
        else:
            out.append(getattr(qp, o["g"])(wires=o["w"]))
    return out


def angles_of(c):
    return [o["p"] for o in c["ops"] if "p" in o]


def shots_of(c):
    s = c["shots"]
    return tuple(s) if isinstance(s, list) else s


def make_tape(qp, c):
    ps = list(angles_of(c))
    if c.get("batch"):
        ps[0] = np.array([ps[0] + 0.3 * j for j in range(c["batch"])])
    ops = apply_ops(qp, c, ps)
    return qp.tape.QuantumScript(ops, measurements(qp, c["meas"]), shots=shots_of(c))


# ------------------------------------------------------------------------------------------------ independent model

LETTER = {"PauliX": "X", "PauliY": "Y", "PauliZ": "Z"}


def pauli_word(obs):
    """{wire: letter} for a Pauli word built from PauliX/Y/Z and products on distinct wires, else None."""
    nm = type(obs).__name__
    if nm in LETTER:
        return {obs.wires[0]: LETTER[nm]}
    if nm == "Prod":
        out = {}
        for f in obs.operands:
            w = pauli_word(f)
            if w is None or any(k in out for k in w):
                return None
            out.update(w)
        return out
    return None


def hardware_circuits(tape):
    """Number of distinct hardware circuits for a tape from the unambiguous families, else None."""
    ms = list(tape.measurements)
    words = []
    if len(ms) == 1 and ms[0].obs is None:
        groups = 1
    else:
        for m in ms:
            if m.obs is None or type(m).__name__ not in ("ExpectationMP", "VarianceMP"):
                return None
            if type(m.obs).__name__ == "Sum":
                if len(ms) != 1 or type(m).__name__ != "ExpectationMP":
                    return None
                for t in m.obs.operands:
                    w = pauli_word(t)
                    if w is None:
                        return None
                    words.append(w)
            else:
                w = pauli_word(m.obs)
                if w is None:
                    return None
                words.append(w)
        letters = {}
        for w in words:
            for k, L in w.items():
                letters.setdefault(k, set()).add(L)
        clash = [k for k, s in letters.items() if len(s) > 1]
        if len(clash) > 1:
            return None
        groups = len(letters[clash[0]]) if clash else 1
    return groups * (tape.batch_size or 1)


def total_shots(tape):
    sh = tape.shots
    return sh.total_shots if sh else None


def depth_of(tape):
    d = {}
    for op in tape.operations:
        lay = 1 + max([d.get(w, 0) for w in op.wires] or [0])
        for w in op.wires:
            d[w] = lay
    return max(d.values()) if d else 0


class Expected:
    """Per-key history derived from the independent event log."""

    def __init__(self):
        self.history = {}
        self.latest = {}
        self.results = []      # returned result objects, in order
        self.tapes = []        # tapes whose resources must have been recorded, in order
        self.ambiguous = set()  # keys whose numeric values could not be predicted for some entry

    def update(self, **kw):
        self.latest = kw
        for k, v in kw.items():
            self.history.setdefault(k, []).append(v)

    def add_event(self, ev):
        name, batch, results = ev["entry"], ev["batch"], ev["results"]
        n = len(batch)
        if name == "execute":
            self.update(batches=1)
            res = (results,) if ev["single"] else tuple(results)
            if len(res) != n:
                raise Viol("results-count", f"execute returned {len(res)} results for {n} circuits", sig="execute")
            for t, r in zip(batch, res):
                e = hardware_circuits(t)
                kw = {"simulations": 1, "executions": e, "results": None}
                if t.shots:
                    kw["shots"] = None if e is None else total_shots(t) * e
                kw["resources"] = None
                self.update(**kw)
                self.results.append(r)
                self.tapes.append(t)
            return
        a, b = COUNTERS[name]
        if name.startswith("execute_and"):
            for t in batch:
                self.update(resources=None)
                self.tapes.append(t)
            hw = [hardware_circuits(t) for t in batch]
            alt = None if any(h is None for h in hw) else sum(hw)
            self.update(**{a: 1, "executions": None if alt is None else n if alt == n else ("either", n, alt), b: n})
        else:
            self.update(**{a: 1, b: n})


def num_equal(got, want):
    """Compare a recorded value with the expectation (None = not predictable, ('either', a, b) = two accepted readings)."""
    if want is None:
        return True
    if isinstance(want, tuple) and want and want[0] == "either":
        return any(num_equal(got, w) for w in want[1:])
    try:
        return type(got) is not bool and float(got) == float(want)
    except (TypeError, ValueError):
        return False


def same_result(a, b):
    if a is b:
        return True
    if isinstance(a, (tuple, list)) and isinstance(b, (tuple, list)):
        return len(a) == len(b) and all(same_result(x, y) for x, y in zip(a, b))
    if isinstance(a, dict) or isinstance(b, dict):
        return a == b
    try:
        a, b = np.asarray(a), np.asarray(b)
        return a.shape == b.shape and bool(np.all(a == b))
    except Exception:  # noqa: BLE001
        return False


def compare(tracker, exp, what, feats):
    hist = tracker.history
    keys = set(exp.history) | set(hist)
    for k in sorted(keys):
        want = exp.history.get(k, [])
        got = hist.get(k, [])
        if len(got) != len(want):
            raise Viol("history-length", f"{what}: history[{k!r}] has {len(got)} entries, the device log implies {len(want)} "
                       f"(got {got if k not in ('results', 'resources') else '...'})", sig="history/" + k, features=feats)
        if k == "results":
            for i, (g, r) in enumerate(zip(got, exp.results)):
                if not same_result(g, r):
                    raise Viol("results", f"{what}: history['results'][{i}] = {g!r} but execute returned {r!r}", sig="results", features=feats)
            continue
        if k == "resources":
            for i, (g, t) in enumerate(zip(got, exp.tapes)):
                cnt = {}
                for op in t.operations:
                    cnt[op.name] = cnt.get(op.name, 0) + 1
                seen = {"counts": dict(g.counts), "wires": g.num_wires, "total": g.total_quantum_operations, "depth": g.circuit_depth}
                want_r = {"counts": cnt, "wires": len(t.wires), "total": len(t.operations), "depth": depth_of(t)}
                if seen != want_r:
                    raise Viol("resources", f"{what}: history['resources'][{i}] = {seen} but the circuit has {want_r}", sig="resources",
                               features=feats)
            continue
        for i, (g, w) in enumerate(zip(got, want)):
            if not num_equal(g, w):
                raise Viol("history-value", f"{what}: history[{k!r}][{i}] = {g!r}, expected {w!r} (full: {got} vs {want})",
                           sig="history/" + k, features=feats)
        # totals: running sum of the numeric entries
        if all(not isinstance(w, tuple) and w is not None for w in want):
            tot = sum(want)
            if want and not num_equal(tracker.totals.get(k), tot):
                raise Viol("totals", f"{what}: totals[{k!r}] = {tracker.totals.get(k)!r}, history sums to {tot}", sig="totals/" + k,
                           features=feats)
        elif want and not num_equal(tracker.totals.get(k), sum(got)):
            raise Viol("totals", f"{what}: totals[{k!r}] = {tracker.totals.get(k)!r} but its history sums to {sum(got)}",
                       sig="totals/" + k, features=feats)
    for k in tracker.totals:
        if k not in hist:
            raise Viol("totals", f"{what}: totals has key {k!r} without history", sig="totals/" + k, features=feats)
    # latest
    if set(tracker.latest) != set(exp.latest):
        raise Viol("latest", f"{what}: latest keys {sorted(tracker.latest)} != {sorted(exp.latest)}", sig="latest", features=feats)
    for k, w in exp.latest.items():
        if k in ("results", "resources"):
            continue
        if not num_equal(tracker.latest[k], w):
            raise Viol("latest", f"{what}: latest[{k!r}] = {tracker.latest[k]!r}, expected {w!r}", sig="latest", features=feats)


# ------------------------------------------------------------------------------------------------ check

def install_wrappers(qp, dev, log):
    from pennylane.devices import Device

    for name in ENTRY:
        if name != "execute" and getattr(type(dev), name) == getattr(Device, name):
            continue
        orig = getattr(dev, name)

        def wrapper(circuits, *a, _orig=orig, _name=name, **k):
            single = isinstance(circuits, qp.tape.QuantumScript)
            batch = (circuits,) if single else tuple(circuits)
            active = bool(dev.tracker.active)
            trk = dev.tracker
            out = _orig(circuits, *a, **k)
            if _name == "execute":
                results = out
            elif _name.startswith("execute_and"):
                results = out[0]
            else:
                results = None
            log.append({"entry": _name, "batch": batch, "single": single, "results": results, "active": active, "tracker": trk})
            return out

        setattr(dev, name, wrapper)


def check(spec):
    import pennylane as qp
    from pennylane import numpy as pnp
    from pennylane.devices import Device, ExecutionConfig

    name = spec["device"]
    dev = qp.device(name, wires=3) if name != "default.qubit" else qp.device(name)
    log = []
    install_wrappers(qp, dev, log)
    has_deriv = {e: getattr(type(dev), e) != getattr(Device, e) for e in ENTRY}
    feats = {"device": name}
    labels = [name]

    trackers = []          # [(tracker, Expected)]
    cur = None             # index of the tracker attached to the device
    recorded_grad = recorded_batch = False
    n_active_events = 0

    def attached():
        return trackers[cur] if cur is not None else None

    def consume(what):
        nonlocal recorded_grad, recorded_batch, n_active_events
        for ev in log:
            if ev["active"]:
                if attached() is None or ev["tracker"] is not attached()[0]:
                    raise Viol("harness", "event recorded for an unknown tracker")
                attached()[1].add_event(ev)
                n_active_events += 1
                labels.append("entry:" + ev["entry"])
                if ev["entry"] != "execute":
                    recorded_grad = True
                elif len(ev["batch"]) >= 2:
                    recorded_batch = True
            else:
                labels.append("inactive-call")
        log.clear()
        for tr, ex in trackers:
            compare(tr, ex, what, feats)

    def run_step(s, at):
        nonlocal cur, recorded_grad
        op = s["op"]
        what = f"{op}"
        if op == "enter":
            if at is not None and at[0].active:
                return True
            if s["how"] == "new" or at is None:
                tr = qp.Tracker(dev, persistent=s["persistent"])
                trackers.append((tr, Expected()))
                trackers[:] = trackers[-2:]
                cur = len(trackers) - 1
                at = attached()
            tr, ex = at
            r = tr.__enter__()
            if r is not tr or not tr.active:
                raise Viol("enter", f"{what}: __enter__ returned {r!r}, active={tr.active}", sig="enter", features=feats)
            if not tr.persistent:
                trackers[cur] = (tr, Expected())
            labels.append("enter:persistent" if tr.persistent else "enter")
        elif op == "exit":
            if at is None or not at[0].active:
                return True
            at[0].__exit__(None, None, None)
            if at[0].active:
                raise Viol("exit", f"{what}: still active after __exit__", sig="exit", features=feats)
        elif op == "reset":
            if at is None:
                return True
            at[0].reset()
            trackers[cur] = (at[0], Expected())
            labels.append("reset")
        elif op == "manual":
            if at is None:
                return True
            at[0].active = s["active"]
            labels.append("manual-toggle")
        elif op in ("qnode", "grad"):
            c = s["c"]
            diff = s["diff"]
            kw = {}
            if diff == "adjoint-vjp":
                diff, kw = "adjoint", {"device_vjp": True}
            if diff == "adjoint" and (name != "default.qubit" or c["shots"] is not None):
                return True
            if diff == "backprop" and (c["shots"] is not None or name in ("reference.qubit",)):
                return True
            if op == "grad" and diff in (None, "best"):
                return True

            def qfunc(x, c=c):
                apply_ops(qp, c, x)
                ms = measurements(qp, c["meas"])
                return ms[0] if len(ms) == 1 else tuple(ms)

            node = qp.set_shots(qp.QNode(qfunc, dev, diff_method=diff, **kw), shots=shots_of(c))
            ps = angles_of(c)
            try:
                if op == "qnode":
                    if c.get("batch"):
                        arg = [np.array([ps[0] + 0.3 * j for j in range(c["batch"])])] + ps[1:]
                    else:
                        arg = ps
                    node(arg)
                else:
                    x = pnp.array(ps, requires_grad=True)
                    nm = len(measurements(qp, c["meas"]))
                    qp.jacobian((lambda x: pnp.stack(node(x))) if nm > 1 else node)(x)
            except qp.exceptions.QuantumFunctionError as e:
                if "does not support" in str(e) or "not supported" in str(e):
                    log.clear()
                    raise Reject(f"{name}: diff_method {s['diff']} not supported") from None
                raise
            labels.append(f"{op}:{s['diff']}")
            if op == "grad" and any(ev["active"] for ev in log):
                recorded_grad = True
        elif op == "execute":
            tapes = [make_tape(qp, c) for c in s["circs"]]
            qp.execute(tapes, dev, diff_method=None)
            labels.append(f"execute:k={len(tapes)}")
        elif op == "dev":
            entry = s["entry"]
            if not has_deriv.get(entry, False) and entry != "execute":
                return True
            if entry != "execute" and name != "default.qubit":
                return True
            tapes = [make_tape(qp, c) for c in s["circs"]]
            single = s["single"] and len(tapes) == 1
            arg = tapes[0] if single else tuple(tapes)
            if entry == "execute":
                # a device only promises to execute circuits that went through its own preprocessing
                pre, _ = dev.preprocess_transforms()(tuple(tapes))
                single = single and len(pre) == 1
                dev.execute(pre[0] if single else tuple(pre))
            else:
                cfg = dev.setup_execution_config(ExecutionConfig(gradient_method="adjoint"))
                pre, _ = dev.preprocess_transforms(cfg)(tuple(tapes))
                single = single and len(pre) == 1
                arg = pre[0] if single else tuple(pre)
                cot = [tuple(0.5 + 0.1 * j for j in range(len(t.measurements))) if len(t.measurements) > 1 else 0.7 for t in pre]
                tan = [tuple(0.1 * (j + 1) for j in range(len(t.trainable_params))) for t in pre]
                if "jvp" in entry:
                    getattr(dev, entry)(arg, tan[0] if single else tuple(tan), cfg)
                elif "vjp" in entry:
                    getattr(dev, entry)(arg, cot[0] if single else tuple(cot), cfg)
                else:
                    getattr(dev, entry)(arg, cfg)
            labels.append("dev:" + entry + (":single" if single else ""))
        return False

    for si, s in enumerate(spec["steps"]):
        op = s["op"]
        what = f"step {si} {op}"
        at = attached()
        try:
            skip = run_step(s, at)
        except (Viol, Reject):
            raise
        except Exception as e:  # noqa: BLE001  the workflow / device crashed on a valid circuit
            import traceback

            where = [f for f in traceback.extract_tb(e.__traceback__) if "/pennylane/" in f.filename]
            if not where:
                raise
            kind = s.get("entry") or s.get("diff") or ""
            raise Viol("device-crash", f"{what} {kind} on {name}: {type(e).__name__}: {e} (at {where[-1].filename.split('/pennylane/')[-1]}:"
                       f"{where[-1].lineno}) circuit={s.get('c') or s.get('circs')}", sig=f"crash/{op}:{kind}/{type(e).__name__}",
                       features={**feats, "op": op, "kind": kind, "exc": type(e).__name__}) from None
        if skip:
            continue
        consume(what + f" {({k: v for k, v in s.items() if k not in ('c', 'circs', 'op')})}")
    nontrivial = recorded_grad and recorded_batch
    if n_active_events == 0:
        labels.append("nothing-recorded")
    return Result(nontrivial, sorted(set(labels)))
def selftest():
    class W(list):
        pass

    class Op:
        def __init__(self, name, wires):
            self.name, self.wires = name, wires

    class Tp:
        operations = [Op("RX", [0]), Op("CNOT", [0, 1]), Op("H", [2]), Op("CNOT", [1, 2])]

    assert depth_of(Tp) == 3
    assert num_equal(2, ("either", 1, 2)) and not num_equal(3, ("either", 1, 2)) and num_equal(np.int64(4), 4) and num_equal(7, None)
