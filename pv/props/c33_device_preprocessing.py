"""C33 — device preprocessing yields executable, equivalent circuits (or rejects with a documented error)."""
import numpy as np
from hypothesis import strategies as st

from pv import gen, specs
from pv.cmp import close, maxdiff, to_np
from pv.engine import Reject, Result, Viol
from pv.props.c26_default_qubit import _standard_order
from pv.ref import sim

ID = "C33"
TECHNIQUE = ("hypothesis-generated circuits x 6 built-in devices x ExecutionConfig variants pushed through dev.preprocess_transforms; "
             "structural predicates + device execution + independent numpy simulation of the output tapes vs the input")
RULE = (
    "Circuit: 1-4 wires (int/str/mixed labels), named gates, GlobalPhase/MultiRZ/PauliRot/QubitUnitary/MultiControlledX, adjoint/"
    "pow/ctrl/prod/exp wrappers, templates (QFT, AngleEmbedding, BasicEntanglerLayers, GroverOperator), leading and mid-circuit "
    "StatePrep/BasisState (mid-circuit only on untouched wires), optional broadcast parameter; measurements expval/var of Pauli "
    "words, Hermitian, Sum/SProd, rotations (unsupported), probs, state, density_matrix, purity, vn_entropy, mutual_info, sample/"
    "counts; shots None or finite. Device: default.qubit / default.mixed / reference.qubit / default.clifford / default.tensor "
    "(mps, tn) / null.qubit without wires, with the circuit's wires (permuted, idle extras) or with a wire missing; config: "
    "gradient_method in {None, best, backprop, adjoint, parameter-shift} x mcm_method in {None, deferred, one-shot, "
    "tree-traversal}, resolved with dev.setup_execution_config. Oracle: program((tape,)) either raises DeviceError / WireError / "
    "DecompositionUndefinedError / AllocationError (rejected; a circuit made only of the device's documented native class must be "
    "accepted) or returns tapes with (1) every wire on the device, (2) "
    "every operation accepted by the device module's public support predicate (a state preparation may lead where the device "
    "documents it), (3) dev.execute succeeds without further preprocessing, (4) post-processed pv.ref.sim results of the output "
    "tapes equal pv.ref.sim on the input (1e-8), (5) post-processed device results equal pv.ref.sim on the input (analytic, not "
    "null.qubit); the input tape is unchanged in either case. Non-trivial: output tapes differ from the input."
)
ASSUMPTIONS = [
    "Finite-shot cases are checked structurally and for successful execution only (results are samples).",
    "pv.ref.sim evaluates templates / Exp through qp.matrix(op); named gates, wrappers and measurements are independent.",
    "state() / probs() without wires are generated only for devices with explicit wires (the wire order of a wire-less device "
    "after decomposition is not documented).",
    "Mid-circuit state preparations act on wires still in |0> (their decomposition is only defined there).",
    "No mid-circuit measurements (C21/C43 cover the mcm transforms); mcm_method only selects the pipeline.",
]
BUDGET = {"quick": {"examples": 320}, "thorough": {"examples": 24000, "shards": 16}}
SHRINK_LISTS = ("ops", "meas")

DEVICES = ["default.qubit", "default.mixed", "reference.qubit", "default.clifford", "default.tensor", "null.qubit"]
CLIFFORD_NATIVE = {"PauliX": (0, 1), "PauliY": (0, 1), "PauliZ": (0, 1), "Hadamard": (0, 1), "S": (0, 1), "SX": (0, 1),
                   "CNOT": (0, 2), "SWAP": (0, 2), "ISWAP": (0, 2), "CY": (0, 2), "CZ": (0, 2)}
def _sub(names):
    return {k: gen.ALL_GATES[k] for k in names.split()}


# gates each device documents as natively supported (module-level `operations` tables / "any operation with a matrix")
NATIVE = {
    "default.qubit": None, "null.qubit": None, "default.clifford": CLIFFORD_NATIVE,
    "reference.qubit": _sub("PauliX PauliY PauliZ Hadamard CNOT CZ RX RY RZ"),
    "default.mixed": _sub("PauliX PauliY PauliZ Hadamard S T SX CNOT SWAP ISWAP CSWAP Toffoli CCZ CY CZ CH PhaseShift ControlledPhaseShift "
                          "CPhaseShift00 CPhaseShift01 CPhaseShift10 RX RY RZ Rot CRX CRY CRZ CRot SingleExcitation SingleExcitationPlus "
                          "SingleExcitationMinus DoubleExcitation DoubleExcitationPlus DoubleExcitationMinus OrbitalRotation FermionicSWAP ECR"),
    "default.tensor": _sub("PauliX PauliY PauliZ Hadamard S T SX CNOT SWAP ISWAP PSWAP SISWAP CSWAP Toffoli CY CZ PhaseShift "
                           "ControlledPhaseShift RX RY RZ Rot CRX CRY CRZ CRot IsingXX IsingYY IsingZZ IsingXY SingleExcitation "
                           "SingleExcitationPlus SingleExcitationMinus DoubleExcitation OrbitalRotation ECR"),
}
CLIFFORD_MORE = {**CLIFFORD_NATIVE, "ECR": (0, 2), "CH": (0, 2), "T": (0, 1), "RZ": (1, 1), "Toffoli": (0, 3), "CSWAP": (0, 3)}


# ----------------------------------------------------------------------------------------------
# generator
# ----------------------------------------------------------------------------------------------

@st.composite
def _wrapped(draw, wires, pool):
    """Symbolic wrappers, templates, operator products."""
    n = len(wires)
    kind = draw(st.sampled_from(["adjoint", "pow", "ctrl", "prod", "exp", "qft", "angle", "bel", "grover"]))
    if kind == "adjoint":
        return {"op": "adjoint", "base": draw(gen.gate(wires, pool))}
    if kind == "pow":
        return {"op": "pow", "base": draw(gen.gate(wires, pool)), "z": draw(st.sampled_from([-2, -1, 0, 2, 3]))}
    if kind == "ctrl" and n >= 2:
        cw = draw(gen.subset(wires, draw(st.integers(1, min(2, n - 1)))))
        rest = [w for w in wires if w not in cw]
        small = {k: v for k, v in (pool or gen.ALL_GATES).items() if v[1] <= len(rest)}
        return {"op": "ctrl", "base": draw(gen.gate(rest, small)), "cw": cw,
                "cv": draw(st.lists(st.booleans(), min_size=len(cw), max_size=len(cw)))}
    if kind == "prod":
        return {"op": "prod", "operands": [draw(gen.gate(wires, pool)) for _ in range(draw(st.integers(2, 3)))]}
    if kind == "exp":
        return {"op": "exp", "base": draw(gen.pauli_word_obs(wires)), "c": {"c": [0.0, draw(gen.floats01)]}}
    if kind == "qft":
        return {"op": "QFT", "p": [], "w": draw(gen.subset(wires, draw(st.integers(1, min(3, n)))))}
    if kind == "angle":
        k = draw(st.integers(1, n))
        return {"op": "AngleEmbedding", "p": [draw(gen.float_list(k))], "w": draw(gen.subset(wires, k)),
                "kw": {"rotation": draw(st.sampled_from(["X", "Y", "Z"]))}}
    if kind == "bel":
        k = draw(st.integers(1, n))
        L = draw(st.integers(1, 2))
        return {"op": "BasicEntanglerLayers", "p": [[draw(gen.float_list(k)) for _ in range(L)]], "w": draw(gen.subset(wires, k))}
    if kind == "grover" and n >= 2:
        return {"op": "GroverOperator", "p": [], "w": draw(gen.subset(wires, draw(st.integers(2, n))))}
    return draw(gen.gate(wires, pool))


@st.composite
def _ops(draw, wires, pool, rich, max_depth, stab=False, tensor=False):
    """Operation list; `rich` adds wrappers / templates / extras / mid-circuit preparations / a broadcast parameter."""
    n = len(wires)
    depth = draw(st.integers(1, max_depth))
    ops = []
    # a wire reserved for a mid-circuit state preparation stays untouched until the preparation
    mid = draw(st.sampled_from([None] * 8 + ["StatePrep", "BasisState"])) if (rich and n >= 2) else None
    mid_w = draw(gen.subset(wires, draw(st.integers(1, min(2, n - 1))))) if mid else []
    mid_at = draw(st.integers(1, depth)) if mid else None
    for i in range(depth):
        if mid and i == mid_at:
            ops.append(_prep(draw, mid, mid_w, stab))
        free = [w for w in wires if w not in mid_w] if (mid and i < mid_at) else wires
        r = draw(st.sampled_from([0.1, 0.1, 0.1, 0.35, 0.9, 0.9, 0.9, 0.9]))
        if rich and r < 0.3:
            ops.append(draw(_wrapped(free, pool)))
        elif rich and r < 0.42 and pool is None:
            ops.append(draw(gen.extra_gate(free)))
        else:
            ops.append(draw(gen.gate(free, pool)))
    if mid and mid_at >= depth:
        ops.append(_prep(draw, mid, mid_w, stab))
    lead = draw(st.sampled_from([None] * (10 if tensor else 4) + ["StatePrep", "BasisState"]))
    if lead and not mid:
        ops.insert(0, _prep(draw, lead, draw(gen.subset(wires, draw(st.integers(1, n)))), stab))
    batch = None
    if rich and pool is None and draw(st.sampled_from([True] + [False] * 7)):
        batch = draw(st.integers(1, 3))
        nm = draw(st.sampled_from(["RX", "RZ", "PhaseShift"] + (["CRY", "IsingXX"] if n >= 2 else [])))
        free = [w for w in wires if w not in mid_w] or wires
        k = gen.ALL_GATES[nm][1]
        if k <= len(free):
            pos = draw(st.integers(1 if (lead and not mid) else 0, len(ops)))
            ops.insert(pos, {"op": nm, "p": [draw(st.lists(gen.angles(), min_size=batch, max_size=batch))],
                             "w": draw(gen.subset(free, k)), "batched": True})
        else:
            batch = None
    return ops, batch


_STAB1 = [[1, 0], [0, 1], [1, 1], [1, -1], [1, 1j], [1, -1j]]


def _prep(draw, kind, ws, stabilizer=False):
    if kind == "BasisState":
        return {"op": "BasisState", "p": [draw(st.lists(st.integers(0, 1), min_size=len(ws), max_size=len(ws)))], "w": ws}
    if stabilizer:   # default.clifford documents Clifford circuits only: stabilizer states
        if len(ws) == 2 and draw(st.booleans()):
            v = np.array(draw(st.sampled_from([[1, 0, 0, 1], [1, 0, 0, -1], [0, 1, 1j, 0], [1, 1j, 1j, -1]])), dtype=complex)
        else:
            v = np.ones(1, dtype=complex)
            for _ in ws:
                v = np.kron(v, np.array(draw(st.sampled_from(_STAB1)), dtype=complex))
        v = v / np.linalg.norm(v)
        return {"op": "StatePrep", "p": [{"carr": [[float(x.real), float(x.imag)] for x in v]}], "w": ws}
    return {"op": "StatePrep", "p": [{"vec": draw(gen.float_list(6)), "n": len(ws)}], "w": ws}


@st.composite
def _meas_list(draw, wires, dev, has_dev_wires, rich):
    n = len(wires)
    sub = st.integers(1, n).flatmap(lambda k: gen.subset(wires, k))
    core = [gen.pauli_word_obs(wires).map(lambda o: {"mp": "expval", "obs": o})]
    if not rich:
        return draw(st.lists(st.one_of(*core), min_size=1, max_size=3)), True
    opts = core + [gen.observable(wires).map(lambda o: {"mp": "expval", "obs": o}),
                   gen.observable(wires).map(lambda o: {"mp": "var", "obs": o}),
                   sub.map(lambda w: {"mp": "probs", "w": w}),
                   gen.pauli_word_obs(wires).map(lambda o: {"mp": "probs", "obs": o}),
                   sub.map(lambda w: {"mp": "density_matrix", "w": w}),
                   sub.map(lambda w: {"mp": "purity", "w": w}),
                   sub.map(lambda w: {"mp": "vn_entropy", "w": w}),
                   # observables no device measures: a rotation / a non-Hermitian product of rotations
                   st.tuples(gen.angles(), gen.subset(wires, 1)).map(lambda t: {"mp": "expval", "obs": {"op": "RX", "p": [t[0]], "w": t[1]}}),
                   st.tuples(gen.angles(), gen.subset(wires, 1)).map(lambda t: {"mp": "expval", "obs": {"op": "prod", "operands": [
                       {"op": "RY", "p": [t[0]], "w": t[1]}, {"op": "RZ", "p": [0.4], "w": t[1]}]}}),
                   sub.map(lambda w: {"mp": "sample", "w": w}),
                   sub.map(lambda w: {"mp": "counts", "w": w})]
    if has_dev_wires:
        opts += [st.just({"mp": "state"}), st.just({"mp": "probs"})]
    if n >= 2:
        opts.append(st.permutations(wires).flatmap(lambda p: st.integers(1, n - 1).map(
            lambda k: {"mp": "mutual_info", "w0": list(p)[:k], "w1": list(p)[k:]})))
    if dev == "default.tensor" and draw(st.sampled_from([True, True, True, False])):
        opts = opts[:3] + ([st.just({"mp": "state"})] if has_dev_wires else [])     # what default.tensor documents: expval, var, state
    return draw(st.lists(st.one_of(*opts), min_size=1, max_size=3)), False


@st.composite
def _case(draw, tier):
    dev = draw(st.sampled_from(DEVICES))
    n = draw(st.integers(1, 4 if tier == "thorough" else 3)) if dev != "default.tensor" else draw(st.integers(1, 3))
    wires = draw(gen.wire_labels(n))
    native = draw(st.sampled_from([True, False, False, False]))          # a circuit the device must accept
    if dev == "default.clifford":
        pool = CLIFFORD_NATIVE if native else draw(st.sampled_from([CLIFFORD_NATIVE, CLIFFORD_MORE, CLIFFORD_MORE]))
        rich = not native and draw(st.booleans())
    else:
        pool = NATIVE[dev] if native else None
        rich = not native
    ops, batch = draw(_ops(wires, pool, rich, 8 if tier == "thorough" else 6, stab=(dev == "default.clifford"), tensor=(dev == "default.tensor")))
    devw = draw(st.sampled_from(["none", "same", "perm", "extra", "extra"] + ([] if native else ["missing"])))
    dev_wires = None
    if devw == "same":
        dev_wires = list(wires)
    elif devw == "perm":
        dev_wires = list(draw(st.permutations(wires)))
    elif devw == "extra":
        dev_wires = list(draw(st.permutations(wires + ["idle1", "idle2"][: draw(st.integers(1, 2))])))
    elif devw == "missing":
        dev_wires = list(draw(st.permutations(wires)))[1:] + ["idle1"]
    meas, core_meas = draw(_meas_list(wires, dev, dev_wires is not None, rich))
    shots = None if native else draw(st.sampled_from([None, None, None, None, 7]))
    if native:   # configurations every device documents
        cfg = {"gm": draw(st.sampled_from([None, "best", "parameter-shift"] + (["backprop", "adjoint"] if dev in ("default.qubit", "null.qubit") else []))),
               "mcm": draw(st.sampled_from([None, "deferred"]))}
    else:
        cfg = {"gm": draw(st.sampled_from([None, None, "best", "backprop", "adjoint", "parameter-shift"])),
               "mcm": draw(st.sampled_from([None, None, "deferred", "one-shot", "tree-traversal"]))}
    dev_kw = {}
    if dev == "default.tensor":
        dev_kw["method"] = draw(st.sampled_from(["mps", "tn"]))
    if dev == "default.clifford":
        dev_kw["tableau"] = False
    unsup = any(m.get("obs") and _leaf(m["obs"]) in ("RX", "RY") for m in meas)
    return {"unsup_obs": unsup, "dev": dev, "dev_kw": dev_kw, "dev_wires": dev_wires, "devw": devw, "cfg": cfg, "ops": ops, "meas": meas,
            "wires": wires, "shots": shots, "native": bool(native and core_meas), "batch": batch}


@st.composite
def _order_case(draw, tier):
    """Wire-less state() / probs() on a device with explicit wires whose order differs from the order in which the circuit first
    uses them (the circuit touches every device wire or leaves some idle): results are documented to follow the device order."""
    dev = draw(st.sampled_from(["default.qubit", "default.qubit", "default.mixed", "reference.qubit"]))
    n = draw(st.integers(2, 3))
    wires = draw(gen.wire_labels(n))
    dev_wires = list(draw(st.permutations(wires)))
    idle = draw(st.sampled_from([0, 0, 0, 1]))
    if idle:
        dev_wires = list(draw(st.permutations(dev_wires + ["idle1"])))
    first = [w for w in dev_wires if w in wires][-1]       # the first gate acts on the last device wire that the circuit uses
    pool = _sub("RX RY Hadamard CNOT CRX T IsingXX S")
    pool = {k: v for k, v in pool.items() if v[1] <= n}
    ops = [{"op": "RY", "p": [draw(gen.generic_angles())], "w": [first]}]
    ops += draw(gen.op_list(wires, pool, 4, ang=gen.generic_angles(), p_derive=0.0))
    for w in wires:     # every circuit wire is used with a state that tells the wires apart
        if not any(w in specs.spec_wires(o) for o in ops):
            ops.append({"op": "RX", "p": [draw(gen.generic_angles())], "w": [w]})
    meas = draw(st.lists(st.sampled_from([{"mp": "state"}, {"mp": "probs"}, {"mp": "probs"}]), min_size=1, max_size=1))
    if draw(st.booleans()):
        meas = meas + [draw(gen.pauli_word_obs(wires).map(lambda o: {"mp": "expval", "obs": o}))]
    cfg = {"gm": draw(st.sampled_from([None, None, "best", "parameter-shift"])), "mcm": draw(st.sampled_from([None, None, "deferred"]))}
    return {"unsup_obs": False, "dev": dev, "dev_kw": {}, "dev_wires": dev_wires, "devw": "extra" if idle else "perm", "cfg": cfg, "ops": ops, "meas": meas,
            "wires": wires, "shots": None, "native": False, "batch": None}


def strategy(tier):
    return st.one_of(*([_case(tier)] * 6 + [_order_case(tier)]))


# ----------------------------------------------------------------------------------------------
# helpers
# ----------------------------------------------------------------------------------------------

def _unbatch_spec(ops, i):
    return [({**{k: v for k, v in o.items() if k != "batched"}, "p": [p[i] for p in o["p"]]} if o.get("batched") else o) for o in ops]


def _unbatch_tape(tape, i):
    """Slice batch element i out of every broadcast operation of a tape (independent of qp.transforms.broadcast_expand)."""
    import pennylane as qp

    new_ops = []
    for op in tape.operations:
        if getattr(op, "batch_size", None) is None:
            new_ops.append(op)
            continue
        ps = [(p[i] if np.ndim(p) > nd else p) for p, nd in zip(op.data, op.ndim_params)]
        new_ops.append(qp.ops.functions.bind_new_parameters(op, ps))
    return qp.tape.QuantumScript(new_ops, tape.measurements, shots=tape.shots)


def _ref_tape(tape, order):
    """Reference results of an unbatched analytic tape. StateMP with explicit wires W = the state on exactly W, in W order."""
    out = []
    for mp in tape.measurements:
        o = list(order)
        if type(mp).__name__ == "StateMP" and len(mp.wires):
            o = list(mp.wires)
        o = o + [w for w in tape.wires if w not in o]
        psi = sim.run_ops(tape.operations, o)
        out.append(np.asarray(sim.measure(psi, mp, o)))
    return tuple(out)


def _ref_batched(tape, order):
    """Reference result in the result-spec format of one executed tape (bare value for a single measurement,
    leading batch axis per measurement for a broadcast tape)."""
    b = tape.batch_size
    if b is None:
        res = _ref_tape(tape, order)
    else:
        per = [_ref_tape(_unbatch_tape(tape, i), order) for i in range(b)]
        res = tuple(np.stack([p[j] for p in per]) for j in range(len(tape.measurements)))
    return res[0] if len(tape.measurements) == 1 else res


def _support_predicate(dev_name, cfg):
    """(predicate over operations, leading state preparation allowed) from the device module's public functions."""
    import pennylane as qp
    from pennylane import devices as D

    if dev_name == "default.qubit":
        from pennylane.devices import default_qubit as m
        if cfg.gradient_method == "adjoint":
            return (lambda op: m.stopping_condition(op) and m.adjoint_ops(op)), True
        return m.stopping_condition, True
    if dev_name == "default.mixed":
        from pennylane.devices import default_mixed as m
        return m.stopping_condition, True
    if dev_name == "reference.qubit":
        from pennylane.devices import reference_qubit as m
        return m.supports_operation, False
    if dev_name == "default.clifford":
        from pennylane.devices import default_clifford as m
        return m.operation_stopping_condition, True
    if dev_name == "default.tensor":
        from pennylane.devices import default_tensor as m
        return m.stopping_condition, True
    return None, True


def _same_tape(a, b):
    import pennylane as qp

    if len(a.operations) != len(b.operations) or len(a.measurements) != len(b.measurements) or a.shots != b.shots:
        return False
    if list(a.trainable_params) != list(b.trainable_params):
        return False
    for x, y in zip(a.operations, b.operations):
        if type(x) is not type(y) or x.wires != y.wires or len(x.data) != len(y.data):
            return False
        if not all(np.shape(p) == np.shape(q) and np.array_equal(np.asarray(p), np.asarray(q)) for p, q in zip(x.data, y.data)):
            return False
        if not qp.equal(x, y):
            return False
    return all(qp.equal(x, y) for x, y in zip(a.measurements, b.measurements))


def _differs(batch, tape):
    if len(batch) != 1:
        return True
    t = batch[0]
    if len(t.operations) != len(tape.operations) or len(t.measurements) != len(tape.measurements):
        return True
    return any(x is not y for x, y in zip(t.operations, tape.operations)) or any(x is not y for x, y in zip(t.measurements, tape.measurements))


def _cmp(got, exp, tol, clause, what, feats, sig, mps, state_up_to_phase=False):
    got = to_np(got)
    if not isinstance(got, tuple):
        got = (got,)
    if len(got) != len(exp):
        raise Viol(clause, f"{what}: {len(got)} results for {len(exp)} measurements", sig=sig + ":len", features=feats)
    for j, (g, e) in enumerate(zip(got, exp)):
        g = np.asarray(g)
        e = np.asarray(e)
        kind = type(mps[j]).__name__ + (":" + type(mps[j].obs).__name__ if mps[j].obs is not None else "")
        if g.shape != e.shape:
            raise Viol(clause, f"{what}: measurement {j} shape {g.shape} expected {e.shape}", sig=f"{sig}:{kind}:shape", features=feats)
        if state_up_to_phase and kind == "StateMP" and sim.allclose_phase(g, e, tol):
            continue
        if not close(g, e, tol):
            raise Viol(clause, f"{what}: measurement {j} diff={maxdiff(g, e)} got={np.round(g, 6).tolist()} exp={np.round(e, 6).tolist()}",
                       sig=f"{sig}:{kind}", features=feats)


# ----------------------------------------------------------------------------------------------
# check
# ----------------------------------------------------------------------------------------------

def check(spec):
    import pennylane as qp
    from pennylane.devices import ExecutionConfig, MCMConfig
    from pennylane.exceptions import AllocationError, DecompositionUndefinedError, DeviceError, WireError

    name = spec["dev"]
    b = next((len(o["p"][0]) for o in spec["ops"] if o.get("batched")), None)   # derived: the shrinker may delete the op
    dev_wires = [specs.wire(w) for w in spec["dev_wires"]] if spec.get("dev_wires") else None
    tspec = {"ops": [{k: v for k, v in o.items() if k != "batched"} for o in spec["ops"]], "meas": spec["meas"], "shots": spec.get("shots")}
    tape = specs.build_tape(tspec)
    pristine = specs.build_tape(tspec)
    for m in tape.measurements:
        if type(m).__name__ == "MutualInfoMP" and set(m.raw_wires[0]) & set(m.raw_wires[1]):
            raise Reject("mutual_info overlapping")
    kw = dict(spec.get("dev_kw") or {})
    if name in ("default.qubit", "default.mixed", "default.clifford", "reference.qubit"):
        kw["seed"] = 11
    dev = qp.device(name, wires=dev_wires, **kw)
    feats = {"dev": name, "gm": spec["cfg"]["gm"], "mcm": spec["cfg"]["mcm"], "devw": spec["devw"], "shots": bool(spec.get("shots")),
             "mid_prep": any(_leaf(o) in ("StatePrep", "BasisState") for o in spec["ops"][1:]),
             "lead_prep": spec["ops"][0]["op"] if spec["ops"] and spec["ops"][0]["op"] in ("StatePrep", "BasisState") else None,
             "batched": bool(b), "zero_coeff": '"c": 0.0' in _dumps(spec["meas"]) or '"c": -0.0' in _dumps(spec["meas"]),
             "entropy_mp": any(m["mp"] in ("vn_entropy", "mutual_info") for m in spec["meas"]), "hermitian": any(m.get("obs") and _leaf(m["obs"]) == "Hermitian" for m in spec["meas"])}
    cfg0 = ExecutionConfig(gradient_method=spec["cfg"]["gm"], mcm_config=MCMConfig(mcm_method=spec["cfg"]["mcm"]))
    rejected = None
    try:
        cfg = dev.setup_execution_config(cfg0, tape)
        program = dev.preprocess_transforms(cfg)
        batch, fn = program((tape,))
    except (DeviceError, WireError, DecompositionUndefinedError, AllocationError, RuntimeError, NotImplementedError) as e:
        # RuntimeError / NotImplementedError: how split_non_commuting / no_counts ... refuse a measurement they cannot handle
        rejected = e
    if not _same_tape(tape, pristine):
        raise Viol("input-modified", f"{name}: input tape changed by preprocessing ({'rejected' if rejected else 'accepted'}): "
                   f"{tape.operations} {tape.measurements}", sig=name + ":input", features=feats)
    if rejected is not None:
        if spec.get("native"):
            raise Viol("spurious-rejection", f"{name} cfg={spec['cfg']} rejected a circuit of its documented native class: "
                       f"{type(rejected).__name__}: {str(rejected)[:300]} ops={tape.operations}", sig=name + ":" + type(rejected).__name__, features=feats)
        raise Reject(f"{name}: {type(rejected).__name__}")
    # (1) wires, (2) support predicate
    pred, lead_ok = _support_predicate(name, cfg)
    feats["method"] = (spec.get("dev_kw") or {}).get("method")
    feats["out_paulirot"] = any(type(op).__name__ in ("PauliRot", "MultiRZ") and len(op.wires) >= 2 for t in batch for op in t.operations)
    for t in batch:
        if dev_wires is not None and not set(t.wires) <= set(dev_wires):
            raise Viol("output-wires", f"{name}: output wires {list(t.wires)} not on device {dev_wires}", sig=name + ":wires", features=feats)
        for k, op in enumerate(t.operations):
            if pred is None:
                break
            if k == 0 and lead_ok and isinstance(op, qp.operation.StatePrepBase):
                continue
            if not pred(op):
                raise Viol("unsupported-op-in-output", f"{name} cfg={spec['cfg']}: {op} at position {k} is not accepted by the device's support predicate",
                           sig=f"{name}:{type(op).__name__}", features={**feats, "bad_op": type(op).__name__})
        if bool(t.shots) != bool(tape.shots):
            raise Viol("shots-changed", f"{name}: shots {tape.shots} -> {t.shots}", sig=name + ":shots", features=feats)

    # (3) executes without further preprocessing
    try:
        dres = dev.execute(tuple(batch), cfg)
        dfinal = fn(dres)[0]
    except Exception as e:  # noqa: BLE001
        raise Viol("output-not-executable", f"{name} cfg={spec['cfg']}: executing the preprocessed tapes raised {type(e).__name__}: {str(e)[:300]} "
                   f"ops={[str(o) for o in batch[0].operations][:12]} meas={batch[0].measurements}",
                   sig=f"{name}:{type(e).__name__}:{_msgkey(e)}", features={**feats, "exc": type(e).__name__})

    labels = ["dev:" + name, "gm:" + str(spec["cfg"]["gm"]), "mcm:" + str(spec["cfg"]["mcm"]), "devw:" + spec["devw"],
              "ntapes:" + str(min(len(batch), 3)), "shots" if tape.shots else "analytic"] + ["mp:" + m["mp"] for m in spec["meas"]] + \
             (["native"] if spec.get("native") else []) + (["batched"] if b else []) + \
             sorted({"op:" + _leaf(o) for o in spec["ops"] if _leaf(o) in ("StatePrep", "BasisState", "QFT", "AngleEmbedding",
                                                                           "BasicEntanglerLayers", "GroverOperator")}) + \
             sorted({"wrap:" + o["op"] for o in spec["ops"] if o["op"] in ("adjoint", "pow", "ctrl", "prod", "exp")})
    nontrivial = _differs(batch, tape)
    if tape.shots:
        return Result(nontrivial, labels=labels)

    # (4) reference simulation of the outputs, post-processed, equals the reference simulation of the input
    order = list(dev_wires) if dev_wires else _standard_order(tape)
    if b:
        per = [_ref_tape(specs.build_tape({**tspec, "ops": _unbatch_spec(spec["ops"], i)}), order) for i in range(b)]
        expected = tuple(np.stack([p[j] for p in per]) for j in range(len(tape.measurements)))
    else:
        expected = _ref_tape(tape, order)
    if spec.get("unsup_obs"):      # expval of a non-Hermitian operator has no documented value: structure + execution only
        return Result(nontrivial, labels=labels + ["accepted-nonhermitian-obs"])
    if dev_wires is not None and not set(tape.wires) <= set(dev_wires):
        # accepted although the input names an off-device wire: the wire vanished in decomposition (e.g. a BasisState bit 0);
        # the outputs are on the device (checked above), results of the input on a wire the device lacks are undefined
        return Result(nontrivial, labels=labels + ["off-device-wire-vanished"])
    ref_out = []
    for t in batch:
        o = list(dev_wires) if dev_wires else _standard_order(t)
        try:
            ref_out.append(_ref_batched(t, o))
        except Exception as e:  # noqa: BLE001  (the same reference evaluated the input tape: the output is malformed)
            raise Viol("output-malformed", f"{name} cfg={spec['cfg']}: reference simulation of an output tape raised {type(e).__name__}: {e}; "
                       f"ops={[str(x) for x in t.operations][:14]} batch_size={t.batch_size}", sig=f"{name}:ref:{type(e).__name__}", features=feats)
    try:
        ref_final = fn(tuple(ref_out))[0]
    except Exception as e:  # noqa: BLE001
        raise Viol("postprocessing-raised", f"{name}: post-processing of reference results raised {type(e).__name__}: {e}",
                   sig=name + ":post", features=feats)
    _cmp(ref_final, expected, 1e-8, "not-equivalent", f"{name} cfg={spec['cfg']} ops={[str(o) for o in tape.operations]} meas={tape.measurements} "
         f"out={[[str(o) for o in t.operations] for t in batch][:2]}", feats, name + ":equiv", tape.measurements)
    # (5) the device's own results
    if name == "default.mixed":     # documented: default.mixed answers state() with the density matrix
        expected = tuple((np.einsum("...i,...j->...ij", e, np.conj(e)) if type(mp).__name__ == "StateMP" else e)
                         for e, mp in zip(expected, tape.measurements))
    if name != "null.qubit":
        _cmp(dfinal, expected, 1e-6 if name in ("default.tensor", "default.clifford") else 1e-8, "device-result",
             f"{name} cfg={spec['cfg']} ops={[str(o) for o in tape.operations]} meas={tape.measurements}", feats, name + ":devres", tape.measurements,
             state_up_to_phase=(name == "default.clifford"))   # a stabilizer tableau fixes the state up to a global phase only
    return Result(nontrivial, labels=labels)


def _dumps(x):
    import json
    return json.dumps(x)


def _msgkey(e):
    if isinstance(e, (KeyError, IndexError)):      # the message is a generated identifier
        return ""
    return "".join(c for c in str(e)[:40] if c.isalpha() or c == " ").strip()[:28]


def _leaf(o):
    if "base" in o:
        return _leaf(o["base"])
    if "operands" in o:
        return _leaf(o["operands"][0])
    return o["op"]


def selftest():
    sim.selftest()
