"""C48 — qp.math functions are interface-agnostic (numpy / autograd / jax / torch) and their gradients agree."""
import math as pymath

import numpy as np
from hypothesis import strategies as st

from pv.cmp import close, maxdiff, to_np
from pv.engine import Reject, Result, Viol

ID = "C48"
TECHNIQUE = ("table of qp.math functions (public __all__ + autoray pass-throughs used by the code base) with seeded argument builders; "
             "differential comparison across numpy/autograd/jax/torch, plain-numpy references, gradient agreement and finite differences")
RULE = (
    "For each table entry (~170: elementwise, binary, reductions, shape manipulation, creation with like=, conversion/casting, "
    "introspection, linear algebra, scatter/gather/indexing, control flow, quantum-information helpers, qp.math.grad/jacobian) a "
    "shape variant (scalars, vectors, matrices up to 4x4, rank-3, broadcasting pairs, axis arguments), a dtype (float64/32, "
    "complex128/64, int64 where meaningful) and a seed give the numpy arguments; they are converted to autograd, jax and torch "
    "tensors and the same qp.math call is made per interface. Oracle: (1) results converted back to numpy agree with the numpy-"
    "interface result (1e-9 for 64 bit, 3e-4 for 32 bit, exact for bool/int/str outputs), after a per-entry canonicalisation where "
    "the output is not unique (eigenvector signs, SVD/QR factors); (2) where a plain numpy/scipy expression of the documented "
    "meaning is available the numpy-interface result must equal it; (3) tensor outputs stay in the interface of their inputs; "
    "(4) for entries tagged differentiable and real float64 inputs, the gradient of sum(real(f(x))) from autograd, jax and torch "
    "agree with each other (1e-8) and with central finite differences of the numpy evaluation (2e-5). Non-trivial: a non-scalar "
    "tensor argument."
)
ASSUMPTIONS = [
    "TensorFlow is not installed and out of scope.",
    "Entries tagged exact-only / no-grad are not differentiable or differentiated at generic points only (inputs are kept away from kinks, ties and branch cuts).",
    "Complex-input gradients are not compared (autograd/jax and torch use different conventions for non-holomorphic functions).",
    "Outputs that are only defined up to a gauge (eigenvectors, singular vectors, QR) are compared through invariants.",
    "Argument data come from numpy's PCG64 with a Hypothesis-drawn seed.",
    "Output-interface preservation is asserted for jax and torch only: autograd functions legitimately return plain numpy arrays outside of a differentiation trace.",
    "When an interface returns a lower precision (e.g. torch builds float32 from Python floats) the 32-bit tolerance applies to that comparison.",
]
BUDGET = {"quick": {"examples": 250}, "thorough": {"examples": 20000, "shards": 16}}
IFACES = ("numpy", "autograd", "jax", "torch")

SHAPES = [(3,), (2, 3), (4, 4), (2, 2, 2), (), (1,), (3, 1), (4,)]
MATS = [(2, 2), (3, 3), (4, 4), (2, 2), (3, 3), (4, 4), (2, 2), (3, 3)]


class Raw:
    """argument that must not be converted to the interface (indices, shapes, ...)"""

    def __init__(self, v):
        self.v = v


def rnd(rng, shape, dt, kind="normal"):
    if dt.startswith("int"):
        x = rng.integers(-3, 4, size=shape)
        if kind in ("pos", "away0"):
            x = np.abs(x) + 1
        return np.asarray(x).astype(dt)
    if dt == "bool":
        return np.asarray(rng.integers(0, 2, size=shape)).astype(bool)
    x = rng.normal(size=shape)
    if kind == "pos":
        x = np.abs(x) + 0.2
    elif kind == "unit":
        x = rng.uniform(-0.9, 0.9, size=shape)
    elif kind == "away0":
        x = np.where(x >= 0, 1.0, -1.0) * (np.abs(x) + 0.2)
    elif kind == "distinct":
        x = rng.permutation(int(np.prod(shape, dtype=int)) or 1)[: int(np.prod(shape, dtype=int)) or 1].reshape(shape) * 0.37 + rng.uniform(0, 0.1)
    if dt.startswith("complex"):
        y = rng.normal(size=shape)
        if kind == "pos":
            y = y * 0.3
        x = x + 1j * y
    return np.asarray(x).astype(dt)


def herm(rng, n, dt, psd=False, batch=None):
    shp = (n, n) if batch is None else (batch, n, n)
    A = rnd(rng, shp, dt)
    H = (A + np.conj(np.swapaxes(A, -1, -2))) / 2
    if psd:
        H = A @ np.conj(np.swapaxes(A, -1, -2)) / n + 0.1 * np.eye(n)
    return H.astype(dt)


def unit_vec(rng, n, dt):
    v = rnd(rng, (n,), dt)
    return (v / np.linalg.norm(v)).astype(dt)


def dm(rng, nq, dt, rank=None):
    d = 2 ** nq
    G = rnd(rng, (d, rank or d), dt)
    R = G @ G.conj().T
    return (R / np.trace(R)).astype(dt)


# ------------------------------------------------------------------------------------------------ table
# entry: dict(build=fn(rng, v, dt)->args list, call=fn(m, *args), dt="fc"/"f"/"i"/"b", grad=bool, ref=fn(*np_args)|None,
#             canon=fn(result)->comparable, tensor_out=bool, tol=float multiplier)
T = {}


def reg(name, build, call=None, dt="f", grad=False, ref=None, canon=None, tensor_out=True, ifaces=IFACES, tol=1.0):
    T[name] = dict(build=build, call=call or (lambda m, *a, _n=name: _resolve(m, _n)(*[x.v if isinstance(x, Raw) else x for x in a])), dt=dt, grad=grad, ref=ref, canon=canon,
                   tensor_out=tensor_out, ifaces=ifaces, tol=tol)


def _resolve(m, name):
    f = m
    for part in name.split("."):
        f = getattr(f, part)
    return f


def _np_ref(name):
    f = _resolve(np, name)
    return lambda *a: f(*[x.v if isinstance(x, Raw) else x for x in a])


# elementwise unary
for _n, _kind, _dt, _g in [("sin", "normal", "fc", True), ("cos", "normal", "fc", True), ("exp", "normal", "fc", True),
                           ("tanh", "normal", "fc", True), ("sinh", "normal", "f", True), ("cosh", "normal", "f", True),
                           ("tan", "unit", "f", True), ("arctan", "normal", "f", True), ("sqrt", "pos", "fc", True),
                           ("log", "pos", "fc", True), ("log2", "pos", "f", True), ("abs", "away0", "fc", True),
                           ("conj", "normal", "fc", True), ("real", "normal", "fc", True), ("imag", "normal", "fc", False),
                           ("angle", "away0", "c", False), ("sign", "away0", "f", False), ("floor", "normal", "f", False),
                           ("ceil", "normal", "f", False), ("arcsin", "unit", "f", True), ("arccos", "unit", "f", True),
                           ("sinc", "away0", "f", False), ("isnan", "normal", "f", False), ("zeros_like", "normal", "fci", False),
                           ("ones_like", "normal", "fci", False), ("square", "normal", "f", True)]:
    reg(_n, (lambda rng, v, dt, _k=_kind: [rnd(rng, SHAPES[v], dt, _k)]), dt=_dt, grad=_g, ref=_np_ref(_n))
reg("conjugate", lambda rng, v, dt: [rnd(rng, SHAPES[v], dt)], dt="c", ref=np.conjugate)
reg("logical_not", lambda rng, v, dt: [rnd(rng, SHAPES[v], "bool")], dt="b", ref=np.logical_not)
reg("round", lambda rng, v, dt: [rnd(rng, SHAPES[v], dt) * 3.3] + ([Raw(2)] if v % 2 else []), dt="f",
    ref=lambda x, d=Raw(0): np.round(x, d.v))

# elementwise binary (with broadcasting variants)
PAIRS = [((3,), (3,)), ((2, 3), (2, 3)), ((2, 3), (3,)), ((4, 4), (4, 1)), ((), (3,)), ((2, 2, 2), (2,)), ((3, 1), (1, 3)), ((4,), ())]
for _n, _k2, _dt, _g in [("add", "normal", "fc", True), ("multiply", "normal", "fc", True), ("subtract", "normal", "fc", True),
                         ("divide", "away0", "fc", True), ("maximum", "normal", "f", False), ("minimum", "normal", "f", False),
                         ("arctan2", "away0", "f", True), ("mod", "pos", "f", False), ("isclose", "normal", "f", False),
                         ("equal", "normal", "i", False)]:
    reg(_n, (lambda rng, v, dt, _k=_k2: [rnd(rng, PAIRS[v][0], dt), rnd(rng, PAIRS[v][1], dt, _k)]), dt=_dt, grad=_g, ref=_np_ref(_n))
reg("power", lambda rng, v, dt: [rnd(rng, PAIRS[v][0], dt, "pos"), rnd(rng, PAIRS[v][1], dt, "unit")], dt="f", grad=True, ref=np.power)
for _n in ("logical_and", "logical_or", "logical_xor"):
    reg(_n, lambda rng, v, dt: [rnd(rng, PAIRS[v][0], "bool"), rnd(rng, PAIRS[v][1], "bool")], dt="b", ref=_np_ref(_n))
reg("bitwise_xor", lambda rng, v, dt: [np.abs(rnd(rng, PAIRS[v][0], "int64")), np.abs(rnd(rng, PAIRS[v][1], "int64"))], dt="i", ref=np.bitwise_xor)
reg("clip", lambda rng, v, dt: [rnd(rng, SHAPES[v], dt), Raw(-0.5), Raw(0.7)], dt="f", ref=lambda x, a, b: np.clip(x, a.v, b.v))
reg("where", lambda rng, v, dt: [rnd(rng, PAIRS[v][0], "bool"), rnd(rng, PAIRS[v][0], dt), rnd(rng, PAIRS[v][1], dt)], dt="fc", ref=np.where)
reg("where1", lambda rng, v, dt: [rnd(rng, SHAPES[v] or (2,), "bool")], call=lambda m, c: m.where(c), dt="b",
    canon=lambda r: tuple(_tonp(x) for x in r), tensor_out=False)

# reductions
RED = [((3,), None), ((2, 3), None), ((2, 3), 0), ((2, 3), 1), ((4, 4), -1), ((2, 2, 2), 1), ((2, 2, 2), (0, 2)), ((4,), 0)]


def _red_build(kind="normal", forced_dt=None, tuple_axis=True):
    def b(rng, v, dt):
        shape, ax = RED[v]
        if isinstance(ax, tuple) and not tuple_axis:
            ax = ax[-1]
        x = rnd(rng, shape, forced_dt or dt, kind)
        return [x] + ([] if ax is None else [Raw(ax)])
    return b


def _red_call(name):
    return lambda m, x, ax=None: _resolve(m, name)(x) if ax is None else _resolve(m, name)(x, axis=ax.v)


def _red_ref(name):
    return lambda x, ax=None: _resolve(np, name)(x) if ax is None else _resolve(np, name)(x, axis=ax.v)


for _n, _k, _dt, _g in [("sum", "normal", "fci", True), ("prod", "normal", "f", True), ("mean", "normal", "fc", True),
                        ("max", "distinct", "f", False), ("min", "distinct", "f", False), ("count_nonzero", "normal", "i", False)]:
    reg(_n, _red_build(_k, tuple_axis=_n in ("sum", "mean", "max", "min")), call=_red_call(_n), dt=_dt, grad=_g, ref=_red_ref(_n))
for _n in ("any", "all"):
    reg(_n, _red_build(forced_dt="bool", tuple_axis=False), call=_red_call(_n), dt="b", ref=_red_ref(_n))
for _n in ("argsort", "sort", "cumsum"):
    reg(_n, (lambda rng, v, dt, _nn=_n: [rnd(rng, RED[v][0], dt, "distinct" if _nn != "cumsum" else "normal"),
                                          Raw(-1 if RED[v][1] is None or isinstance(RED[v][1], tuple) else RED[v][1])]),
        call=lambda m, x, ax, _nn=_n: _resolve(m, _nn)(x) if ax.v == -1 and _nn != "cumsum" else _resolve(m, _nn)(x, axis=ax.v), dt="f",
        ref=lambda x, ax, _nn=_n: _resolve(np, _nn)(x, axis=ax.v))
reg("trace", lambda rng, v, dt: [rnd(rng, MATS[v], dt)], dt="fc", grad=True, ref=np.trace)
reg("linalg.norm", lambda rng, v, dt: [rnd(rng, [(3,), (2, 3), (4, 4), (4,)][v % 4], dt)] + ([] if v < 4 else [Raw(-1)]),
    call=lambda m, x, ax=None: m.linalg.norm(x) if ax is None else m.linalg.norm(x, axis=ax.v), dt="fc", grad=True,
    ref=lambda x, ax=None: np.linalg.norm(x) if ax is None else np.linalg.norm(x, axis=ax.v))
reg("norm", lambda rng, v, dt: [rnd(rng, [(3,), (2, 3), (4, 4), (4,)][v % 4], dt)] + ([] if v < 4 else [Raw(-1)]),
    call=lambda m, x, ax=None: m.norm(x) if ax is None else m.norm(x, axis=ax.v), dt="fc", grad=True,
    ref=lambda x, ax=None: np.linalg.norm(x) if ax is None else np.linalg.norm(x, axis=ax.v))

# shape manipulation
RESH = [((2, 3), (3, 2)), ((2, 3), (6,)), ((4, 4), (2, 8)), ((2, 2, 2), (4, 2)), ((6,), (2, 3)), ((2, 3), (-1,)), ((4,), (2, 2)), ((2, 2, 2), (-1, 4))]
reg("reshape", lambda rng, v, dt: [rnd(rng, RESH[v][0], dt), Raw(RESH[v][1])], dt="fci", grad=True, ref=lambda x, s: np.reshape(x, s.v))
TRS = [((2, 3), None), ((2, 3), (1, 0)), ((2, 3, 4), (2, 0, 1)), ((2, 2, 2), None), ((4, 4), (0, 1)), ((2, 3, 4), (0, 2, 1)), ((3,), None), ((2, 3, 2), (1, 2, 0))]
reg("transpose", lambda rng, v, dt: [rnd(rng, TRS[v][0], dt)] + ([] if TRS[v][1] is None else [Raw(TRS[v][1])]),
    call=lambda m, x, ax=None: m.transpose(x) if ax is None else m.transpose(x, ax.v) if len(ax.v) % 2 else m.transpose(x, axes=ax.v),
    dt="fci", grad=True, ref=lambda x, ax=None: np.transpose(x, None if ax is None else ax.v))
reg("T", lambda rng, v, dt: [rnd(rng, MATS[v], dt)], call=lambda m, x: m.T(x), dt="fc", ref=lambda x: x.T)
reg("squeeze", lambda rng, v, dt: [rnd(rng, [(1, 3), (3, 1), (1, 2, 1), (2, 1, 2)][v % 4], dt)] + ([] if v < 4 else [Raw([0, 1, 0, 1][v % 4])]),
    call=lambda m, x, ax=None: m.squeeze(x) if ax is None else m.squeeze(x, axis=ax.v), dt="fci",
    ref=lambda x, ax=None: np.squeeze(x) if ax is None else np.squeeze(x, axis=ax.v))
reg("expand_dims", lambda rng, v, dt: [rnd(rng, SHAPES[v], dt), Raw([0, -1, 1, 0, 0, 1, -1, 0][v])],
    call=lambda m, x, ax: m.expand_dims(x, ax.v) if ax.v != 1 else m.expand_dims(x, axis=ax.v), dt="fci", ref=lambda x, ax: np.expand_dims(x, ax.v))
reg("moveaxis", lambda rng, v, dt: [rnd(rng, (2, 3, 4), dt), Raw([0, 1, -1, 2][v % 4]), Raw([2, 0, 0, 1][v % 4])], dt="fc",
    ref=lambda x, a, b: np.moveaxis(x, a.v, b.v))
reg("swapaxes", lambda rng, v, dt: [rnd(rng, (2, 3, 4), dt), Raw([0, 1, -1, 2][v % 4]), Raw([2, 0, 0, 1][v % 4])], dt="fc",
    ref=lambda x, a, b: np.swapaxes(x, a.v, b.v))
reg("flatten", lambda rng, v, dt: [rnd(rng, SHAPES[v], dt)], dt="fci", grad=True, ref=lambda x: x.flatten())
reg("ravel", lambda rng, v, dt: [rnd(rng, SHAPES[v], dt)], dt="fc", ref=np.ravel)
reg("roll", lambda rng, v, dt: [rnd(rng, [(4,), (2, 3), (4, 4), (5,)][v % 4], dt), Raw([1, -1, 2, 3][v % 4])] + ([] if v < 4 else [Raw([0, 1, -1, 0][v % 4])]),
    call=lambda m, x, s, ax=None: m.roll(x, s.v) if ax is None else m.roll(x, s.v, ax.v), dt="fc",
    ref=lambda x, s, ax=None: np.roll(x, s.v) if ax is None else np.roll(x, s.v, axis=ax.v))
reg("tile", lambda rng, v, dt: [rnd(rng, [(3,), (2, 2)][v % 2], dt), Raw([(2,), (2, 1), (1, 3), (3,)][v % 4])], dt="fc", ref=lambda x, r: np.tile(x, r.v))
reg("broadcast_to", lambda rng, v, dt: [rnd(rng, [(3,), (1, 3), (2, 1), ()][v % 4], dt), Raw([(2, 3), (4, 3), (2, 5), (2, 2)][v % 4])], dt="fc",
    ref=lambda x, s: np.broadcast_to(x, s.v))
reg("atleast_1d", lambda rng, v, dt: [rnd(rng, SHAPES[v], dt)], dt="fc", ref=np.atleast_1d)
LISTS = [[(3,), (3,)], [(2, 3), (2, 3), (2, 3)], [(), ()], [(2, 2), (2, 2)], [(3,), (3,), (3,)], [(1,), (1,)], [(4, 4), (4, 4)], [(2,), (2,)]]
reg("stack", lambda rng, v, dt: [[rnd(rng, s, dt) for s in LISTS[v]]] + ([Raw(-1)] if v % 3 == 0 else []),
    call=lambda m, xs, ax=None: m.stack(xs) if ax is None else m.stack(xs, axis=ax.v), dt="fc", grad=False,
    ref=lambda xs, ax=None: np.stack(xs) if ax is None else np.stack(xs, axis=ax.v))
CATS = [[(3,), (2,)], [(2, 3), (1, 3)], [(2, 3), (2, 3), (2, 3)], [(4,), (4,)], [(2, 2), (2, 2)], [(1,), (5,)], [(3, 2), (3, 2)], [(2, 2, 2), (1, 2, 2)]]
reg("concatenate", lambda rng, v, dt: [[rnd(rng, s, dt) for s in CATS[v]]] + ([Raw(-1)] if v in (2, 4, 6) else []),
    call=lambda m, xs, ax=None: m.concatenate(xs) if ax is None else m.concatenate(xs, axis=ax.v), dt="fc",
    ref=lambda xs, ax=None: np.concatenate(xs) if ax is None else np.concatenate(xs, axis=ax.v))
reg("hstack", lambda rng, v, dt: [[rnd(rng, s, dt) for s in [[(3,), (2,)], [(2, 3), (2, 1)], [(2, 2), (2, 2)], [(1,), (1,)]][v % 4]]], dt="fc", ref=np.hstack)
reg("vstack", lambda rng, v, dt: [[rnd(rng, s, dt) for s in [[(3,), (3,)], [(2, 3), (1, 3)], [(2, 2), (2, 2)], [(1,), (1,)]][v % 4]]], dt="fc", ref=np.vstack)
reg("unstack", lambda rng, v, dt: [rnd(rng, [(3,), (2, 3), (4, 4), (2, 2, 2)][v % 4], dt)], dt="fc", tensor_out=False,
    canon=lambda r: [_tonp(x) for x in r], ref=lambda x: list(x))
_TAKE = [((5,), [0, 2], None), ((3, 4), [1, 0, 1], 0), ((3, 4), [3, 0], 1), ((2, 3, 2), [1], -2),
         # negative indices along leading / non-leading / negative axes of non-square arrays, repeated and 2-d index lists
         ((2, 5), [-1], 1), ((2, 5), [-1, 0, -5], -1), ((4, 2), [-1, -4], 0), ((2, 3, 4), [-1, 1], 2), ((2, 3, 4), [-3], 1),
         ((5, 2), [-2, -1], -1), ((3, 4), [[0, -1], [2, -4]], 1), ((6,), [-6, -1], None), ((2, 3), [-1, -6], None)]
reg("take", lambda rng, v, dt: [rnd(rng, _TAKE[v % len(_TAKE)][0], dt), Raw(_TAKE[v % len(_TAKE)][1])] + ([] if _TAKE[v % len(_TAKE)][2] is None else [Raw(_TAKE[v % len(_TAKE)][2])]),
    call=lambda m, x, i, ax=None: m.take(x, i.v) if ax is None else m.take(x, i.v, axis=ax.v), dt="fc", grad=True,
    ref=lambda x, i, ax=None: np.take(x, i.v) if ax is None else np.take(x, i.v, axis=ax.v))
reg("gather", lambda rng, v, dt: [rnd(rng, [(5,), (3, 4), (4,), (6,)][v % 4], dt), Raw([[0, 2], [1, 0, 1], [3, 0], [1]][v % 4])],
    call=lambda m, x, i: m.gather(x, i.v), dt="fc", ref=lambda x, i: x[np.array(i.v)])
reg("diag", lambda rng, v, dt: [rnd(rng, [(3,), (3, 3), (4,), (2, 2)][v % 4], dt)] + ([] if v < 4 else [Raw([1, -1, 1, 1][v % 4])]),
    call=lambda m, x, k=None: m.diag(x) if k is None else m.diag(x, k=k.v), dt="fc", ref=lambda x, k=None: np.diag(x, 0 if k is None else k.v))
reg("diag_list", lambda rng, v, dt: [[rnd(rng, (), dt) for _ in range(2 + v % 3)]], call=lambda m, xs: m.diag(xs), dt="f", ref=lambda xs: np.diag(np.array(xs)))
reg("diagonal", lambda rng, v, dt: [rnd(rng, MATS[v], dt)] + ([] if v < 4 else [Raw([1, -1, 1, 2][v % 4])]),
    call=lambda m, x, k=None: m.diagonal(x) if k is None else m.diagonal(x, offset=k.v), dt="fc", ref=lambda x, k=None: np.diagonal(x, 0 if k is None else k.v))
reg("outer", lambda rng, v, dt: [rnd(rng, (2 + v % 3,), dt), rnd(rng, (3,), dt)], dt="fc", grad=True, ref=np.outer)
reg("kron", lambda rng, v, dt: [rnd(rng, [(2, 2), (2,), (2, 3), (1, 2)][v % 4], dt), rnd(rng, [(2, 2), (3,), (3, 2), (2, 2)][v % 4], dt)], dt="fc", grad=True, ref=np.kron)
DOTS = [((3,), (3,)), ((2, 3), (3,)), ((2, 3), (3, 4)), ((4, 4), (4, 4)), ((3,), (3, 2)), ((), (3,)), ((2, 2), (2,)), ((4,), (4,))]
reg("dot", lambda rng, v, dt: [rnd(rng, DOTS[v][0], dt), rnd(rng, DOTS[v][1], dt)], dt="fc", grad=True, ref=np.dot)
reg("matmul", lambda rng, v, dt: [rnd(rng, [(2, 3), (4, 4), (2, 2, 3), (3,)][v % 4], dt), rnd(rng, [(3, 2), (4, 4), (2, 3, 2), (3, 2)][v % 4], dt)], dt="fc", grad=True, ref=np.matmul)
TDS = [((2, 3), (3, 4), 1), ((2, 3), (2, 3), 2), ((2, 3), (4,), 0), ((2, 3, 4), (4, 3, 2), [[1, 2], [1, 0]]), ((3,), (3,), 1), ((2, 2), (2, 2), [[0], [1]]),
       ((2, 3, 4), (3, 4), 2), ((2, 2, 2), (2, 2, 2), [[0, 1], [1, 2]])]
reg("tensordot", lambda rng, v, dt: [rnd(rng, TDS[v][0], dt), rnd(rng, TDS[v][1], dt), Raw(TDS[v][2])],
    call=lambda m, a, b, ax: m.tensordot(a, b, axes=ax.v), dt="fc", grad=True, ref=lambda a, b, ax: np.tensordot(a, b, axes=ax.v))
EINS = [("ij,jk->ik", [(2, 3), (3, 2)]), ("ii", [(3, 3)]), ("ij->ji", [(2, 3)]), ("i,i->", [(4,), (4,)]), ("abc,cd->abd", [(2, 2, 2), (2, 3)]),
        ("ij,ij->i", [(2, 3), (2, 3)]), ("...i,...i->...", [(2, 3), (2, 3)]), ("ab,ba", [(2, 2), (2, 2)])]
reg("einsum", lambda rng, v, dt: [Raw(EINS[v][0])] + [rnd(rng, s, dt) for s in EINS[v][1]], call=lambda m, s, *ops: m.einsum(s.v, *ops), dt="fc",
    grad=False, ref=lambda s, *ops: np.einsum(s.v, *ops))
reg("block_diag", lambda rng, v, dt: [[rnd(rng, s, dt) for s in [[(2, 2), (1, 1)], [(2, 2), (2, 2)], [(1, 2), (2, 1)], [(3, 3)]][v % 4]]], dt="fc",
    ref=lambda xs: __import__("scipy.linalg").linalg.block_diag(*xs))

# creation with like=
for _n, _args in [("eye", [(3,), (2,), (4,), (2, 3)]), ("zeros", [((2, 3),), ((4,),), (3,), ((2, 2, 2),)]), ("ones", [((2, 3),), ((4,),), (3,), ((1, 2),)]),
                  ("arange", [(5,), (1, 4), (0, 6, 2), (3,)])]:
    reg(_n, (lambda rng, v, dt, _a=_args: [Raw(_a[v % 4])]), call=lambda m, a, _nn=_n, like=None: getattr(m, _nn)(*a.v, like=like), dt="f",
        ref=lambda a, _nn=_n: getattr(np, _nn)(*a.v))
    T[_n]["creation"] = True
reg("full", lambda rng, v, dt: [Raw([((2, 2), 1.5), ((3,), -2.0), ((1, 2), 0.25), ((2, 3), 7.0)][v % 4])], call=lambda m, a, like=None: m.full(*a.v, like=like), dt="f",
    ref=lambda a: np.full(*a.v))
T["full"]["creation"] = True

# conversion / casting / introspection
reg("cast", lambda rng, v, dt: [rnd(rng, SHAPES[v], dt), Raw(["float32", "complex128", "float64", "complex64", np.float64, np.complex128, "int64", "float32"][v])],
    call=lambda m, x, d: m.cast(x, d.v), dt="f", ref=lambda x, d: x.astype(d.v))
reg("cast_like", lambda rng, v, dt: [rnd(rng, SHAPES[v], "float64"), rnd(rng, (2,), dt)], dt="fc", ref=lambda x, y: x.astype(y.dtype))
reg("convert_like", lambda rng, v, dt: [Raw(rnd(rng, SHAPES[v], dt)), rnd(rng, (2,), "float64")], call=lambda m, x, y: m.convert_like(x.v, y), dt="fc",
    ref=lambda x, y: x.v)
reg("asarray", lambda rng, v, dt: [Raw(rnd(rng, SHAPES[v], dt))], call=lambda m, x, like=None: m.asarray(x.v, like=like), dt="fc", ref=lambda x: x.v)
T["asarray"]["creation"] = True
reg("array", lambda rng, v, dt: [Raw(rnd(rng, SHAPES[v], dt).tolist())], call=lambda m, x, like=None: m.array(x.v, like=like), dt="f", ref=lambda x: np.array(x.v))
T["array"]["creation"] = True
reg("to_numpy", lambda rng, v, dt: [rnd(rng, SHAPES[v], dt)], dt="fc", tensor_out=False, ref=lambda x: x)
reg("unwrap", lambda rng, v, dt: [[rnd(rng, (), dt), rnd(rng, (2,), dt)]], dt="f", tensor_out=False,
    canon=lambda r: [np.asarray(x, dtype=float) for x in r], ref=lambda xs: [np.asarray(x) for x in xs])
reg("detach", lambda rng, v, dt: [rnd(rng, SHAPES[v], dt)], dt="fc", ref=lambda x: x, tensor_out=False)
for _n, _ref in [("shape", lambda x: tuple(np.shape(x))), ("ndim", np.ndim), ("size", np.size)]:
    reg(_n, lambda rng, v, dt: [rnd(rng, SHAPES[v], dt)], dt="fci", tensor_out=False, canon=lambda r: tuple(int(i) for i in r) if isinstance(r, (tuple, list)) or getattr(r, "ndim", 0) else int(r), ref=_ref)
reg("get_dtype_name", lambda rng, v, dt: [rnd(rng, SHAPES[v], dt)], dt="fci", tensor_out=False, canon=str, ref=lambda x: x.dtype.name)
reg("iscomplex", lambda rng, v, dt: [rnd(rng, SHAPES[v], dt)], dt="fc", tensor_out=False, canon=lambda r: bool(np.any(_tonp(r))), ref=lambda x: bool(np.any(np.iscomplex(x))))
reg("is_abstract", lambda rng, v, dt: [rnd(rng, SHAPES[v], dt)], dt="f", tensor_out=False, canon=bool, ref=lambda x: False)
reg("allclose", lambda rng, v, dt: (lambda x: [x, x + (1e-9 if v % 2 else 1e-3)])(rnd(rng, SHAPES[v], dt)), dt="fc", tensor_out=False, canon=bool, ref=lambda a, b: bool(np.allclose(a, b)))
reg("allequal", lambda rng, v, dt: (lambda x: [x, x.copy() if v % 2 else x + 1])(rnd(rng, SHAPES[v] or (2,), dt)), dt="fi", tensor_out=False, canon=bool,
    ref=lambda a, b: bool(np.all(a == b)))
reg("is_real_obj_or_close", lambda rng, v, dt: [rnd(rng, SHAPES[v], dt) if v % 2 else np.real(rnd(rng, SHAPES[v], dt)).astype(dt)], dt="fc", tensor_out=False, canon=bool,
    ref=lambda x: bool(np.allclose(np.imag(x), 0)))
reg("get_batch_size", lambda rng, v, dt: [rnd(rng, [(2, 2), (3, 2, 2), (4,), (5, 4)][v % 4], dt), Raw([(2, 2), (2, 2), (4,), (4,)][v % 4]), Raw([4, 4, 4, 4][v % 4])],
    call=lambda m, x, s, n: m.get_batch_size(x, s.v, n.v), dt="f", tensor_out=False, canon=lambda r: r if r is None else int(r),
    ref=lambda x, s, n: None if x.ndim == len(s.v) else x.size // n.v)

# linear algebra
reg("linalg.eigh", lambda rng, v, dt: [herm(rng, MATS[v][0], dt)], dt="fc", tol=50,
    canon=lambda r: (_tonp(r[0]), (_tonp(r[1]) * _tonp(r[0])) @ np.conj(_tonp(r[1])).T),
    ref=lambda H: np.linalg.eigh(H), tensor_out=False)
reg("eigvalsh", lambda rng, v, dt: [herm(rng, MATS[v][0], dt, batch=2 if v >= 6 else None)], dt="fc", grad=False, tol=50, ref=np.linalg.eigvalsh)
reg("linalg.eigvalsh", lambda rng, v, dt: [herm(rng, MATS[v][0], dt)], dt="fc", tol=50, ref=np.linalg.eigvalsh)
reg("linalg.det", lambda rng, v, dt: [rnd(rng, MATS[v], dt) + 2 * np.eye(MATS[v][0], dtype=dt)], dt="fc", grad=True, tol=20, ref=np.linalg.det)
reg("linalg.inv", lambda rng, v, dt: [rnd(rng, MATS[v], dt) + 3 * np.eye(MATS[v][0], dtype=dt)], dt="fc", grad=True, tol=50, ref=np.linalg.inv)
reg("linalg.pinv", lambda rng, v, dt: [rnd(rng, [(2, 3), (3, 2), (3, 3), (4, 2)][v % 4], dt)], dt="fc", tol=200, ref=np.linalg.pinv)
reg("linalg.matrix_power", lambda rng, v, dt: [rnd(rng, MATS[v], dt), Raw([2, 3, 0, 1][v % 4])], call=lambda m, x, n: m.linalg.matrix_power(x, n.v), dt="fc", tol=20,
    ref=lambda x, n: np.linalg.matrix_power(x, n.v))
reg("linalg.qr", lambda rng, v, dt: [rnd(rng, [(3, 3), (4, 2), (2, 2), (4, 4)][v % 4], dt)], dt="fc", tol=50, tensor_out=False,
    canon=lambda r: (_tonp(r[0]) @ _tonp(r[1]), np.abs(np.diagonal(_tonp(r[1])))), ref=lambda A: np.linalg.qr(A))
reg("linalg.solve", lambda rng, v, dt: [rnd(rng, MATS[v], dt) + 3 * np.eye(MATS[v][0], dtype=dt), rnd(rng, (MATS[v][0], 2), dt)], dt="fc", grad=True, tol=50, ref=np.linalg.solve)
reg("expm", lambda rng, v, dt: [rnd(rng, MATS[v], dt) * 0.5], dt="fc", tol=50, ref=lambda A: __import__("scipy.linalg").linalg.expm(A))
def _svd_canon(r):
    if isinstance(r, (tuple, list)) or hasattr(r, "_fields") or (hasattr(r, "__len__") and not hasattr(r, "shape")):
        U, S, Vh = [_tonp(x) for x in r]
        k = S.shape[-1]
        return (S, (U[..., :, :k] * S[..., None, :]) @ Vh[..., :k, :])
    return (_tonp(r),)


reg("svd", lambda rng, v, dt: [rnd(rng, [(3, 3), (2, 4), (4, 2), (2, 2)][v % 4], dt)] + ([Raw(False)] if v >= 4 else []),
    call=lambda m, x, cu=None: m.svd(x) if cu is None else m.svd(x, compute_uv=False), dt="fc", tol=50, tensor_out=False, canon=_svd_canon,
    ref=lambda x, cu=None: np.linalg.svd(x) if cu is None else np.linalg.svd(x, compute_uv=False))
reg("sqrt_matrix", lambda rng, v, dt: [herm(rng, MATS[v][0], dt, psd=True, batch=2 if v >= 6 else None)], dt="fc", tol=100,
    ref=lambda A: np.stack([__import__("scipy.linalg").linalg.sqrtm(a) for a in A]) if A.ndim == 3 else __import__("scipy.linalg").linalg.sqrtm(A))
reg("frobenius_inner_product", lambda rng, v, dt: [rnd(rng, MATS[v], dt), rnd(rng, MATS[v], dt)] + ([Raw(True)] if v % 2 else []),
    call=lambda m, a, b, n=None: m.frobenius_inner_product(a, b) if n is None else m.frobenius_inner_product(a, b, normalize=True), dt="f", grad=True,
    ref=lambda a, b, n=None: np.sum(a * b) / (1 if n is None else np.sqrt(np.sum(a * a) * np.sum(b * b))))
reg("gammainc", lambda rng, v, dt: [Raw([0.5, 1.5, 2.0, 3.5][v % 4]), rnd(rng, SHAPES[v], dt, "pos")], call=lambda m, a, t: m.gammainc(a.v, t), dt="f", tensor_out=False,
    ifaces=("numpy", "autograd", "jax"), ref=lambda a, t: __import__("scipy.special").special.gammainc(a.v, t))
reg("entr", lambda rng, v, dt: [(lambda p: p / p.sum(-1, keepdims=True))(rnd(rng, [(3,), (2, 4), (4,), (2, 2)][v % 4], dt, "pos"))], dt="f", grad=True,
    ifaces=("numpy", "autograd", "jax", "torch"), ref=lambda p: -np.sum(p * np.log(p), axis=-1))

# scatter / indexing / control flow
reg("scatter", lambda rng, v, dt: [Raw(np.array([[4, 3, 1, 7], [0, 2], [1], [5, 0, 2]][v % 4])), rnd(rng, ([4, 2, 1, 3][v % 4],), dt), Raw([8, 4, 3, 6][v % 4])],
    call=lambda m, i, a, n: m.scatter(i.v, a, n.v), dt="fc", ref=lambda i, a, n: (lambda z: (z.__setitem__(i.v, a), z)[1])(np.zeros(n.v, dtype=a.dtype)))
reg("scatter_element_add", lambda rng, v, dt: [rnd(rng, (2, 3), dt), Raw([(1, 2), [(1, 0), (2, 1)], (0, 0), [(0, 1, 1), (0, 1, 2)]][v % 4]),
                                                rnd(rng, [(), (2,), (), (3,)][v % 4], dt)],
    call=lambda m, t, i, val: m.scatter_element_add(t, i.v, val), dt="f", grad=True,
    ref=lambda t, i, val: (lambda z: (np.add.at(z, tuple(i.v), val), z)[1])(t.copy()))
reg("set_index", lambda rng, v, dt: [rnd(rng, [(4,), (2, 3), (3,), (2, 2)][v % 4], dt), Raw([1, (1, 2), -1, (0, 0)][v % 4]), Raw(2.5)],
    call=lambda m, a, i, val: m.set_index(a, i.v, val.v), dt="f", ref=lambda a, i, val: (lambda z: (z.__setitem__(i.v, val.v), z)[1])(a.copy()))
reg("cond", lambda rng, v, dt: [rnd(rng, (3,), dt), Raw(v % 2 == 0)],
    call=lambda m, x, p: m.cond(p.v, lambda y: m.sin(y) * 2, lambda y: m.cos(y) - 1, (x,)), dt="f", ref=lambda x, p: np.sin(x) * 2 if p.v else np.cos(x) - 1)

# quantum-information helpers (small systems; the definitions themselves are property C49)
reg("dm_from_state_vector", lambda rng, v, dt: [unit_vec(rng, [2, 4, 8, 4][v % 4], dt)], dt="c", ref=lambda s: np.outer(s, s.conj()))
reg("reduce_statevector", lambda rng, v, dt: [unit_vec(rng, 4, dt), Raw([[0], [1], [1, 0], [0, 1]][v % 4])], call=lambda m, s, i: m.reduce_statevector(s, i.v), dt="c")
reg("reduce_dm", lambda rng, v, dt: [dm(rng, 2, dt), Raw([[0], [1], [1, 0], [0, 1]][v % 4])], call=lambda m, s, i: m.reduce_dm(s, i.v), dt="c")
reg("partial_trace", lambda rng, v, dt: [rnd(rng, [(4, 4), (2, 4, 4), (8, 8), (4, 4)][v % 4], dt), Raw([[0], [1], [0, 2], [0, 1]][v % 4])],
    call=lambda m, s, i: m.partial_trace(s, i.v), dt="c")
reg("purity", lambda rng, v, dt: [dm(rng, 2, dt), Raw([[0], [1], [1, 0], [0, 1]][v % 4])], call=lambda m, s, i: m.purity(s, i.v), dt="c", tensor_out=False)
reg("vn_entropy", lambda rng, v, dt: [dm(rng, 2, dt), Raw([[0], [1], [1, 0], [0, 1]][v % 4])] + ([Raw(2)] if v >= 4 else []),
    call=lambda m, s, i, b=None: m.vn_entropy(s, i.v, base=None if b is None else b.v), dt="c", tensor_out=False, tol=20)
reg("mutual_info", lambda rng, v, dt: [dm(rng, 2, dt), Raw([[0], [1]][v % 2]), Raw([[1], [0]][v % 2])], call=lambda m, s, a, b: m.mutual_info(s, a.v, b.v), dt="c", tensor_out=False, tol=20)
reg("vn_entanglement_entropy", lambda rng, v, dt: [(lambda s: np.outer(s, s.conj()))(unit_vec(rng, 4, dt)), Raw([0]), Raw([1])],
    call=lambda m, s, a, b: m.vn_entanglement_entropy(s, a.v, b.v), dt="c", tensor_out=False, tol=20)
reg("min_entropy", lambda rng, v, dt: [dm(rng, 2, dt), Raw([[0], [1], [1, 0], [0, 1]][v % 4])], call=lambda m, s, i: m.min_entropy(s, i.v), dt="c", tensor_out=False, tol=20)
reg("max_entropy", lambda rng, v, dt: [dm(rng, 2, dt), Raw([[0], [1], [1, 0], [0, 1]][v % 4])], call=lambda m, s, i: m.max_entropy(s, i.v), dt="c", tensor_out=False, tol=20)
reg("fidelity", lambda rng, v, dt: [dm(rng, 1 + v % 2, dt), dm(rng, 1 + v % 2, dt)], dt="c", tensor_out=False, tol=1e4)
reg("fidelity_statevector", lambda rng, v, dt: [unit_vec(rng, 4, dt), unit_vec(rng, 4, dt)], dt="c", tensor_out=False,
    ref=lambda a, b: abs(np.vdot(a, b)) ** 2)
reg("trace_distance", lambda rng, v, dt: [dm(rng, 1 + v % 2, dt), dm(rng, 1 + v % 2, dt)], dt="c", tensor_out=False, tol=20)
reg("relative_entropy", lambda rng, v, dt: [dm(rng, 1 + v % 2, dt), dm(rng, 1 + v % 2, dt)], dt="c", tensor_out=False, tol=100)
reg("expectation_value", lambda rng, v, dt: [herm(rng, 4, dt), unit_vec(rng, 4, dt)], dt="c", tensor_out=False, ref=lambda A, s: np.vdot(s, A @ s))
reg("expand_matrix", lambda rng, v, dt: [rnd(rng, [(2, 2), (4, 4), (2, 2), (3, 2, 2)][v % 4], dt), Raw([[0], [0, 2], ["b"], [1]][v % 4]), Raw([[1, 0], [2, 1, 0], ["a", "b", "c"], [0, 1]][v % 4])],
    call=lambda m, M, w, o: m.expand_matrix(M, w.v, wire_order=o.v), dt="fc")
reg("expand_vector", lambda rng, v, dt: [rnd(rng, [(2,), (4,), (2,), (4,)][v % 4], dt), Raw([[0], [0, 2], [1], [2, 0]][v % 4]), Raw([[0, 1], [0, 1, 2], [0, 1, 2], [0, 1, 2]][v % 4])],
    call=lambda m, x, a, b: m.expand_vector(x, a.v, b.v), dt="fc")
reg("marginal_prob", lambda rng, v, dt: [(lambda p: p / p.sum())(rnd(rng, (8,), dt, "pos")), Raw([[0], [1, 2], [2, 0], [0, 1, 2]][v % 4])],
    call=lambda m, p, ax: m.marginal_prob(p, ax.v), dt="f", grad=True,
    ref=lambda p, ax: p if len(ax.v) == 3 else p.reshape(2, 2, 2).sum(axis=tuple(i for i in range(3) if i not in ax.v)).flatten())
reg("convert_to_su2", lambda rng, v, dt: [(lambda A: np.linalg.qr(A)[0].astype(dt))(rnd(rng, (2, 2), dt))], dt="c", tol=20, tensor_out=False,
    ref=lambda U: (U * np.exp(-1j * np.angle(np.linalg.det(U)) / 2), np.angle(np.linalg.det(U)) / 2))
reg("choi_matrix", lambda rng, v, dt: [[(lambda A: (np.linalg.qr(A)[0] * np.sqrt(0.5)).astype(dt))(rnd(rng, (2, 2), dt)) for _ in range(2)]], dt="c", tol=20)
reg("cov_matrix", lambda rng, v, dt: [(lambda p: p / p.sum())(rnd(rng, (8,), dt, "pos")), Raw(v % 2 == 1)],
    call=lambda m, p, d: m.cov_matrix(p, _cov_obs(), diag_approx=d.v), dt="f", grad=True)

# gradients through the quantum-information functions (custom VJPs are registered per interface for fidelity)
def _rho(m, x, n=2):
    """full-rank n x n density matrix built differentiably from 2n real parameters"""
    v = x[:n] + 1j * x[n:]
    v = v / m.sqrt(m.sum(m.abs(v) ** 2))
    rho = m.outer(v, m.conj(v))
    eye = m.cast_like(m.convert_like(np.eye(n) * (0.2 / n), rho), rho)
    return 0.8 * rho + eye


def _qi_build(n):
    return lambda rng, v, dt: [rnd(rng, (2 * n,), dt, "away0"), Raw(dm(rng, 1 if n == 2 else 2, "complex128"))]


for _n, _f in [("fidelity", lambda m, r, s: m.fidelity(r, s)), ("fidelity_rev", lambda m, r, s: m.fidelity(m.cast_like(m.convert_like(s, r), r), r)),
               ("trace_distance", lambda m, r, s: m.trace_distance(r, s)), ("relative_entropy", lambda m, r, s: m.relative_entropy(r, s)),
               ("vn_entropy", lambda m, r, s: m.vn_entropy(r, [0])), ("purity", lambda m, r, s: m.purity(r, [0])),
               ("mutual_info", lambda m, r, s: m.mutual_info(r, [0], [1]))]:
    _nq = 4 if _n in ("vn_entropy", "purity", "mutual_info") else 2
    reg(_n + ".param", _qi_build(_nq), call=lambda m, x, s, _ff=_f, _k=_nq: _ff(m, _rho(m, x, _k), s.v), dt="f", grad=True, tensor_out=False, tol=100)

# grad / jacobian front ends
reg("grad", lambda rng, v, dt: [rnd(rng, [(3,), (2, 2), (), (4,)][v % 4], dt)], call=lambda m, x: m.grad(lambda y: m.sum(m.sin(y) * y ** 2))(x), dt="f",
    ifaces=("autograd", "jax", "torch"), ref=lambda x: np.cos(x) * x ** 2 + 2 * x * np.sin(x))
reg("jacobian", lambda rng, v, dt: [rnd(rng, [(3,), (2,), (4,), (1,)][v % 4], dt)], call=lambda m, x: m.jacobian(lambda y: m.sin(y) * y[0])(x), dt="f",
    ifaces=("autograd", "jax", "torch"), ref=lambda x: np.diag(np.cos(x) * x[0]) + np.outer(np.sin(x), np.eye(len(x))[0]))


def _cov_obs():
    import pennylane as qp
    return [qp.Z(0) @ qp.Z(1), qp.Z(2)]


# entries with a PennyLane-specific autograd registration (or used inside differentiated code): forward value is also taken inside a trace
TRACE = {"take", "gather", "block_diag", "eigvalsh", "diagonal", "flatten", "scatter_element_add", "entr", "diag", "diag_list", "stack", "concatenate",
         "where", "einsum", "hstack", "vstack", "transpose", "squeeze", "expand_dims", "moveaxis", "cast", "cast_like", "expand_matrix", "expand_vector",
         "reduce_dm", "reduce_statevector", "partial_trace", "dm_from_state_vector", "purity", "vn_entropy", "mutual_info", "fidelity_statevector",
         "trace_distance", "expectation_value", "sqrt_matrix", "unstack", "ndim", "shape"}

DT = {"f": ["float64", "float64", "float32"], "c": ["complex128", "complex128", "complex64"], "i": ["int64"], "b": ["bool"]}


def strategy(tier):
    names = sorted(T)

    def one(name):
        dts = [d for k in T[name]["dt"] for d in DT[k]]
        return st.fixed_dictionaries({"fn": st.just(name), "v": st.integers(0, len(_TAKE) - 1 if name == "take" else 7), "dt": st.sampled_from(dts), "seed": st.integers(0, 2 ** 31)})
    return st.sampled_from(names).flatmap(one)


def enumerate_cases(tier):
    """every table entry with two variants in its first dtype (so that no entry is missed by sampling)"""
    for name in sorted(T):
        for v in (1, 6):
            yield {"fn": name, "v": v, "dt": DT[T[name]["dt"][0]][0], "seed": 1 + v}
    for v in range(len(_TAKE)):     # index / axis conventions of take: every listed combination
        yield {"fn": "take", "v": v, "dt": DT[T["take"]["dt"][0]][0], "seed": 3 + v}


# ------------------------------------------------------------------------------------------------ machinery

def _conv(a, iface):
    if isinstance(a, Raw):
        return a
    if isinstance(a, list):
        return [_conv(x, iface) for x in a]
    if iface == "numpy":
        return a
    if iface == "autograd":
        from pennylane import numpy as pnp
        return pnp.array(a, requires_grad=np.asarray(a).dtype.kind in "fc")
    if iface == "jax":
        import jax.numpy as jnp
        return jnp.asarray(a)
    import torch
    t = torch.as_tensor(np.array(a))
    if iface == "torch+grad" and t.dtype.is_floating_point:
        t.requires_grad_(True)
    return t


def _tonp(x):
    if hasattr(x, "resolve_conj"):
        x = x.resolve_conj()
    return np.asarray(to_np(x))


def _npify(r):
    if r is None or isinstance(r, (bool, int, float, complex, str)):
        return r
    if isinstance(r, (tuple, list)) or (hasattr(r, "_fields")):
        return tuple(_npify(x) for x in r)
    return _tonp(r)


def _flat(r):
    if isinstance(r, tuple):
        for x in r:
            yield from _flat(x)
    elif isinstance(r, list):
        for x in r:
            yield from _flat(x)
    else:
        yield r


def _is32(x):
    return x.dtype in (np.float32, np.complex64, np.float16)


def _same(a, b, tol):
    fa, fb = list(_flat(a)), list(_flat(b))
    if len(fa) != len(fb):
        return f"structure: {len(fa)} vs {len(fb)} leaves"
    for x, y in zip(fa, fb):
        if x is None or y is None or isinstance(x, str) or isinstance(y, str):
            if x != y:
                return f"{x!r} vs {y!r}"
            continue
        x, y = np.asarray(x), np.asarray(y)
        if x.shape != y.shape:
            return f"shape {x.shape} vs {y.shape}"
        if x.dtype == bool or y.dtype == bool or (x.dtype.kind in "iu" and y.dtype.kind in "iu"):
            if not np.array_equal(x.astype(np.int64), y.astype(np.int64)):
                return f"values {x.tolist()} vs {y.tolist()}"
        elif not close(x.astype(complex), y.astype(complex), max(tol, 3e-4 * (tol / 1e-9 if tol < 1e-6 else 1) if _is32(x) or _is32(y) else tol)):
            return f"maxdiff {maxdiff(x.astype(complex), y.astype(complex))}"
    return None


def _grad_of(e, args, iface):
    """d/dx sum(real(f(x, rest))) for the first array argument"""
    import pennylane as qp
    m = qp.math
    idx = next(i for i, a in enumerate(args) if isinstance(a, np.ndarray))
    x0 = args[idx]

    def g(x, conv_rest):
        a = list(conv_rest)
        a[idx] = x
        return m.sum(m.real(e["call"](m, *a)))

    rest = [_conv(a, iface) for a in args]
    if iface == "autograd":
        from pennylane import numpy as pnp
        return np.asarray(qp.grad(lambda x: g(x, rest))(pnp.array(x0, requires_grad=True)))
    if iface == "jax":
        import jax
        import jax.numpy as jnp
        return np.asarray(jax.grad(lambda x: g(x, rest))(jnp.asarray(x0)))
    import torch
    x = torch.tensor(x0, requires_grad=True)
    y = g(x, rest)
    y.backward()
    return x.grad.detach().numpy()


def _fd(e, args):
    import pennylane as qp
    m = qp.math
    idx = next(i for i, a in enumerate(args) if isinstance(a, np.ndarray))
    x0 = args[idx].astype(float)
    out = np.zeros_like(x0)
    h = 1e-6

    def f(x):
        a = list(args)
        a[idx] = x
        return float(np.sum(np.real(np.asarray(to_np(e["call"](m, *a))))))

    it = np.nditer(x0, flags=["multi_index"])
    for _ in it:
        i = it.multi_index
        xp, xm = x0.copy(), x0.copy()
        xp[i] += h
        xm[i] -= h
        out[i] = (f(xp) - f(xm)) / (2 * h)
    return out


def check(spec):
    import pennylane as qp

    name, v, dt = spec["fn"], spec["v"], spec["dt"]
    e = T[name]
    rng = np.random.default_rng(spec["seed"])
    args = e["build"](rng, v, dt)
    bits32 = dt in ("float32", "complex64")
    tol = (3e-4 if bits32 else 1e-9) * e["tol"]
    m = qp.math
    canon = e["canon"] or (lambda r: r)
    results, errors = {}, {}
    feats = {"fn": name, "dtype": dt}
    base_if = e["ifaces"][0]
    for iface in e["ifaces"]:
        a = [_conv(x, "torch+grad" if iface == "torch" and name in ("grad", "jacobian") else iface) for x in args]
        try:
            r = e["call"](m, *a, like=iface) if e.get("creation") else e["call"](m, *a)
        except Exception as ex:  # noqa: BLE001
            if iface == base_if:
                raise
            errors[iface] = ex
            continue
        if (e["tensor_out"] or e.get("creation")) and iface in ("jax", "torch") and qp.math.get_interface(r) != iface:
            errors[iface] = ("interface", qp.math.get_interface(r), type(r).__name__)
            continue
        if iface == base_if:
            results_raw_base = r
        results[iface] = canon(_npify(r)) if e["canon"] is None else canon(r)
    base = results[base_if]
    for iface in e["ifaces"][1:]:
        f2 = dict(feats, iface=iface)
        if iface in errors:
            ex = errors[iface]
            if isinstance(ex, tuple):
                raise Viol("interface", f"{name}: {iface} input gave a result of interface {ex[1]} ({ex[2]})", sig=f"{name}:{iface}:interface", features=f2)
            # the same call worked for the first interface: raising here is an interface disagreement
            raise Viol("interface-error", f"{name}(v={v}, {dt}) works for {base_if} but raises for {iface}: {type(ex).__name__}: {str(ex)[:200]}",
                       sig=f"{name}:{iface}:error", features=dict(f2, exc=type(ex).__name__))
        why = _same(results[iface], base, tol)
        if why:
            raise Viol("interfaces-disagree", f"{name}(v={v}, {dt}): {iface} vs {base_if}: {why}", sig=f"{name}:{iface}", features=f2)
    # forward value inside an autograd trace: ArrayBox arguments dispatch to the functions registered for "autograd"
    # (plain pennylane.numpy tensors are served by pennylane.numpy itself)
    path = None
    for i, x in enumerate(args):
        if isinstance(x, np.ndarray):
            path = (i,)
            break
        if isinstance(x, list) and x and isinstance(x[0], np.ndarray):
            path = (i, 0)
            break
    x0 = None if path is None else (args[path[0]] if len(path) == 1 else args[path[0]][path[1]])
    if "autograd" in e["ifaces"] and (e["grad"] or name in TRACE) and x0 is not None and x0.dtype.kind in "fc" \
            and isinstance(_npify(results_raw_base), np.ndarray):
        from autograd.core import make_vjp
        from pennylane import numpy as pnp

        def traced(x):
            a = [_conv(y, "autograd") for y in args]
            if len(path) == 1:
                a[path[0]] = x
            else:
                a[path[0]] = [x] + list(a[path[0]][1:])
            return e["call"](m, *a)
        try:
            _, val = make_vjp(traced, pnp.array(x0, requires_grad=True))
        except Exception as ex:  # noqa: BLE001
            raise Viol("gradient-error", f"{name}(v={v}, {dt}) works for {base_if} but raises inside an autograd trace: {type(ex).__name__}: {str(ex)[:200]}",
                       sig=f"{name}:grad:autograd:error", features=dict(feats, iface="autograd", exc=type(ex).__name__)) from None
        why = _same(canon(_npify(val)) if e["canon"] is None else canon(val), base, tol)
        if why:
            raise Viol("interfaces-disagree", f"{name}(v={v}, {dt}): value inside an autograd trace vs {base_if}: {why}", sig=f"{name}:autograd-trace",
                       features=dict(feats, iface="autograd-trace"))
    if e["ref"] is not None:
        ref = e["ref"](*args)
        ref = canon(_npify(ref)) if e["canon"] is None else canon(ref)
        why = _same(base, ref, tol)
        if why:
            raise Viol("reference", f"{name}(v={v}, {dt}): {base_if} result vs plain numpy: {why}", sig=f"{name}:reference", features=feats)
    labels = [name, f"dtype:{dt}"]
    if e["grad"] and dt == "float64":
        grads = {}
        for i in ("autograd", "jax", "torch"):
            if i in e["ifaces"]:
                try:
                    grads[i] = _grad_of(e, args, i)
                except Exception as ex:  # noqa: BLE001
                    raise Viol("gradient-error", f"{name}(v={v}): differentiating with {i} raises {type(ex).__name__}: {str(ex)[:200]}",
                               sig=f"{name}:grad:{i}:error", features=dict(feats, iface=i, exc=type(ex).__name__)) from None
        fd = _fd(e, args)
        for i, g in grads.items():
            if g.shape != fd.shape or not close(g, fd, 2e-5):
                raise Viol("gradient-fd", f"{name}(v={v}): {i} gradient vs finite differences: {maxdiff(g, fd)}", sig=f"{name}:grad:{i}",
                           features=dict(feats, iface=i))
        keys = list(grads)
        for i in keys[1:]:
            if not close(grads[i], grads[keys[0]], 1e-8):
                raise Viol("gradients-disagree", f"{name}(v={v}): {i} vs {keys[0]}: {maxdiff(grads[i], grads[keys[0]])}", sig=f"{name}:grad:{i}",
                           features=dict(feats, iface=i))
        labels.append("gradient")
    nontrivial = any(isinstance(x, np.ndarray) and x.ndim >= 1 and x.size >= 2 for x in _flat([a.v if isinstance(a, Raw) else a for a in args]))
    return Result(nontrivial or bool(e.get("creation")), labels)


def selftest():
    rng = np.random.default_rng(0)
    assert rnd(rng, (2, 3), "complex64").dtype == np.complex64 and rnd(rng, (), "float32").shape == ()
    H = herm(rng, 3, "complex128", psd=True)
    assert np.allclose(H, H.conj().T) and np.linalg.eigvalsh(H)[0] > 0
    assert abs(np.trace(dm(rng, 2, "complex128")) - 1) < 1e-12
    assert _same((np.ones(2), "a"), (np.ones(2), "a"), 1e-9) is None and _same(np.ones(2), np.ones(3), 1e-9) is not None
