"""C26 — default.qubit simulates every circuit exactly (vs the independent reference simulator)."""
import numpy as np
from hypothesis import strategies as st

from pv import gen, specs
from pv.cmp import close, maxdiff, to_np
from pv.engine import Reject, Result, Viol
from pv.ref import sim

ID = "C26"
TECHNIQUE = "hypothesis-generated circuits (general, kernel-targeted 9-13 wires, measurement-targeted) executed on default.qubit vs an independent numpy state-vector simulation"
RULE = (
    "Three generators. general: 1-5 wires (int/str/mixed labels, random order), depth<=12 over the full named-gate table plus "
    "GlobalPhase/MultiRZ/PauliRot/QubitUnitary/MultiControlledX/adjoint wrappers, optional leading BasisState/StatePrep, optional "
    "broadcast parameter (batch 1-3), device with explicit wires (incl. idle extras, permuted) or without; kernel: 9-13 wires, few "
    "gates chosen to hit tensordot (>=13 state dims), MultiControlledX/GroverOperator custom kernels (>=9 wires), 3+-wire ops, "
    "batched-op-on-(un)batched-state; measurement: Hermitian, Projector, SparseHamiltonian, Sum/LinearCombination with overlapping "
    "wires and > 7 wires, probs on permuted subsets, density_matrix, purity, vn_entropy, mutual_info, var. Interfaces numpy / "
    "autograd / jax(x64) / torch with parameters as interface tensors. Oracle: pv.ref.sim on the same spec (per batch element), "
    "every measurement, 1e-8. Non-trivial: >=2 entangling gates or a targeted path."
)
ASSUMPTIONS = ["Reference falls back to op.matrix() only for ops outside its gate table (counted in labels as fallback:*); C01/C02 tie those matrices to independent definitions."]
BUDGET = {"quick": {"examples": 400}, "thorough": {"examples": 20000, "shards": 16}}
SHRINK_LISTS = ("ops", "meas")

ENT = {"CNOT", "CZ", "CY", "CH", "SWAP", "ISWAP", "SISWAP", "ECR", "CRX", "CRY", "CRZ", "CRot", "IsingXX", "IsingYY", "IsingZZ",
       "IsingXY", "PSWAP", "Toffoli", "CSWAP", "CCZ", "MultiControlledX", "DoubleExcitation", "SingleExcitation"}


@st.composite
def _meas(draw, wires, rich=True):
    n = len(wires)
    opts = [gen.observable(wires).map(lambda o: {"mp": "expval", "obs": o}),
            gen.observable(wires).map(lambda o: {"mp": "var", "obs": o}),
            st.integers(1, n).flatmap(lambda k: gen.subset(wires, k)).map(lambda w: {"mp": "probs", "w": w}),
            st.just({"mp": "state"})]
    if rich:
        sub = st.integers(1, n).flatmap(lambda k: gen.subset(wires, k))
        opts += [sub.map(lambda w: {"mp": "density_matrix", "w": w}), sub.map(lambda w: {"mp": "purity", "w": w}),
                 st.tuples(sub, st.sampled_from([None, 2, 10])).map(lambda t: {"mp": "vn_entropy", "w": t[0], "log_base": t[1]}),
                 gen.pauli_word_obs(wires).map(lambda o: {"mp": "probs", "obs": o}),
                 st.tuples(st.lists(st.integers(0, 1), min_size=1, max_size=min(3, n)), st.permutations(wires)).map(
                     lambda t: {"mp": "expval", "obs": {"op": "Projector", "p": [t[0]], "w": list(t[1])[:len(t[0])]}}),
                 ]
        if n >= 2:
            opts.append(st.permutations(wires).flatmap(lambda p: st.integers(1, n - 1).map(
                lambda k: {"mp": "mutual_info", "w0": list(p)[:k], "w1": list(p)[k:k + max(1, (n - k) // 1)][:max(1, n - k)]})))
    return draw(st.one_of(*opts))


@st.composite
def _general(draw):
    n = draw(st.integers(1, 5))
    wires = draw(gen.wire_labels(n))
    ops = draw(gen.op_list(wires, None, 12, extras=True, p_derive=0.15))
    prep = draw(st.sampled_from([None, None, "basis", "state"]))
    if prep == "basis":
        k = draw(st.integers(1, n))
        ops.insert(0, {"op": "BasisState", "p": [draw(st.lists(st.integers(0, 1), min_size=k, max_size=k))], "w": draw(gen.subset(wires, k))})
    elif prep == "state":
        k = draw(st.integers(1, min(n, 3)))
        ops.insert(0, {"op": "StatePrep", "p": [{"vec": draw(gen.float_list(6)), "n": k}], "w": draw(gen.subset(wires, k))})
    batch = draw(st.sampled_from([None, None, None, 1, 2, 3]))
    if batch:
        w = draw(gen.subset(wires, min(2, n)))
        nm = draw(st.sampled_from(["RX", "RZ", "PhaseShift"] + (["CRY", "IsingXX"] if n >= 2 else [])))
        k = gen.ALL_GATES[nm][1]
        ops.insert(draw(st.integers(1 if prep else 0, len(ops))), {"op": nm, "p": [draw(st.lists(gen.angles(), min_size=batch, max_size=batch))], "w": w[:k]})
    meas = draw(st.lists(_meas(wires), min_size=1, max_size=4))
    devw = draw(st.sampled_from(["none", "same", "perm", "extra"]))
    dev_wires = None
    if devw == "same":
        dev_wires = list(wires)
    elif devw == "perm":
        dev_wires = list(draw(st.permutations(wires)))
    elif devw == "extra":
        dev_wires = list(draw(st.permutations(wires + ["idle1", "idle2"][: draw(st.integers(1, 2))])))
    return {"kind": "general", "ops": ops, "meas": meas, "wires": wires, "dev_wires": dev_wires,
            "interface": draw(st.sampled_from(["numpy", "numpy", "autograd", "jax", "torch"]))}


@st.composite
def _kernel(draw):
    n = draw(st.integers(9, 13))
    wires = list(range(n)) if draw(st.booleans()) else [f"q{i}" for i in range(n)]
    wires = list(draw(st.permutations(wires)))
    # a generic product state on every wire, so that every branch of a kernel carries amplitude
    ops = [{"op": "RY", "p": [draw(gen.generic_angles())], "w": [w]} for w in wires]
    ops += [{"op": "RZ", "p": [draw(gen.generic_angles())], "w": [w]} for w in draw(gen.subset(wires, 3))]
    path = draw(st.sampled_from(["mcx", "grover", "op3", "batched", "fast1q", "plain"]))
    if path == "mcx":
        k = draw(st.integers(9, n))
        ws = draw(gen.subset(wires, k))
        ops.append({"op": "MultiControlledX", "p": [], "w": ws, "kw": {"control_values": draw(st.lists(st.integers(0, 1), min_size=k - 1, max_size=k - 1))}})
    elif path == "grover":
        k = draw(st.integers(9, min(n, 10)))
        ops.append({"op": "GroverOperator", "p": [], "w": draw(gen.subset(wires, k))})
    elif path == "op3":
        ops.append({"op": "QubitUnitary", "p": [{"U": draw(gen.float_list(6)), "n": 3}], "w": draw(gen.subset(wires, 3))})
        ops.append(draw(gen.gate(wires, gen.GATES4)))
    elif path == "batched":
        b = draw(st.integers(1, 3))
        ops.append({"op": "RY", "p": [draw(st.lists(gen.angles(), min_size=b, max_size=b))], "w": draw(gen.subset(wires, 1))})
        ops.append({"op": "CRZ", "p": [draw(st.lists(gen.angles(), min_size=b, max_size=b))], "w": draw(gen.subset(wires, 2))})
    ops += draw(gen.op_list(wires, None, 6, extras=(path != "batched"), p_derive=0.1))
    sub = draw(gen.subset(wires, 3))
    big_sum = {"op": "sum", "operands": [{"op": "s_prod", "c": draw(gen.floats01), "base": {"op": draw(st.sampled_from(["PauliX", "PauliY", "PauliZ"])), "w": [w]}}
                                         for w in draw(gen.subset(wires, draw(st.integers(8, n))))]}
    meas = draw(st.lists(st.one_of(
        gen.observable(sub).map(lambda o: {"mp": "expval", "obs": o}),
        st.just({"mp": "expval", "obs": big_sum}),
        st.just({"mp": "probs", "w": sub}),
        st.just({"mp": "purity", "w": sub[:2]}),
        gen.pauli_word_obs(sub).map(lambda o: {"mp": "var", "obs": o}),
        st.just({"mp": "state"})), min_size=1, max_size=3))
    return {"kind": "kernel:" + path, "ops": ops, "meas": meas, "wires": wires, "dev_wires": None, "interface": "numpy"}


def strategy(tier):
    return st.one_of(_general(), _general(), _general(), _general(), _kernel())


# ----------------------------------------------------------------------------------------------

def _batch_of(ops):
    b = None
    for o in ops:
        for p in o.get("p", []):
            if isinstance(p, list) and o["op"] not in ("BasisState",) and p and not isinstance(p[0], list):
                b = len(p)
    return b


def _unbatch(ops, i):
    out = []
    for o in ops:
        if o["op"] != "BasisState" and any(isinstance(p, list) for p in o.get("p", [])):
            o = {**o, "p": [(p[i] if isinstance(p, list) else p) for p in o["p"]]}
        out.append(o)
    return out


def _to_interface(tape, interface):
    import pennylane as qp

    if interface == "numpy":
        return tape
    params = tape.get_parameters(trainable_only=False)
    new = []
    for p in params:
        a = np.asarray(p)
        if a.dtype.kind not in "fc":
            new.append(p)
            continue
        if interface == "autograd":
            new.append(qp.numpy.array(a, requires_grad=True))
        elif interface == "jax":
            import jax.numpy as jnp
            new.append(jnp.array(a))
        elif interface == "torch":
            import torch
            new.append(torch.tensor(a))
    return tape.bind_new_parameters(new, list(range(len(params))))


def check(spec):
    import pennylane as qp

    tape = specs.build_tape(spec)
    wires = [specs.wire(w) for w in spec["wires"]]
    dev_wires = [specs.wire(w) for w in spec["dev_wires"]] if spec.get("dev_wires") else None
    for m in tape.measurements:
        if type(m).__name__ == "MutualInfoMP" and set(m.raw_wires[0]) & set(m.raw_wires[1]):
            raise Reject("mutual_info overlapping")
    dev = qp.device("default.qubit", wires=dev_wires) if dev_wires else qp.device("default.qubit")
    itape = _to_interface(tape, spec["interface"])
    res = qp.execute([itape], dev, interface=None if spec["interface"] == "numpy" else spec["interface"])[0]
    res = to_np(res)
    if len(tape.measurements) == 1:
        res = (res,)
    order = list(dev_wires) if dev_wires else _standard_order(tape)
    batch = _batch_of(spec["ops"])
    feats = {"kind": spec["kind"], "interface": spec["interface"]}
    refs = []
    for i in range(batch or 1):
        ops_i = _unbatch(spec["ops"], i) if batch else spec["ops"]
        t_i = specs.build_tape({"ops": ops_i, "meas": spec["meas"]})
        refs.append(sim.run_tape(t_i, order))
    for j, mp in enumerate(tape.measurements):
        got = np.asarray(res[j])
        exp = np.stack([np.asarray(r[j]) for r in refs]) if batch else np.asarray(refs[0][j])
        if type(mp).__name__ == "StateMP" and not dev_wires:
            pass
        if got.shape != exp.shape:
            raise Viol("result-shape", f"{type(mp).__name__} got {got.shape} expected {exp.shape} batch={batch}",
                       sig=type(mp).__name__ + ":shape", features=feats)
        tol = 1e-8
        if not close(got, exp, tol):
            raise Viol("result-value", f"{spec['kind']} {spec['meas'][j]} diff={maxdiff(got, exp)} interface={spec['interface']} ops={spec['ops']}",
                       sig=type(mp).__name__ + ":" + spec["kind"].split(":")[0], features=feats)
    n_ent = sum(1 for o in spec["ops"] if _leafname(o) in ENT)
    labels = [spec["kind"], "iface:" + spec["interface"], "devw:" + ("given" if dev_wires else "none")] + \
             ["mp:" + m["mp"] for m in spec["meas"]] + (["batched"] if batch else [])
    return Result(n_ent >= 2 or spec["kind"].startswith("kernel"), labels=labels)


def _standard_order(tape):
    """Documented wire order of a device without wires (QuantumScript.map_to_standard_wires): operator wires in
    order of first use, then measurement-only wires; no re-ordering at all (i.e. ascending) when the operator wires
    are exactly the integers 0..n-1."""
    op_wires = []
    for op in tape.operations:
        for w in op.wires:
            if w not in op_wires:
                op_wires.append(w)
    meas_only = []
    for mp in tape.measurements:
        for w in mp.wires:
            if w not in op_wires and w not in meas_only:
                meas_only.append(w)
    n = len(op_wires)
    if set(op_wires) == set(range(n)) and all(isinstance(w, int) for w in op_wires):
        op_wires = list(range(n))
        if set(meas_only) == set(range(n, n + len(meas_only))):
            meas_only = sorted(meas_only)
    return op_wires + meas_only


def _leafname(o):
    return _leafname(o["base"]) if "base" in o else o["op"]


def selftest():
    sim.selftest()
