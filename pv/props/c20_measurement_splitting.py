"""C20 — measurement splitting / diagonalisation / batching transforms preserve results."""
import numpy as np
from hypothesis import strategies as st

from pv import gen, specs
from pv.engine import Reject, Result, Viol
from pv.ref import mexec, rgen, sim

ID = "C20"
TECHNIQUE = ("hypothesis-generated circuits with mixed measurement lists per transform; the produced batch is executed on an "
             "independent reference executor (state-vector simulator + inverse-CDF sampler on injected uniforms) and the returned "
             "post-processing is compared, position by position and in structure, with the reference result of the original tape")
RULE = (
    "Circuits on 1-4 wires (int/str/mixed labels, 0-6 gates, generic angles) and, per transform: split_non_commuting x "
    "grouping_strategy in {default, wires, qwc, None} (+ shot_dist None/uniform, precomputed grouping_indices of a single Sum) and "
    "split_to_single_terms: 1-6 measurements from expval/var/probs/sample/counts over Pauli words (with identity factors), "
    "Identity, Hadamard, Hermitian, Projector, s_prod, Sum / LinearCombination / Hamiltonian with identity terms, zero, negative and "
    "duplicate coefficients/terms, nested sums, wire-only and wire-less probs/sample/counts, duplicates of earlier measurements, "
    "optional broadcast parameter, shots None / int / shot vector; diagonalize_measurements x supported_base_obs subsets x "
    "to_eigvals on measurement sets *constructed* qubit-wise commuting from a per-wire basis (X/Y/Z/Hadamard) incl. sums, scalar "
    "multiples of Identity, Hermitian/Projector on spare wires, computational-basis sampling on Z wires, plus 15% lists with a "
    "spoiler measurement that need not commute; sign_expand(circuit=False) on expval of qubit-wise commuting sums; "
    "broadcast_expand / batch_params(all_operations) / batch_input on tapes with 1-3 batched parameters (batch 1-3, incl. Rot "
    "and AngleEmbedding). Oracle: every produced tape is run on pv.ref.mexec (exact expval/var/probs from pv.ref.sim; "
    "sample/counts = inverse CDF of the eigenvalue distribution at injected uniforms, so they are basis independent), the "
    "post-processing is applied and must equal the reference result of the original tape (broadcast originals are evaluated from "
    "per-entry sliced specs) in nesting, shapes, order and values (1e-8; sign_expand 1e-5 because it stores float32 projectors). A "
    "transform may instead raise its refusal error (ValueError / QuantumFunctionError / RuntimeError 'Cannot split') = rejected; "
    "returning different numbers is a violation. Non-trivial: >= 2 tapes produced, or an identity/offset term present, or "
    "diagonalizing gates were appended."
)
ASSUMPTIONS = [
    "sign_expand var(H) returns the variance of the shot-distributed estimator, not var(H): only expval is checked; circuit=True is an approximation and not checked.",
    "Results of expval/var/probs are compared analytically also on tapes with shots (post-processing is linear in the results); sample/counts are compared through the injected deterministic sampler; cases with an injected uniform within 1e-6 of a CDF jump are rejected.",
    "Wire-less probs()/sample()/counts() mean 'all device wires' (the fixed wire order of the case), as on a device with fixed wires.",
    "Broadcast counts: any sequence of dicts is accepted (default.qubit returns a list, broadcast_expand an object array).",
    "shot_dist other than None/'uniform' can drop groups that receive 0 shots (documented approximation) and is not generated; 'uniform' is only used with total shots >= 64.",
    "split_non_commuting refusing var/sample/counts/probs of a Sum with RuntimeError, diagonalize_measurements refusing with ValueError/QuantumFunctionError and batch_* refusing with ValueError count as rejections.",
    "Operators that are left broadcasted by a transform are un-broadcast for the reference run with bind_new_parameters.",
]
BUDGET = {"quick": {"examples": 3000}, "thorough": {"examples": 120000, "shards": 16}}
SHRINK_LISTS = ("ops", "meas")

GS = ["default", "wires", "qwc", None]
PAULI = ["PauliX", "PauliY", "PauliZ"]
BASES = ["PauliX", "PauliY", "PauliZ", "Hadamard"]

# ------------------------------------------------------------------------------------------------ spec -> objects


build_obs, build_meas = rgen.build_obs, rgen.build_meas


def build_tape(spec, ops=None):
    import pennylane as qp

    ops = [specs.build_op(o) for o in (spec["ops"] if ops is None else ops)]
    meas = [build_meas(m) for m in spec["meas"]]
    shots = spec.get("shots")
    if isinstance(shots, list):
        shots = [tuple(x) if isinstance(x, list) else x for x in shots]
    t = qp.tape.QuantumScript(ops, meas, shots=shots)
    if spec.get("trainable") is not None:
        t.trainable_params = list(spec["trainable"])
    return t


def _batch_of_op(o):
    for p, b in zip(o.get("p", []), o.get("bat", [])):
        if b:
            return len(p)
    return _batch_of_op(o["base"]) if isinstance(o.get("base"), dict) else None


def batch_of(spec):
    for o in spec["ops"]:
        b = _batch_of_op(o)
        if b is not None:
            return b
    return None


def _slice_op_spec(o, b):
    if any(o.get("bat", [])):
        o = {**o, "p": [p[b] if f else p for p, f in zip(o["p"], o["bat"])]}
    if isinstance(o.get("base"), dict):
        o = {**o, "base": _slice_op_spec(o["base"], b)}
    return o


def sliced_ops(spec, b):
    return [_slice_op_spec(o, b) for o in spec["ops"]]


def reference(spec, order, tape):
    """Reference result of the original tape, independent of any PennyLane transform."""
    B = batch_of(spec)
    if B is None:
        states = sim.run_ops(tape.operations, order)
    else:
        states = [sim.run_ops([specs.build_op(o) for o in sliced_ops(spec, b)], order) for b in range(B)]
    try:
        return mexec.exec_tape(tape, order, spec.get("u", ()), strict=True, states=states)
    except mexec.NearThreshold:
        raise Reject("injected uniform too close to a CDF jump") from None


# ------------------------------------------------------------------------------------------------ generators (seeded)

NAMES = {"X": "PauliX", "Y": "PauliY", "Z": "PauliZ", "H": "Hadamard"}
SPECIAL_COEF = [0.0, 1.0, -1.0, 2.0, -1.138, 0.5]


def _coef(R):
    return R.choice(SPECIAL_COEF) if R.random() < 0.33 else round(R.uniform(-1, 1), 4)


def _word(R, ws, letters=None, ident=0.15, max_len=3):
    """Pauli word on distinct wires; `letters` maps repr(wire) -> base name (constructed commuting sets)."""
    sub = rgen.subset(R, ws, 1, max_len)
    fs = []
    for w in sub:
        nm = "Identity" if R.random() < ident else (R.choice(PAULI) if letters is None else letters[repr(w)])
        fs.append({"op": nm, "w": [w]})
    return fs[0] if len(fs) == 1 else {"op": "prod", "operands": fs}


def _ident(R, ws):
    return {"op": "Identity", "w": [R.choice(ws)]}


def _had(R, ws):
    return {"op": "Hadamard", "w": [R.choice(ws)]}


def _herm(R, ws):
    sub = rgen.subset(R, ws, 1, 2)
    return {"op": "Hermitian", "p": [{"H": [round(R.uniform(-1, 1), 4) for _ in range(5)], "n": len(sub)}], "w": sub}


def _proj(R, ws):
    sub = rgen.subset(R, ws, 1, 2)
    return {"op": "Projector", "p": [[R.randint(0, 1) for _ in sub]], "w": sub}


def _lin(R, term, depth=1):
    """Linear combination in every container PennyLane offers; terms drawn from a small pool so duplicates occur."""
    pool = [term() for _ in range(R.randint(1, 3))]
    xs = [(_coef(R), R.choice(pool)) for _ in range(R.randint(2, 4))]
    r = R.random()
    if r < 0.6:
        out = {"op": "sum", "operands": [o if c == 1.0 else {"op": "s_prod", "c": c, "base": o} for c, o in xs]}
    else:
        out = {"op": "lincomb" if r < 0.8 else "hamiltonian", "coeffs": [c for c, _ in xs], "operands": [o for _, o in xs]}
    if depth and R.random() < 0.25:
        out = {"op": "sum", "operands": [{"op": "s_prod", "c": _coef(R), "base": out}, term()]}
    return out


def _sprod(R, base):
    return {"op": "s_prod", "c": _coef(R), "base": base}


def _shots(R, need, vec=True):
    r = R.random()
    if not need and r < 0.6:
        return None
    if vec and R.random() < 0.33:
        return [R.randint(1, 5), R.randint(1, 5)] if R.random() < 0.5 else [[R.randint(1, 3), 2]]
    return R.randint(1, 5)


def _uniforms(R):
    return [round(R.uniform(0.002, 0.998), 5) for _ in range(10)]


def _broadcast(R, ops, p=0.2):
    """Optionally broadcast 1-2 parametrised gates (same batch size). An adjoint derived from such a gate shares its
    spec and is broadcast with it (U(x) ... U(x)^dagger)."""
    cand = [o for o in ops if o.get("p") and all(isinstance(x, (int, float)) for x in o["p"])]
    if not cand or R.random() > p:
        return
    B = R.choice([1, 2, 2, 3, 3])
    for o in R.sample(cand, min(len(cand), R.randint(1, 2))):
        flags = [R.random() < 0.5 for _ in o["p"]]
        if not any(flags):
            flags[0] = True
        o["p"] = [[rgen.angle(R) for _ in range(B)] if f else x for x, f in zip(o["p"], flags)]
        o["bat"] = flags


def _wsub(R, ws):
    return None if R.random() < 0.25 else rgen.subset(R, ws)


def _one_meas(R, ws, shot_ok):
    """A measurement from the general (not necessarily commuting) pool."""
    def term():
        r = R.random()
        return _word(R, ws) if r < 0.7 else _ident(R, ws) if r < 0.85 else _had(R, ws)

    def term_h():
        r = R.random()
        return term() if r < 0.7 else _herm(R, ws) if r < 0.85 else _proj(R, ws)

    r = R.random()
    if shot_ok and r < 0.33:
        q = R.random()
        s_obs = _word(R, ws) if q < 0.7 else _had(R, ws) if q < 0.85 else _ident(R, ws)
        k = R.random()
        if k < 0.25:
            return {"mp": "sample", "w": _wsub(R, ws)}
        if k < 0.5:
            return {"mp": "sample", "obs": s_obs}
        if k < 0.75:
            return {"mp": "counts", "w": _wsub(R, ws), "all_outcomes": R.random() < 0.5}
        return {"mp": "counts", "obs": s_obs, "all_outcomes": R.random() < 0.5}
    r = R.random()
    if r < 0.55:
        q = R.random()
        if q < 0.25:
            o = term_h()
        elif q < 0.6:
            o = _lin(R, term)
        elif q < 0.7:
            o = _lin(R, term_h, depth=0)
        elif q < 0.8:
            o = _sprod(R, term())
        elif q < 0.9:
            o = _sprod(R, _lin(R, term, depth=0))
        elif len(ws) >= 2:  # product containing a sum
            a, b = R.sample(ws, 2)
            s = _lin(R, lambda: {"op": R.choice(PAULI), "w": [a]}, depth=0)
            o = {"op": "prod", "operands": [s, {"op": R.choice(PAULI), "w": [b]}]}
        else:
            o = term()
        return {"mp": "expval", "obs": o}
    if r < 0.75:
        q = R.random()
        o = term_h() if q < 0.6 else _sprod(R, term()) if q < 0.75 else _ident(R, ws) if q < 0.9 else _lin(R, term, depth=0)
        return {"mp": "var", "obs": o}
    if r < 0.9:
        return {"mp": "probs", "w": _wsub(R, ws)}
    return {"mp": "probs", "obs": _word(R, ws, ident=0)}  # the eigenbasis of a word with identity factors is not defined


def _meas_list(R, ws, max_meas=6, allow_shot=True):
    shot_ok = allow_shot and R.random() < 0.35
    ms = []
    for _ in range(R.randint(1, max_meas)):
        if ms and R.random() < 0.12:
            ms.append(R.choice(ms))
        else:
            ms.append(_one_meas(R, ws, shot_ok))
    return ms


def _needs_shots(ms):
    return any(m["mp"] in ("sample", "counts") for m in ms)


def case_split(R, which):
    ws = rgen.wire_labels(R, R.randint(1, 4))
    ops = rgen.op_list(R, ws, 0, 6)
    _broadcast(R, ops)
    single_sum = which == "snc" and R.random() < 0.25
    if single_sum:
        ms = [{"mp": "expval", "obs": _lin(R, lambda: _word(R, ws) if R.random() < 0.8 else _ident(R, ws), depth=0)}]
    else:
        ms = _meas_list(R, ws)
    spec = {"t": which, "wires": ws, "ops": ops, "meas": ms, "shots": _shots(R, _needs_shots(ms)), "u": _uniforms(R)}
    if which == "snc":
        spec["gs"] = R.choice(GS)
        if single_sum:
            opt = R.choice(["none", "none", "pregroup", "uniform"])
            if opt == "pregroup":
                spec["pregroup"] = [R.choice(["qwc", "commuting", "anticommuting"]), R.choice(["lf", "rlf", "dsatur", "gis"])]
            if opt == "uniform":
                spec["shot_dist"] = "uniform"
                spec["shots"] = R.randint(64, 100)
    return spec


def case_diag(R):
    ws = rgen.wire_labels(R, R.randint(1, 4))
    ops = rgen.op_list(R, ws, 0, 6)
    _broadcast(R, ops, p=0.1)
    letters = {repr(w): R.choice(BASES) for w in ws}
    zw = [w for w in ws if letters[repr(w)] == "PauliZ"]

    def word():
        return _word(R, ws, letters)

    def term():
        return word() if R.random() < 0.8 else _ident(R, ws)

    def obs():
        q = R.random()
        if q < 0.4:
            return word()
        if q < 0.7:
            return _lin(R, term)
        if q < 0.8:
            return _sprod(R, word())
        if q < 0.9:
            return _sprod(R, _ident(R, ws))
        return _ident(R, ws)

    shot_ok = R.random() < 0.3
    ms = []
    for _ in range(R.randint(1, 5)):
        q = R.random()
        if shot_ok and q < 0.35:
            k = R.random()
            if zw and k < 0.4:
                ms.append(R.choice([{"mp": "sample", "w": rgen.subset(R, zw)}, {"mp": "counts", "w": rgen.subset(R, zw), "all_outcomes": False}]))
            elif k < 0.7:
                ms.append({"mp": "sample", "obs": word()})
            else:
                ms.append({"mp": "counts", "obs": word(), "all_outcomes": R.random() < 0.5})
        elif q < 0.65:
            ms.append({"mp": "expval", "obs": obs()})
        elif q < 0.85:
            ms.append({"mp": "var", "obs": obs()})
        elif zw and q < 0.93:
            ms.append({"mp": "probs", "w": rgen.subset(R, zw)})
        else:
            ms.append({"mp": "probs", "obs": _word(R, ws, letters, ident=0)})
    flavour = "qwc"
    r = R.random()
    if r < 0.15:
        ms.insert(R.randint(0, len(ms)), _one_meas(R, ws, False))
        flavour = "spoiler"
    elif r < 0.3:
        used = set()
        for m in ms:
            used |= set(map(repr, specs.spec_wires(m)))
        free = [w for w in ws if repr(w) not in used]
        if free:  # an unrecognised observable on a wire nothing else measures
            o = _herm(R, free[:1]) if R.random() < 0.5 else _proj(R, free[:1])
            if R.random() < 0.5:
                o = {"op": "sum", "operands": [o, _sprod(R, word())]}
            ms.insert(R.randint(0, len(ms)), {"mp": "expval", "obs": o})
            flavour = "foreign"
    sup = None if R.random() < 0.5 else R.sample(["PauliX", "PauliY", "PauliZ", "Hadamard", "Identity"], R.randint(0, 4))
    all_diag = sup is None or set(sup) <= {"PauliZ", "Identity"}
    return {"t": "diag", "wires": ws, "ops": ops, "meas": ms, "shots": _shots(R, _needs_shots(ms)), "u": _uniforms(R),
            "sup": sup, "to_eigvals": all_diag and R.random() < 0.5, "flavour": flavour}


def case_sign(R):
    ws = rgen.wire_labels(R, R.randint(1, 3))
    ops = rgen.op_list(R, ws, 1, 6)
    if R.random() < 0.6:
        # X/Z words whose supports are linearly independent (term i owns wire i): spectrum {sum +-c_i}, no offset
        k = R.randint(1, len(ws))
        own = R.sample(ws, k)
        letters = {repr(w): R.choice(["PauliX", "PauliZ"]) for w in ws}
        terms = []
        for i, w in enumerate(own):
            extra = [v for v in ws if v not in own and R.random() < 0.4]
            sub = [w] + extra
            R.shuffle(sub)
            fs = [{"op": letters[repr(v)], "w": [v]} for v in sub]
            terms.append(fs[0] if len(fs) == 1 else {"op": "prod", "operands": fs})
        cs = [round(R.uniform(0.1, 1.0), 4) * R.choice([1, -1]) for _ in terms]
        if len(terms) == 1:
            terms, cs = terms * 2, [cs[0], round(R.uniform(0.1, 1.0), 4)]
        if R.random() < 0.5:
            H = {"op": "sum", "operands": [{"op": "s_prod", "c": c, "base": o} for c, o in zip(cs, terms)]}
        else:
            H = {"op": R.choice(["lincomb", "hamiltonian"]), "coeffs": cs, "operands": terms}
    else:
        letters = {repr(w): R.choice(PAULI) for w in ws}
        H = _lin(R, lambda: _word(R, ws, letters, ident=0.1) if R.random() < 0.8 else _ident(R, ws), depth=0)
    return {"t": "sign", "wires": ws, "ops": ops, "meas": [{"mp": "expval", "obs": H}], "shots": None, "u": []}


BATCH_GATES = {k: v for k, v in gen.ALL_GATES.items() if v[0] >= 1}


def case_batch(R, which):
    ws = rgen.wire_labels(R, R.randint(1, 4))
    B = R.choice([1, 2, 2, 3, 3])
    ops = []
    for _ in range(R.randint(1, 5)):
        r = R.random()
        if r < 0.55:
            ops.append(rgen.gate(R, ws, BATCH_GATES))
        elif r < 0.7:
            sub = rgen.subset(R, ws)
            ops.append({"op": "AngleEmbedding", "p": [[rgen.angle(R) for _ in sub]], "w": sub, "kw": {"rotation": R.choice("XYZ")}})
        else:
            ops.append(rgen.gate(R, ws))
    slots = [(i, j) for i, o in enumerate(ops) for j in range(len(o.get("p", [])))]
    if not slots:
        ops.append({"op": "RX", "p": [rgen.angle(R)], "w": [ws[0]]})
        slots = [(len(ops) - 1, 0)]
    if which == "bpar_all":
        chosen = set(slots)
    else:
        chosen = set(R.sample(slots, min(len(slots), R.randint(1, 3))))
        if which == "bexp" and R.random() < 0.08:
            chosen = set()  # not broadcasted at all: documented no-op
    for i, o in enumerate(ops):
        flags = [(i, j) in chosen for j in range(len(o.get("p", [])))]
        if any(flags):
            o["p"] = [([[rgen.angle(R) for _ in x] for _ in range(B)] if isinstance(x, list) else [rgen.angle(R) for _ in range(B)])
                      if f else x for x, f in zip(o["p"], flags)]
            o["bat"] = flags
    idx, k = [], 0
    for i, o in enumerate(ops):
        for j in range(len(o.get("p", []))):
            if (i, j) in chosen:
                idx.append(k)
            k += 1
    if which == "bexp" and chosen and R.random() < 0.15:  # U(x) ... U(x)^dagger with the same broadcast parameter
        ops.append({"op": "adjoint", "base": ops[R.choice(sorted({i for i, _ in chosen}))]})
    if which == "bpar_all":  # observables without parameters: "all operations" are batched
        ms = []
        for _ in range(R.randint(1, 3)):
            r = R.random()
            if r < 0.5:
                q = R.random()
                o = _word(R, ws) if q < 0.5 else _ident(R, ws) if q < 0.65 else {"op": "sum", "operands": [_word(R, ws) for _ in range(R.randint(2, 3))]}
                ms.append({"mp": "expval", "obs": o})
            elif r < 0.7:
                ms.append({"mp": "var", "obs": _word(R, ws)})
            elif r < 0.85:
                ms.append({"mp": "probs", "w": rgen.subset(R, ws)})
            else:
                ms.append({"mp": "sample", "w": rgen.subset(R, ws)})
    else:
        ms = _meas_list(R, ws, max_meas=3)
    return {"t": which, "wires": ws, "ops": ops, "meas": ms, "shots": _shots(R, _needs_shots(ms)), "u": _uniforms(R),
            "batched_idx": idx, "n_op_params": k}


KINDS = ["snc", "snc", "snc", "stst", "diag", "diag", "diag", "sign", "bexp", "bpar", "bpar_all", "binp"]


def make_case(R):
    k = R.choice(KINDS)
    if k in ("snc", "stst"):
        return case_split(R, k)
    if k == "diag":
        return case_diag(R)
    if k == "sign":
        return case_sign(R)
    return case_batch(R, k)


def strategy(tier):
    return rgen.seeded(make_case)


def enumerate_cases(tier):
    """Small fixed corner cases (identity-only measurements, constant offsets) for every splitting transform."""
    w = [0, 1]
    ops = [{"op": "RX", "p": [0.4], "w": [0]}, {"op": "RY", "p": [1.1], "w": [1]}, {"op": "CNOT", "p": [], "w": [0, 1]}]
    I0 = {"op": "Identity", "w": [0]}
    X0 = {"op": "PauliX", "w": [0]}
    lists = [
        [{"mp": "expval", "obs": I0}],
        [{"mp": "var", "obs": I0}, {"mp": "expval", "obs": X0}],
        [{"mp": "expval", "obs": {"op": "s_prod", "c": -1.138, "base": I0}}],
        [{"mp": "expval", "obs": {"op": "sum", "operands": [{"op": "s_prod", "c": 2.0, "base": X0}, {"op": "s_prod", "c": 0.5, "base": I0}]}}],
        [{"mp": "expval", "obs": {"op": "Hermitian", "p": [{"H": [0.3, -0.2, 0.7], "n": 1}], "w": [0]}}],
        [{"mp": "expval", "obs": {"op": "sum", "operands": [I0, {"op": "Identity", "w": [1]}]}}, {"mp": "probs", "w": [1]}],
    ]
    for ms in lists:
        base = {"wires": w, "ops": ops, "meas": ms, "shots": None, "u": []}
        for gs in GS:
            yield {**base, "t": "snc", "gs": gs}
        yield {**base, "t": "stst"}
        for te in (False, True):
            yield {**base, "t": "diag", "sup": None, "to_eigvals": te, "flavour": "fixed"}
        yield {**base, "t": "diag", "sup": ["PauliX", "PauliY"], "to_eigvals": False, "flavour": "fixed"}


# ------------------------------------------------------------------------------------------------ check


def _has_identity(s):
    if isinstance(s, dict):
        if s.get("op") == "Identity":
            return True
        return any(_has_identity(v) for v in s.values())
    if isinstance(s, list):
        return any(_has_identity(v) for v in s)
    return False


def _obs_kind(m):
    o = m.get("obs")
    return "wires" if not o else o["op"]


def _apply(spec, tape):
    import pennylane as qp

    t = spec["t"]
    if t == "snc":
        if spec.get("pregroup"):
            tape.measurements[0].obs.compute_grouping(grouping_type=spec["pregroup"][0], method=spec["pregroup"][1])
        kw = {"grouping_strategy": spec["gs"]}
        if spec.get("shot_dist"):
            kw["shot_dist"] = spec["shot_dist"]
        return qp.transforms.split_non_commuting(tape, **kw)
    if t == "stst":
        return qp.transforms.split_to_single_terms(tape)
    if t == "diag":
        kw = {"to_eigvals": spec["to_eigvals"]}
        if spec["sup"] is not None:
            kw["supported_base_obs"] = [getattr(qp, nm) for nm in spec["sup"]]
        return qp.transforms.diagonalize_measurements(tape, **kw)
    if t == "sign":
        return qp.transforms.sign_expand(tape, circuit=False)
    if t == "bexp":
        return qp.transforms.broadcast_expand(tape)
    if t in ("bpar", "bpar_all"):
        return qp.batch_params(tape, all_operations=(t == "bpar_all"))
    if t == "binp":
        return qp.batch_input(tape, argnum=spec["batched_idx"])
    raise ValueError(t)


def _tag(spec):
    t = spec["t"]
    if t == "snc":
        return f"split_non_commuting[{spec['gs']}]"
    return {"stst": "split_to_single_terms", "diag": "diagonalize_measurements", "sign": "sign_expand", "bexp": "broadcast_expand",
            "bpar": "batch_params", "bpar_all": "batch_params[all]", "binp": "batch_input"}[t]


def check(spec):
    import pennylane as qp
    from pennylane.exceptions import QuantumFunctionError

    t = spec["t"]
    if not spec["meas"]:
        raise Reject("no measurements")
    order = [specs.wire(w) for w in spec["wires"]]
    spec = dict(spec)
    if t in ("bpar", "binp"):
        n_all = spec["n_op_params"]
        spec["trainable"] = spec["batched_idx"] if t == "bpar" else [i for i in range(n_all) if i not in spec["batched_idx"]]
    tape = build_tape(spec)
    expected = reference(spec, order, tape)
    tag = _tag(spec)
    tape_in = build_tape(spec)
    try:
        tapes, fn = _apply(spec, tape_in)
    except ValueError as e:
        if t in ("diag", "sign", "bpar", "bpar_all", "binp"):
            raise Reject(f"{tag}: ValueError (documented refusal)") from None
        raise
    except QuantumFunctionError:
        if t == "diag":
            raise Reject(f"{tag}: QuantumFunctionError (documented refusal)") from None
        raise
    except RuntimeError as e:
        if t in ("snc", "stst") and "Cannot split up terms in sums" in str(e):
            raise Reject(f"{tag}: cannot split sums for non-expval measurement") from None
        raise
    tapes = list(tapes)
    results = []
    for tp in tapes:
        for w in tp.wires:
            if w not in order:
                raise Viol("new-wire", f"{tag} produced a tape on wire {w!r} that the circuit does not have", sig=tag)
        results.append(mexec.exec_tape(tp, order, spec.get("u", ())))
    got = fn(tuple(results))
    tol = 1e-5 if t == "sign" else 1e-8
    diff = mexec.same(got, expected, tol)
    nm = len(spec["meas"])
    if diff:
        # locate the first failing measurement for bucketing
        feats = {"transform": tag.split("[")[0], "variant": tag, "batch": batch_of(spec), "n_tapes": len(tapes),
                 "shot_vector": isinstance(spec.get("shots"), list)}
        pos = None
        partitioned = isinstance(spec.get("shots"), list)
        try:
            g, e = (got[0], expected[0]) if partitioned else (got, expected)
            if nm == 1:
                pos = 0
            else:
                for i in range(nm):
                    if mexec.same(g[i], e[i], tol):
                        pos = i
                        break
        except (TypeError, IndexError, KeyError):
            pos = None
        if pos is not None:
            m = spec["meas"][pos]
            feats.update(mp=m["mp"], obs=_obs_kind(m))
        kind = "shape" if ("shape" in diff or "tuple" in diff or "expected" in diff.split(" got ")[0]) else "value"
        what = f"{feats.get('mp')}({feats.get('obs')})"
        tname = tag.split("[")[0]
        adj_b = any(o["op"] == "adjoint" and _batch_of_op(o) for o in spec["ops"])
        feats.update(kind=kind, adjoint_of_broadcast=adj_b)
        if t == "sign":
            H = sim.op_matrix(tape.measurements[0].obs)
            ev = np.linalg.eigvalsh((H + H.conj().T) / 2)
            feats.update(has_Y="PauliY" in repr(spec["meas"]), symmetric_spectrum=bool(abs(ev[0] + ev[-1]) < 1e-9))
            sig = f"sign_expand:Y={feats['has_Y']}:sym={feats['symmetric_spectrum']}"
        elif feats.get("obs") == "Identity" and feats.get("mp") not in (None, "expval") and t in ("snc", "stst"):
            sig = "split:non-expval-measurement-of-Identity"
        elif kind == "shape":
            flags = [f for f, on in (("batch1", batch_of(spec) == 1), ("adjoint-of-broadcast", adj_b and t == "bexp"),
                                     ("shot-vector+no-tapes", feats["shot_vector"] and not tapes)) if on]
            sig = f"{tname}:shape:" + ("+".join(flags) if flags else what)
        elif t == "diag":
            cls = {"sum": "composite", "lincomb": "composite", "hamiltonian": "composite", "s_prod": "composite",
                   "Hermitian": "non-pauli", "Projector": "non-pauli"}.get(feats.get("obs"), "word")
            feats.update(to_eigvals=spec["to_eigvals"], flavour=spec.get("flavour"), obs_class=cls)
            if "counts" in diff:
                sig = "diag:counts-all_outcomes"
            else:
                sig = f"diag:{cls}:to_eigvals={spec['to_eigvals']}"
        else:
            sig = f"{tname}:{what}"
        raise Viol("result-changed", f"{tag} {diff}; meas={spec['meas']} shots={spec.get('shots')} "
                                     f"out_meas={[[str(m) for m in tp.measurements] for tp in tapes][:6]}", sig=sig, features=feats)
    # ---- labels / non-triviality
    appended = any(len(tp.operations) > len(tape.operations) for tp in tapes)
    ident = _has_identity(spec["meas"])
    nontrivial = len(tapes) >= 2 or ident or appended
    labels = [tag, f"{tag}:tapes={'1' if len(tapes) == 1 else '2-3' if len(tapes) <= 3 else '4+'}"]
    if ident:
        labels.append("identity-term")
    if spec.get("shots") is not None:
        labels.append("shots:vector" if isinstance(spec["shots"], list) else "shots:int")
    if batch_of(spec):
        labels.append("broadcast")
    for k in sorted({m["mp"] for m in spec["meas"]}):
        labels.append("mp:" + k)
    if t == "diag":
        labels.append(f"diag:{spec.get('flavour')}:eig={spec['to_eigvals']}:sup={'default' if spec['sup'] is None else len(spec['sup'])}")
        if appended:
            labels.append("diag:gates-appended")
    if spec.get("pregroup"):
        labels.append("snc:pregrouped:" + spec["pregroup"][0])
    if spec.get("shot_dist"):
        labels.append("snc:shot_dist")
    return Result(nontrivial, labels)


def selftest():
    mexec.selftest()
