"""C39 — Jacobian-product utilities contract Jacobians correctly."""
import itertools
import math as pymath

import numpy as np
from hypothesis import strategies as st

from pv import specs
from pv.cmp import close, to_np
from pv.engine import Reject, Result, Viol

ID = "C39"
TECHNIQUE = ("hypothesis-generated Jacobian pytrees / cotangents / tangents, tapes with shot vectors and QNode pre-processing "
             "expressions; dense numpy contraction, independently re-done batch bookkeeping, finite differences")
RULE = (
    "contract: compute_vjp_single/multi and compute_jvp_single/multi on synthetic Jacobian pytrees in PennyLane's layout "
    "(1-3 measurements with output shape () / (1,) / (2,) / (4,) / (8,), 1-4 parameters, for JVP also tensor-valued parameters of "
    "shape (2,), (3,), (2,2)), cotangents/tangents random, all-zero, one-hot or partially zero, as arrays/lists/tuples and in "
    "numpy/autograd/jax/torch, optional num=; oracle: dense tensordot of the same numbers, result shape (k,) for VJP and the "
    "measurement shape(s) for JVP, 1e-10. tape: batch_vjp / batch_jvp with param_shift on 1-3 tapes (RX/RY/RZ/PhaseShift/CRX/"
    "IsingXX circuits on 1-3 wires, expval/var/probs measurements, trainable subsets incl. none, shots None / int / shot vector "
    "executed on a seeded default.qubit, cotangent/tangent zero for some tapes, reduction append/extend); oracle: the same executed "
    "results are sliced per tape by an independent bookkeeping (zero cotangent => no tapes, no trainables => None), turned into the "
    "explicit Jacobian by param_shift's own post-processing and contracted densely (summed over shot copies for VJP, per copy for "
    "JVP), 1e-10. cjac: classical_jacobian of QNodes whose gate arguments are random smooth expressions (c*x, sin, cos, square, "
    "sums, products, constants) of 1-3 scalar/vector QNode arguments, autograd/jax/torch, argnum None/int/list; oracle: central "
    "finite differences of a plain-Python evaluation of the same expressions, output layout per the docstring table, 1e-6. "
    "Non-trivial: non-zero cotangent/tangent and >= 2 parameters (contract/tape); >= 2 gate arguments depending on the inputs (cjac)."
)
ASSUMPTIONS = [
    "The explicit Jacobian for the tape kind is the one produced by qp.gradients.param_shift (its correctness is property C35/C36, not this one).",
    "Cotangents follow the tape's result structure (tuple per measurement / per shot copy), which is what the workflow interfaces pass.",
    "jvp() on a tape without trainable parameters: zeros of the output shape or None are both accepted (docstring says None, jax interface relies on zeros).",
    "classical_jacobian rows with trainable_only=True are the gate arguments that depend on a differentiated (jax) / trainable (autograd, torch) QNode argument; constants are excluded.",
    "Synthetic Jacobian values come from numpy's PCG64 with a Hypothesis-drawn seed.",
]
BUDGET = {"quick": {"examples": 1500}, "thorough": {"examples": 60000, "shards": 16}}
SHRINK_LISTS = ("tapes", "ops", "meas", "gates")

IFACES = ("numpy", "numpy", "autograd", "jax", "torch")
RSHAPES = ([], [], [], [1], [2], [4], [8])


# ------------------------------------------------------------------------------------------------ strategies

@st.composite
def _contract(draw, tier):
    fn = draw(st.sampled_from(["vjp", "jvp"]))
    m = draw(st.sampled_from([1, 1, 2, 2, 3]))
    k = draw(st.sampled_from([1, 2, 2, 3, 4]))
    meas = [list(draw(st.sampled_from(RSHAPES))) for _ in range(m)]
    if draw(st.integers(0, 3)) == 0:
        meas = [meas[0]] * m  # equal shapes: the einsum fast path of compute_vjp_multi
    pshapes = [[] for _ in range(k)]
    if fn == "jvp" and draw(st.integers(0, 2)) == 0:
        pshapes = [list(draw(st.sampled_from([[], [2], [3], [2, 2]]))) for _ in range(k)]
    return {"kind": "contract", "fn": fn, "meas": meas, "k": k, "pshapes": pshapes, "seed": draw(st.integers(0, 2 ** 31)),
            "vec": draw(st.sampled_from(["random", "random", "random", "zero", "onehot", "partial", "ints"])),
            "iface": draw(st.sampled_from(IFACES)), "jac_iface": draw(st.booleans()),
            "container": draw(st.sampled_from(["array", "list", "tuple"])), "num": draw(st.booleans())}


GATES = {"RX": (1, 1), "RY": (1, 1), "RZ": (1, 1), "PhaseShift": (1, 1), "CRX": (1, 2), "CRY": (1, 2), "IsingXX": (1, 2),
         "Hadamard": (0, 1), "CNOT": (0, 2), "S": (0, 1), "CZ": (0, 2)}
_ang = st.floats(-3, 3, allow_nan=False).map(lambda x: round(x, 3))


@st.composite
def _tape(draw):
    n = draw(st.integers(1, 3))
    wires = list(range(n))
    names = sorted(g for g, (_, kk) in GATES.items() if kk <= n)
    ops = []
    for _ in range(draw(st.integers(1, 6))):
        g = draw(st.sampled_from(names))
        npar, kk = GATES[g]
        ops.append({"op": g, "p": [draw(_ang) for _ in range(npar)], "w": list(draw(st.permutations(wires)))[:kk]})
    npar = sum(len(o["p"]) for o in ops)
    meas = []
    for _ in range(draw(st.sampled_from([1, 1, 2, 2, 3]))):
        kind = draw(st.sampled_from(["expval", "expval", "var", "probs"]))
        ws = list(draw(st.permutations(wires)))[:draw(st.integers(1, min(n, 2)))]
        if kind == "probs":
            meas.append({"mp": "probs", "w": ws})
        else:
            letters = [draw(st.sampled_from(["PauliX", "PauliY", "PauliZ"])) for _ in ws]
            obs = {"op": letters[0], "w": [ws[0]]} if len(ws) == 1 else \
                {"op": "prod", "operands": [{"op": L, "w": [w]} for L, w in zip(letters, ws)]}
            meas.append({"mp": kind, "obs": obs})
    tr = draw(st.one_of(st.none(), st.none(), st.lists(st.integers(0, max(npar - 1, 0)), unique=True, max_size=npar).map(sorted)))
    if npar == 0:
        tr = []
    return {"ops": ops, "meas": meas, "trainable": tr,
            "shots": draw(st.sampled_from([None, None, None, 50, [20, 30], [[10, 2]], [5, [10, 2]]])),
            "vec": draw(st.sampled_from(["random", "random", "random", "zero", "onehot", "partial"])),
            "seed": draw(st.integers(0, 2 ** 31))}


@st.composite
def _tapes(draw, tier):
    return {"kind": "tape", "fn": draw(st.sampled_from(["vjp", "jvp"])), "tapes": draw(st.lists(_tape(), min_size=1, max_size=3)),
            "reduction": draw(st.sampled_from(["append", "append", "extend"])), "dev_seed": draw(st.integers(0, 10 ** 6)),
            "tangent_as": draw(st.sampled_from(["array", "list"]))}


def _expr(args, depth=2):
    leaves = [st.just(["arg", a, i]) for a, shp in enumerate(args) for i in (range(shp[0]) if shp else [None])]
    leaf = st.one_of(*leaves)
    if depth == 0:
        return leaf
    sub = _expr(args, depth - 1)
    c = st.sampled_from([-2.0, -0.5, 0.2, 1.5, 3.0])
    return st.one_of(leaf, leaf, st.tuples(st.just("mul"), c, sub).map(list), st.tuples(st.sampled_from(["sin", "cos", "sq"]), sub).map(list),
                     st.tuples(st.sampled_from(["add", "prod"]), sub, sub).map(list))


@st.composite
def _cjac(draw, tier):
    nargs = draw(st.integers(1, 3))
    args = [draw(st.sampled_from([[], [], [2], [3]])) for _ in range(nargs)]
    vals = [[draw(st.floats(-1.5, 1.5, allow_nan=False).map(lambda x: round(x, 3))) for _ in range(shp[0] if shp else 1)] for shp in args]
    gates = []
    for _ in range(draw(st.integers(1, 5))):
        e = draw(st.one_of(_expr(args), _expr(args), _expr(args), st.floats(-2, 2).map(lambda x: ["const", round(x, 2)])))
        gates.append({"gate": draw(st.sampled_from(["RX", "RY", "RZ"])), "wire": draw(st.integers(0, 1)), "expr": e})
    argnum = draw(st.one_of(st.none(), st.integers(0, nargs - 1), st.lists(st.integers(0, nargs - 1), unique=True, min_size=1).map(sorted)))
    return {"kind": "cjac", "iface": draw(st.sampled_from(["autograd", "autograd", "jax", "torch"])), "args": args, "vals": vals,
            "gates": gates, "argnum": argnum}


def strategy(tier):
    return st.integers(0, 19).flatmap(lambda i: _contract(tier) if i < 15 else _tapes(tier) if i < 18 else _cjac(tier))


def enumerate_cases(tier):
    """Finite sub-domain: every (function, #measurements 1-2, shape in {(), (2,)}, #params 1-2) layout with a fixed seed."""
    for fn, m, k in itertools.product(("vjp", "jvp"), (1, 2), (1, 2)):
        for meas in itertools.product(([], [2]), repeat=m):
            for vec in ("random", "zero"):
                yield {"kind": "contract", "fn": fn, "meas": [list(x) for x in meas], "k": k, "pshapes": [[] for _ in range(k)], "seed": 5,
                       "vec": vec, "iface": "numpy", "jac_iface": False, "container": "array", "num": False}


# ------------------------------------------------------------------------------------------------ helpers

def _to_iface(x, iface):
    if iface == "numpy":
        return np.asarray(x)
    if iface == "autograd":
        from pennylane import numpy as pnp
        return pnp.array(x, requires_grad=True)
    if iface == "jax":
        import jax.numpy as jnp
        return jnp.array(x)
    import torch
    return torch.tensor(x)


def _vector(rng, mode, shapes):
    """list of arrays with the given shapes; mode decides the zero pattern"""
    out = [rng.normal(size=tuple(s)) if mode != "ints" else rng.integers(-2, 3, size=tuple(s)).astype(float) for s in shapes]
    if mode == "zero":
        out = [np.zeros(tuple(s)) for s in shapes]
    elif mode == "onehot":
        flat = [np.zeros(int(np.prod(s, dtype=int))) for s in shapes]
        j = int(rng.integers(0, len(flat)))
        flat[j][int(rng.integers(0, len(flat[j])))] = 1.0
        out = [f.reshape(tuple(s)) for f, s in zip(flat, shapes)]
    elif mode == "partial":
        out = [o * (rng.uniform(size=o.shape) < 0.5) for o in out]
    return out


def _cmp(got, exp, what, sig, feats, tol=1e-10):
    g = np.asarray(to_np(got), dtype=float) if not isinstance(got, (tuple, list)) else None
    if g is None:
        raise Viol("structure", f"{what}: expected an array, got {type(got).__name__}", sig=sig + ":structure", features=feats)
    e = np.asarray(exp, dtype=float)
    if g.shape != e.shape:
        raise Viol("shape", f"{what}: result shape {g.shape}, expected {e.shape}", sig=sig + ":shape", features=feats)
    if not close(g, e, tol):
        raise Viol("value", f"{what}: got {g.tolist()} expected {e.tolist()}", sig=sig, features=feats)


# ------------------------------------------------------------------------------------------------ contract kind

def _check_contract(spec):
    import pennylane as qp

    fn, meas, k, pshapes = spec["fn"], spec["meas"], spec["k"], spec["pshapes"]
    m = len(meas)
    rng = np.random.default_rng(spec["seed"])
    # J[i][j] has shape r_i + l_j
    J = [[rng.normal(size=tuple(r) + tuple(l)) for l in pshapes] for r in meas]
    iface = spec["iface"]
    conv_j = (lambda a: _to_iface(a, iface)) if spec["jac_iface"] else (lambda a: a)

    def jac_tree():
        per = [conv_j(row[0]) if k == 1 else tuple(conv_j(a) for a in row) for row in J]
        return per[0] if m == 1 else tuple(per)

    multi = m > 1
    feats = {"fn": fn, "multi": multi, "k": k, "iface": iface, "vec": spec["vec"]}
    labels = ["contract", f"{fn}:{'multi' if multi else 'single'}", f"{fn}:{iface}", f"k={k}", f"vec={spec['vec']}"]
    if fn == "vjp":
        dy = _vector(rng, spec["vec"], meas)
        exp = np.array([sum(float(np.tensordot(dy[i], J[i][j], axes=len(meas[i]))) for i in range(m)) for j in range(k)])
        dyt = [_to_iface(d, iface) for d in dy]
        arg = tuple(dyt) if multi else dyt[0]
        kw = {}
        if spec["num"] and len({tuple(r) for r in meas}) == 1:
            kw["num"] = int(np.prod(meas[0], dtype=int))
        f = qp.gradients.compute_vjp_multi if multi else qp.gradients.compute_vjp_single
        got = f(arg, jac_tree(), **kw)
        _cmp(got, exp, f"{f.__name__} meas={meas} k={k} iface={iface}", f"compute_vjp_{'multi' if multi else 'single'}", feats)
        nontrivial = k >= 2 and any(np.any(d != 0) for d in dy)
    else:
        t = _vector(rng, spec["vec"], pshapes)
        exp = [sum(np.tensordot(J[i][j], t[j], axes=len(pshapes[j])) for j in range(k)) for i in range(m)]
        tensor_params = any(pshapes)
        if spec["container"] == "array" and not tensor_params:
            targ = _to_iface(np.array([float(x) for x in t]), iface)
        else:
            seq = [_to_iface(x, iface) for x in t]
            targ = tuple(seq) if spec["container"] == "tuple" else seq
        f = qp.gradients.compute_jvp_multi if multi else qp.gradients.compute_jvp_single
        got = f(targ, jac_tree())
        sig = f"compute_jvp_{'multi' if multi else 'single'}"
        if multi:
            if not isinstance(got, tuple) or len(got) != m:
                raise Viol("structure", f"{f.__name__}: expected a tuple of {m}, got {type(got).__name__}", sig=sig + ":structure", features=feats)
            for g, e, r in zip(got, exp, meas):
                _cmp(g, e, f"{f.__name__} meas={meas} pshapes={pshapes} iface={iface}", sig, feats)
        else:
            _cmp(got, exp[0], f"{f.__name__} meas={meas} pshapes={pshapes} iface={iface}", sig, feats)
        if tensor_params:
            labels.append("jvp:tensor-params")
        nontrivial = k >= 2 and any(np.any(x != 0) for x in t)
    return Result(nontrivial, labels)


# ------------------------------------------------------------------------------------------------ tape kind

def _copies(shots):
    if shots is None or isinstance(shots, int):
        return None
    n = 0
    for s in shots:
        n += s[1] if isinstance(s, list) else 1
    return n


def _dense(j, m, k):
    """One shot copy of PennyLane's Jacobian pytree -> list over measurements of arrays with shape r + (k,)."""
    per = [j] if m == 1 else list(j)
    if m > 1 and len(per) != m:
        raise Reject("unexpected jacobian layout")
    out = []
    for jm in per:
        cols = [np.asarray(jm, dtype=float)] if k == 1 else [np.asarray(x, dtype=float) for x in jm]
        out.append(np.stack(cols, axis=-1))
    return out


def _check_tape(spec):
    import pennylane as qp

    fn = spec["fn"]
    tapes, vecs, infos = [], [], []
    for ts in spec["tapes"]:
        tape = specs.build_tape({"ops": ts["ops"], "meas": ts["meas"], "shots": ts["shots"]})
        npar = len(tape.get_parameters(trainable_only=False))
        tr = list(range(npar)) if ts["trainable"] is None else [i for i in ts["trainable"] if i < npar]
        tape.trainable_params = tr
        k, m, nc = len(tr), len(tape.measurements), _copies(ts["shots"])
        rshapes = [(2 ** len(mp.wires),) if mp.__class__.__name__ == "ProbabilityMP" else () for mp in tape.measurements]
        rng = np.random.default_rng(ts["seed"])
        if fn == "vjp":
            per_copy = [_vector(rng, ts["vec"], rshapes) for _ in range(nc or 1)]
            tree = [tuple(c) if m > 1 else c[0] for c in per_copy]
            vec = tuple(tree) if nc else tree[0]
            zero = all(not np.any(a) for c in per_copy for a in c)
            raw = per_copy
        else:
            raw = _vector(rng, ts["vec"], [()] * k) if k else []
            vec = np.array([float(x) for x in raw]) if spec["tangent_as"] == "array" else [np.asarray(x) for x in raw]
            zero = all(not np.any(a) for a in raw)
        tapes.append(tape)
        vecs.append(vec)
        infos.append({"k": k, "m": m, "nc": nc, "zero": zero, "raw": raw, "rshapes": rshapes})
    bfn = qp.gradients.batch_vjp if fn == "vjp" else qp.gradients.batch_jvp
    gtapes, proc = bfn(tapes, vecs, qp.gradients.param_shift, reduction=spec["reduction"])
    dev = qp.device("default.qubit", seed=spec["dev_seed"])
    results = dev.execute(gtapes) if len(gtapes) else ()
    try:
        got = proc(results)
    except TypeError as e:
        if fn == "jvp" and spec["reduction"] == "extend" and "0-d" in str(e):
            # list.extend(<0-d array>): a tape whose JVP is a scalar cannot be 'extended'
            raise Viol("unexpected-exception", f"TypeError: {e}", sig="TypeError@jvp.py:processing_fn",
                       features={"fn": "batch_jvp", "reduction": "extend", "scalar": True}) from None
        raise
    # independent bookkeeping + dense contraction
    expected, start = [], 0
    for tape, info in zip(tapes, infos):
        k, m, nc = info["k"], info["m"], info["nc"]
        if k == 0:
            expected.append(("none", None))
            continue
        if info["zero"]:
            if fn == "vjp":
                expected.append(("val", np.zeros(k)))
            else:
                z = [np.zeros(r) for r in info["rshapes"]]
                one = tuple(z) if m > 1 else z[0]
                expected.append(("val", tuple(one for _ in range(nc)) if nc else one))
            continue
        jt, jfn = qp.gradients.param_shift(tape)
        res_t = results[start:start + len(jt)]
        start += len(jt)
        jac = jfn(res_t)
        per_copy = [_dense(jc, m, k) for jc in jac] if nc else [_dense(jac, m, k)]
        if fn == "vjp":
            tot = np.zeros(k)
            for dyc, Jc in zip(info["raw"], per_copy):
                for d, Jm in zip(dyc, Jc):
                    tot = tot + np.tensordot(d, Jm, axes=d.ndim)
            expected.append(("val", tot))
        else:
            tv = np.array([float(x) for x in info["raw"]])
            outs = []
            for Jc in per_copy:
                o = [Jm @ tv for Jm in Jc]
                outs.append(tuple(o) if m > 1 else o[0])
            expected.append(("val", tuple(outs) if nc else outs[0]))
    if start != len(results):
        raise Viol("bookkeeping", f"{len(results)} gradient tapes were generated, the independent count is {start}", sig=f"batch_{fn}:tapes")
    feats = {"fn": "batch_" + fn, "reduction": spec["reduction"]}
    sig = "batch_" + fn

    def cmp_tree(g, e, what, info):
        if isinstance(e, tuple):
            if not isinstance(g, (tuple, list)) or len(g) != len(e):
                raise Viol("structure", f"{what}: expected a tuple of {len(e)}, got {type(g).__name__}"
                                        f"{' of ' + str(len(g)) if isinstance(g, (tuple, list)) else ' shape ' + str(np.shape(g))}",
                           sig=sig + (":zero" if info["zero"] else "") + ":structure",
                           features=dict(feats, zero=info["zero"], partitioned=bool(info["nc"]), multi=info["m"] > 1))
            for a, b in zip(g, e):
                cmp_tree(a, b, what, info)
        else:
            _cmp(g, e, what, sig + (":zero" if info["zero"] else ""),
                 dict(feats, zero=info["zero"], partitioned=bool(info["nc"]), multi=info["m"] > 1))

    if spec["reduction"] == "append":
        if len(got) != len(tapes):
            raise Viol("structure", f"{len(got)} results for {len(tapes)} tapes", sig=sig + ":structure", features=feats)
        for i, (g, (kind, e), info) in enumerate(zip(got, expected, infos)):
            what = f"batch_{fn} tape {i} (m={info['m']}, k={info['k']}, shots={spec['tapes'][i]['shots']}, zero={info['zero']})"
            if kind == "none":
                if g is None:
                    continue
                if fn == "jvp":  # zeros of the output shape are accepted as well (see ASSUMPTIONS)
                    flat = [np.asarray(x, dtype=float) for x in _leaves(g)]
                    if all(not np.any(x) for x in flat):
                        continue
                raise Viol("no-trainable", f"{what}: expected None, got {g}", sig=sig + ":none", features=feats)
            cmp_tree(g, e, what, info)
    else:
        flat_e = []
        for kind, e in expected:
            if kind == "none":
                continue
            flat_e.extend(list(e) if (fn == "vjp" or isinstance(e, tuple)) else [e])
        if fn == "vjp":
            g = np.asarray([float(to_np(x)) for x in got])
            _cmp(g, np.asarray(flat_e, dtype=float), "batch_vjp extend", sig + ":extend", feats)
        # for jvp 'extend' concatenates heterogeneous outputs; only the append layout is specified clearly enough
    nontrivial = any(info["k"] >= 2 and not info["zero"] for info in infos)
    labels = ["tape", "batch_" + fn, f"tapes={len(tapes)}", spec["reduction"]]
    labels += sorted({"shots:" + ("none" if t["shots"] is None else "int" if isinstance(t["shots"], int) else "vector") for t in spec["tapes"]})
    if any(i["zero"] and i["k"] for i in infos):
        labels.append("tape:zero-vector")
    if any(i["k"] == 0 for i in infos):
        labels.append("tape:no-trainable")
    return Result(nontrivial, labels)


def _leaves(x):
    if isinstance(x, (tuple, list)):
        for y in x:
            yield from _leaves(y)
    else:
        yield to_np(x)


# ------------------------------------------------------------------------------------------------ classical jacobian kind

def _ev(e, vals):
    op = e[0]
    if op == "arg":
        return vals[e[1]][e[2] if e[2] is not None else 0]
    if op == "const":
        return e[1]
    if op == "mul":
        return e[1] * _ev(e[2], vals)
    if op == "sin":
        return pymath.sin(_ev(e[1], vals))
    if op == "cos":
        return pymath.cos(_ev(e[1], vals))
    if op == "sq":
        return _ev(e[1], vals) ** 2
    if op == "add":
        return _ev(e[1], vals) + _ev(e[2], vals)
    return _ev(e[1], vals) * _ev(e[2], vals)


def _deps(e):
    if e[0] == "arg":
        return {e[1]}
    if e[0] == "const":
        return set()
    return set().union(*[_deps(x) for x in e[1:] if isinstance(x, list)])


def _build_expr(e, args, qp):
    op = e[0]
    if op == "arg":
        return args[e[1]] if e[2] is None else args[e[1]][e[2]]
    if op == "const":
        return e[1]
    if op == "mul":
        return e[1] * _build_expr(e[2], args, qp)
    if op == "sin":
        return qp.math.sin(_build_expr(e[1], args, qp))
    if op == "cos":
        return qp.math.cos(_build_expr(e[1], args, qp))
    if op == "sq":
        return _build_expr(e[1], args, qp) ** 2
    if op == "add":
        return _build_expr(e[1], args, qp) + _build_expr(e[2], args, qp)
    return _build_expr(e[1], args, qp) * _build_expr(e[2], args, qp)


def _check_cjac(spec):
    import pennylane as qp

    iface, shapes, vals, gates, argnum = spec["iface"], spec["args"], spec["vals"], spec["gates"], spec["argnum"]
    nargs = len(shapes)
    dev = qp.device("default.qubit", wires=2)

    @qp.qnode(dev, interface=iface)
    def circuit(*args):
        for g in gates:
            getattr(qp, g["gate"])(_build_expr(g["expr"], args, qp), wires=g["wire"])
        return qp.expval(qp.Z(0) @ qp.Z(1))

    def conv(v, shp):
        a = np.array(v) if shp else np.array(v[0])
        if iface == "autograd":
            from pennylane import numpy as pnp
            return pnp.array(a, requires_grad=True)
        if iface == "jax":
            import jax.numpy as jnp
            return jnp.array(a)
        import torch
        return torch.tensor(a, requires_grad=True)

    args = [conv(v, s) for v, s in zip(vals, shapes)]
    if argnum is None:
        wrt = [0] if iface == "jax" else list(range(nargs))
    else:
        wrt = [argnum] if isinstance(argnum, int) else list(argnum)
    traced = set(wrt) if iface == "jax" else set(range(nargs))
    rows = [g for g in gates if _deps(g["expr"]) & traced]
    if not rows:
        raise Reject("no gate argument depends on a differentiated QNode argument")
    got = qp.gradients.classical_jacobian(circuit, argnum=argnum)(*args)

    def fd(a):
        cols = []
        n = shapes[a][0] if shapes[a] else 1
        for i in range(n):
            h = 1e-5
            vp = [list(v) for v in vals]
            vm = [list(v) for v in vals]
            vp[a][i] += h
            vm[a][i] -= h
            cols.append([(_ev(g["expr"], vp) - _ev(g["expr"], vm)) / (2 * h) for g in rows])
        M = np.array(cols).T  # rows x n
        return M if shapes[a] else M[:, 0]

    exp = [fd(a) for a in wrt]
    if argnum is None:
        single = iface == "jax" or (iface == "autograd" and nargs == 1)
    else:
        single = isinstance(argnum, int)
    feats = {"fn": "classical_jacobian", "iface": iface, "argnum": "none" if argnum is None else "int" if isinstance(argnum, int) else "seq"}
    sig = f"classical_jacobian:{iface}"
    what = f"classical_jacobian iface={iface} argnum={argnum} args={shapes}"
    if single:
        _cmp(got, exp[0], what, sig, feats, 1e-6)
    else:
        if not isinstance(got, tuple) or len(got) != len(exp):
            raise Viol("structure", f"{what}: expected a tuple of {len(exp)}, got {type(got).__name__}", sig=sig + ":structure", features=feats)
        for g, e in zip(got, exp):
            _cmp(g, e, what, sig, feats, 1e-6)
    labels = ["cjac", f"cjac:{iface}", f"cjac:argnum={feats['argnum']}", f"cjac:args={nargs}"]
    return Result(len(rows) >= 2, labels)


def check(spec):
    return {"contract": _check_contract, "tape": _check_tape, "cjac": _check_cjac}[spec["kind"]](spec)


def selftest():
    assert _ev(["add", ["sq", ["arg", 0, None]], ["mul", 2.0, ["arg", 1, 1]]], [[3.0], [0.0, 0.5]]) == 10.0
    assert _deps(["prod", ["arg", 0, None], ["sin", ["arg", 2, 0]]]) == {0, 2}
    assert _copies([5, [10, 2]]) == 3 and _copies(50) is None
    d = _dense((np.array([1., 2.]), np.array([3., 4.])), 1, 2)
    assert d[0].shape == (2, 2) and d[0][0, 1] == 3.0
