"""C10 — every registered decomposition rule that reports itself applicable implements its operator exactly."""
import numpy as np

from pv.engine import Reject, Result, Viol
from pv.ref import rules as R
from pv.ref import sim, templates

ID = "C10"
TECHNIQUE = ("hypothesis-generated operator instances (zoo leaf under adjoint / pow / controlled wrappers, work wires of both types) "
             "x every rule listed by qp.list_decomps that reports itself applicable; oracle = reference-simulator matrix of the "
             "recorded rule queue vs the operator's matrix (global phase included) with work-wire state bookkeeping")
RULE = (
    "A case is (operator instance, rule selector). The instance is a zoo leaf (named gates, matrix ops, templates, arithmetic "
    "subroutines, state preparations) taken bare, or under Adjoint / Pow (z in 2,3,4,8,9,-1,-2,0,1,5 and fractional z for fixed "
    "gates) / Controlled (1-4 controls, all control-value patterns, 0-3 user work wires of type zeroed or borrowed), or a nested "
    "pair of wrappers; wire labels are ints / strings / mixed in random order. All rules returned by qp.list_decomps(op) (plus the "
    "graph's generic rules for symbolic wrappers around legacy operators) are filtered with rule.is_applicable(**params) and the "
    "selector picks one. The rule is called under an AnnotatedQueue; the recorded operators are multiplied out on the independent "
    "reference simulator over (operator wires + user work wires + dynamically allocated wires). Oracle: with zeroed work wires in "
    "|0> the circuit acts as U (x) I_borrowed (x) |0..0> where U is the operator's matrix (closed-form table for named gates, "
    "structural matrix arithmetic for wrappers, principal-branch matrix power for fractional z), entrywise within 1e-8 including "
    "the global phase; all norm stays in the work-wires-zero block (zeroed wires return to |0>), borrowed wires see the identity for "
    "every input, no operator touches a foreign wire or an allocated wire outside its allocate/deallocate window. Operators "
    "documented on a restricted input domain (TemporaryAND: target |0>; Adjoint(TemporaryAND): image of TemporaryAND; arithmetic "
    "templates: registers below the modulus and work wires |0>; state preparations: |0..0>) are compared on that domain only. "
    "Rules whose queue contains measurements are left to C13. Non-trivial: the rule emits something other than the operator itself."
)
ASSUMPTIONS = [
    "A rule is called exactly as register_resources documents: rule(*op.data, wires=op.wires, **op.hyperparameters) for legacy "
    "operators and rule(**op.arguments) for abstractable operators; applicability is rule.is_applicable(**resource params).",
    "For operators outside the closed-form gate table the operator's own matrix (op.matrix(), or qp.matrix(op) when only the legacy "
    "decomposition defines it; arithmetic templates: the documented classical map) is the specification the rule is compared with.",
    "Matrices of *emitted* operators come from the reference simulator (table / structural) and fall back to op.matrix() for emitted "
    "templates and matrix ops; correctness of those matrices is C02/C03's subject.",
    "Fractional powers: only fixed gates, reference = principal branch with Log(-1) = +i pi (scipy fractional_matrix_power convention).",
    "Instances needing more than MAXW wires in total are rejected (harness size bound).",
]
BUDGET = {"quick": {"examples": 800}, "thorough": {"examples": 160000, "shards": 16}}
MAXW = {"quick": 9, "thorough": 10}
TOL = 1e-8
SHRINK_LISTS = ()


def strategy(tier):
    return R.targets().map(lambda s: {**s, "maxw": MAXW[tier]})


def enumerate_cases(tier):
    per = {"B": 2, "A": 1, "P": 1, "C": 2} if tier == "quick" else {"B": 6, "A": 3, "P": 6, "C": 12, "N": 8}
    yield from R.sweep(per, MAXW[tier])
    # multi-controlled X with every relation between the number of controls k and of work wires m (none, fewer than k-2, exactly
    # k-2, surplus), both work-wire types, all-ones and mixed control values: every applicable rule
    for k in (3, 4):
        for m in (0, 1, k - 2, k - 1, k):
            for wwt in ("zeroed", "borrowed"):
                for cv in ([1] * k, [1, 0] * (k // 2) + [1] * (k % 2)):
                    if m + k + 1 > MAXW[tier]:
                        continue
                    if not m and wwt == "borrowed":
                        continue
                    kw = {"control_values": cv}
                    if m:
                        kw.update(work_wires=[f"w{i}" for i in range(m)], work_wire_type=wwt)
                    t = {"op": "MultiControlledX", "p": [], "w": [f"c{i}" for i in range(k)] + ["t"], "kw": kw}
                    try:
                        n = len(R.applicable_rules(R.build_target(t)))
                    except Exception:  # noqa: BLE001
                        n = 1
                    for r in range(n):
                        yield {"t": t, "r": r, "maxw": MAXW[tier]}


# ---------------------------------------------------------------------------------------------
# reference: operator matrix and documented input domain
# ---------------------------------------------------------------------------------------------

def frac_power(M, z):
    """Principal-branch power of a unitary: sum_k lambda_k^z P_k with arg(lambda) in (-pi, pi], -1 -> +pi."""
    from scipy.linalg import schur

    T, Q = schur(np.asarray(M, dtype=complex), output="complex")
    lam = np.diag(T)
    if np.abs(T - np.diag(lam)).max() > 1e-9:
        raise Reject("fractional power of a non-normal matrix")
    ang = np.angle(lam)
    ang = np.where(np.abs(np.abs(ang) - np.pi) < 1e-9, np.pi, ang)
    return (Q * np.exp(1j * z * ang)) @ Q.conj().T


def ref_matrix(op, leaf=None):
    """Matrix of the target on op.wires (first wire most significant)."""
    name = type(op).__name__
    if name in ("Pow", "Pow2", "PowOperation", "PowObs", "PowOpObs") and not float(op.z).is_integer():
        return sim.embed(frac_power(ref_matrix(op.base, leaf), float(op.z)), list(op.base.wires), list(op.wires))
    if name in ("Adjoint", "Adjoint2", "AdjointOperation", "AdjointOpObs", "AdjointObs"):
        return sim.embed(ref_matrix(op.base, leaf).conj().T, list(op.base.wires), list(op.wires))
    if name in ("Controlled", "ControlledOp", "ControlledOp2", "Controlled2") and hasattr(op, "base"):
        from pv.ref import gates as G

        cw = list(op.control_wires)
        M = G.controlled(ref_matrix(op.base, leaf), len(cw), [int(bool(v)) for v in op.control_values])
        return sim.embed(M, cw + list(op.base.wires), list(op.wires))
    if name in ("Pow", "Pow2", "PowOperation", "PowObs", "PowOpObs"):
        z = int(op.z)
        M = ref_matrix(op.base, leaf)
        if z < 0:
            M, z = M.conj().T, -z
        return sim.embed(np.linalg.matrix_power(M, z), list(op.base.wires), list(op.wires))
    return leaf_matrix(op, leaf)


def _sub(spec):
    o = R.build_target(spec)
    return sim.op_matrix(o), list(o.wires)


def leaf_matrix(op, leaf=None):
    import pennylane as qp

    if leaf is not None and leaf.get("op") not in ("A", "P", "C"):
        W = templates.reference(leaf, list(op.wires), _sub)
        if W is not None:
            return W
    if op.has_matrix:
        return sim.op_matrix(op)
    try:
        return np.asarray(qp.matrix(op, wire_order=list(op.wires)), dtype=complex)
    except Exception as e:  # noqa: BLE001
        raise Reject(f"no matrix reference for {op.name}: {type(e).__name__}") from None


def domain(op, leaf_spec):
    """Isometry D (2^n x m) spanning the documented input domain on op.wires, or None for 'all inputs'."""
    name = type(op).__name__
    n = len(op.wires)
    if name in ("Adjoint", "Adjoint2", "AdjointOperation"):
        D = domain(op.base, leaf_spec)
        if D is None:
            return None
        if list(op.base.wires) != list(op.wires):
            raise Reject("adjoint wire order differs from base")
        return ref_matrix(op.base, leaf_spec) @ D  # image of the base's domain
    if name in ("Controlled", "ControlledOp", "ControlledOp2", "Controlled2") and hasattr(op, "base"):
        D = domain(op.base, leaf_spec)
        if D is None:
            return None
        k = len(op.control_wires)
        full = np.kron(np.eye(2**k), D)  # on control wires + base wires
        order = list(op.control_wires) + list(op.base.wires)
        if order != list(op.wires):
            raise Reject("controlled wire order differs from control+base")
        return full
    if name in ("Pow", "Pow2", "PowOperation"):
        D = domain(op.base, leaf_spec)
        if D is None:
            return None
        raise Reject("power of a restricted-domain operator")
    if name == "TemporaryAND":
        cols = [i for i in range(2**n) if i % 2 == 0]  # target = last wire in |0>
        return np.eye(2**n, dtype=complex)[:, cols]
    W = templates.reference(leaf_spec, list(op.wires), _sub)
    if W is not None:
        # W is a partial isometry: W^dagger W projects onto the documented input domain
        ev, vec = np.linalg.eigh(W.conj().T @ W)
        if np.abs(ev * (1 - ev)).max() > 1e-9:
            raise AssertionError("reference is not a partial isometry")
        if (ev < 0.5).any():
            return vec[:, ev > 0.5]
    return None


def all_work_wires(op):
    """[(wire, type)] for user-supplied work wires anywhere in the wrapper chain."""
    out = []
    o = op
    seen = set()
    while o is not None:
        ww = getattr(o, "work_wires", None)
        if ww is not None and len(ww):
            # controlled operators declare the type; templates without a declared type use their work wires as
            # clean ancillas (|0> in, |0> out) -- the weaker reading, so never a source of false alarms
            t = getattr(o, "work_wire_type", None) or "zeroed"
            for w in ww:
                if w not in op.wires and w not in seen:
                    seen.add(w)
                    out.append((w, t))
        o = getattr(o, "base", None) if hasattr(o, "base") else None
    return out


def simulable(o):
    """Can the reference simulator multiply this operator out without asking PennyLane to decompose it?"""
    name = type(o).__name__
    if name in ("GlobalPhase", "Identity", "Barrier", "Snapshot", "WireCut"):
        return True
    if hasattr(o, "operands"):
        return name in ("Prod", "Sum") and all(simulable(x) for x in o.operands)
    if hasattr(o, "base") and not isinstance(getattr(type(o), "base", None), type(None)) and o.base is not None and name not in ("ControlledSequence",):
        if name in ("Pow", "Pow2", "PowOperation") and not float(o.z).is_integer():
            return bool(o.has_matrix) and simulable(o.base)
        return simulable(o.base)
    return bool(o.has_matrix)


def _culprit(ops):
    """Which emitted operator's matrix() raised? -> (class name, features, detail)"""
    for o in ops:
        try:
            sim.op_matrix(o)
        except Exception as e:  # noqa: BLE001
            b = o
            while getattr(b, "base", None) is not None and type(b).__name__ != "ControlledSequence":
                b = b.base
            feat = {"op": type(b).__name__, "exc": type(e).__name__}
            if type(b).__name__ == "IntegerComparator":
                hp = b.hyperparameters
                feat.update(value_ge_dim=bool(hp["value"] > 2 ** len(hp["control_wires"])), geq=bool(hp["geq"]))
            return type(b).__name__, feat, f"{o} whose matrix raises {type(e).__name__}: {e}"
    return "unknown", {"op": "unknown"}, "an operator whose matrix raises"


def _needs_pl_matrix(o):
    """True when the reference simulator would have to ask PennyLane for this operator's matrix."""
    from pv.ref import gates as G

    name = type(o).__name__
    if hasattr(o, "operands"):
        return any(_needs_pl_matrix(x) for x in o.operands)
    if hasattr(o, "base") and o.base is not None and name != "ControlledSequence":
        return _needs_pl_matrix(o.base)
    return name not in G.FIXED and name not in G.PARAM and name not in (
        "GlobalPhase", "Identity", "MultiRZ", "PauliRot", "PCPhase", "MultiControlledX", "QubitUnitary", "DiagonalQubitUnitary")


class QubitUnitary:  # noqa: D101  (duck-typed stand-in understood by pv.ref.sim.op_matrix)
    def __init__(self, M, wires):
        self.data = [np.asarray(M, dtype=complex)]
        self.wires = list(wires)
        self.hyperparameters = {}
        self.has_matrix = True
        self.has_decomposition = False


def _wraps_leaf(o, leaf_op):
    import pennylane as qp

    while True:
        if type(o) is type(leaf_op):
            try:
                return bool(qp.equal(o, leaf_op))
            except Exception:  # noqa: BLE001
                return False
        if type(o).__name__ in ("Adjoint", "Adjoint2", "AdjointOperation", "Pow", "Pow2", "PowOperation", "Controlled", "ControlledOp",
                                "ControlledOp2") and getattr(o, "base", None) is not None:
            o = o.base
        else:
            return False


def expand(ops, depth=0, force=False, leaf_op=None, leaf=None):
    """Emitted operators the simulator cannot evaluate directly (templates without a matrix, e.g. PhaseAdder whose
    `wires` even omit its work wire, and wrappers around them) are replaced by their own documented decomposition.
    An emitted copy of the target's own leaf operator (pass-through rules such as cancel_adjoint, repeat_pow_base,
    flip_control_adjoint) is evaluated with the *reference* semantics of that leaf, not with PennyLane's."""
    out = []
    for o in ops:
        if leaf_op is not None and _wraps_leaf(o, leaf_op) and not (type(o).__name__.startswith("Pow") and not float(o.z).is_integer()):
            out.append(QubitUnitary(ref_matrix(o, leaf), o.wires))
        elif depth > 12 or (simulable(o) and not (force and _needs_pl_matrix(o) and o.has_decomposition)):
            out.append(o)
        elif o.has_decomposition:
            out.extend(expand(o.decomposition(), depth + 1, force, leaf_op, leaf))
        else:
            # only registry rules define it (e.g. SemiAdder): use its first applicable allocation-free rule
            for r in R.applicable_rules(o):
                sub = R.run_rule(o, r)
                if not sub.allocs and not sub.has_measure:
                    out.extend(expand(sub.ops, depth + 1, force, leaf_op, leaf))
                    break
            else:
                raise Reject(f"emitted {type(o).__name__} has neither matrix, decomposition nor an allocation-free rule")
    return out


# ---------------------------------------------------------------------------------------------

def analyse(spec, tier_maxw=None):
    """Shared front half: build, select rule, run, classify wires. Returns a dict."""
    op, rule, params = R.select(spec)
    run = R.run_rule(op, rule)
    name = R.reg_name(op)
    core = rule.name
    while "(" in core:  # adjoint(controlled(_x)) -> _x : one bucket per underlying rule
        core = core[core.index("(") + 1:core.rindex(")")]
    # class-specific rules: one bucket per (leaf class, underlying rule); generic symbolic rules: one bucket per rule
    sig = f"{R.leaf_of(spec['t'])['op']}:{core}" if core.startswith("_") and core != "_impl" else (
        f"{name}:{rule.name}" if core == "_impl" else f"generic:{core}")
    return {"op": op, "rule": rule, "params": params, "run": run, "name": name, "sig": sig}


def check(spec):
    a = analyse(spec)
    op, rule, run, name, sig = a["op"], a["rule"], a["run"], a["name"], a["sig"]
    form = R.form_of(spec["t"])
    leaf = R.leaf_of(spec["t"])
    feats = {"op": name, "rule": rule.name, "form": form, "leaf": leaf["op"]}
    if run.has_measure:
        raise Reject("measurement-based rule (C13)")
    user = all_work_wires(op)
    from pv.specs import wire as _wire
    lkw = leaf.get("kw", {}) if isinstance(leaf.get("kw"), dict) else {}
    for w in list(leaf.get("ww") or []) + list(lkw.get("work_wires") or []) + list(lkw.get("work_wire") or []):
        w = _wire(w)
        if w not in op.wires and all(w != u for u, _ in user):
            user.append((w, "zeroed"))  # templates document their work wires as |0> in, |0> out
    zero_w = [w for w, t in user if t == "zeroed"]
    any_w = [w for w, t in user if t != "zeroed"]
    for al in run.allocs:
        if not al["restored"]:
            raise Reject(f"allocation kind state={al['state']} restored=False without measurement")
        if al["state"] == "zero":
            zero_w.append(al["label"])
        elif al["state"] == "any":
            any_w.append(al["label"])
        else:
            raise Reject(f"allocation state {al['state']}")
        end = al["end"] if al["freed"] else len(run.ops)  # an allocation that is never released lives to the end
        for i, o in enumerate(run.ops):
            if al["label"] in o.wires and not (al["pos"] <= i < end):
                raise Viol("use-outside-allocation", f"{sig}: {o} touches an allocated wire outside its window", sig=sig, features=feats)
    opw = list(op.wires)
    order = opw + any_w + zero_w
    for o in run.ops:
        for w in o.wires:
            if w not in order:
                raise Viol("foreign-wire", f"{sig}: emitted {o} acts on wire {w!r} outside operator wires {opw} and work wires",
                           sig=sig, features=feats)
    if len(order) > spec.get("maxw", MAXW["quick"]):
        raise Reject("instance larger than the harness wire bound")
    n, nb, nz = len(opw), len(any_w), len(zero_w)
    U = ref_matrix(op, leaf)
    D = domain(op, leaf)
    emitted_matrix_error = False
    leaf_op = R.build_target(leaf) if templates.reference(leaf, list(R.build_target(leaf).wires), _sub) is not None else None
    try:
        V = sim.unitary(expand(run.ops, leaf_op=leaf_op, leaf=leaf), order)
    except Reject:
        raise
    except Exception:  # noqa: BLE001
        # an *emitted* template could not produce its own matrix (not the rule's fault, and not this property's
        # subject): evaluate such templates through their documented decomposition instead
        emitted_matrix_error = _culprit(expand(run.ops, leaf_op=leaf_op, leaf=leaf))
        V = sim.unitary(expand(run.ops, force=True, leaf_op=leaf_op, leaf=leaf), order)
    M = V.reshape(2**n, 2**nb, 2**nz, 2**n, 2**nb, 2**nz)[..., 0]  # zeroed inputs in |0>
    if D is None:
        D = np.eye(2**n, dtype=complex)
        feats["domain"] = "full"
    else:
        feats["domain"] = "restricted"
    got = np.einsum("abzcd,cm->abzmd", M, D)
    UD = U @ D
    exp = np.zeros_like(got)
    for b in range(2**nb):
        exp[:, b, 0, :, b] = UD
    err = float(np.abs(got - exp).max())
    if err > TOL:
        leak = float(np.abs(got[:, :, 1:]).max()) if nz else 0.0
        blk = got[:, :, 0]
        diag_err = max(float(np.abs(blk[:, b, :, b] - UD).max()) for b in range(2**nb))
        off_b = max([float(np.abs(blk[:, b, :, d]).max()) for b in range(2**nb) for d in range(2**nb) if b != d] or [0.0])
        if leak > TOL and diag_err <= TOL and off_b <= TOL:
            clause = "zeroed-work-wire-not-restored"
        elif leak > TOL:
            clause = "zeroed-work-wire-not-restored+matrix"
        elif off_b > TOL and diag_err <= TOL:
            clause = "borrowed-work-wire-disturbed"
        else:
            # same up to a global phase?
            clause = "global-phase" if sim.allclose_phase(got, exp, 1e-7) else "matrix"
        raise Viol(clause, f"{sig} on {op}: max|circuit - U| = {err:.3g} (leak={leak:.2g}, borrowed off-diagonal={off_b:.2g}); "
                           f"emitted {[str(o) for o in run.ops][:12]}", sig=sig, features=feats)
    trivial = len(run.ops) == 1 and type(run.ops[0]) is type(op) and list(run.ops[0].wires) == opw
    labels = [name, sig, "form:" + form, "domain:" + feats["domain"]]
    if nz:
        labels.append("zeroed-work-wires")
    if nb:
        labels.append("borrowed-work-wires")
    if run.allocs:
        labels.append("dynamic-allocation")
    if not run.ops:
        labels.append("empty-decomposition")
    if emitted_matrix_error:
        # the rule itself is fine (checked above through the decomposition of the emitted template); the emitted
        # operator's own matrix() raising is reported as its own bucket
        cname, cfeat, cdetail = emitted_matrix_error
        raise Viol("emitted-op-matrix-raised", f"{sig} emits {cdetail}", sig=f"{cname}.matrix", features=cfeat)
    return Result(not trivial, labels=labels)


def selftest():
    sim.selftest()
    templates.selftest()
    from pv.ref import gates as G

    assert np.allclose(frac_power(G.X, 0.5), G.SX)
    assert np.allclose(frac_power(G.Z, 0.5), G.S)
    assert np.allclose(frac_power(G.Z, -0.5), G.S.conj().T)
    assert np.allclose(frac_power(G.S, 0.5), G.T)
    assert np.allclose(frac_power(G.ISWAP, 0.5), G.SISWAP)
