"""C16 — exact ring arithmetic behind gridsynth (Z[sqrt2], Z[omega], dyadic / SO(3) matrices, norm equation,
primality) against an independent exact model of Q(omega)."""
import math
import random
import signal
from fractions import Fraction

from hypothesis import strategies as st

from pv.engine import Reject, Result, Viol
from pv.ref import zrings as zr

ID = "C16"
TECHNIQUE = "exhaustive small ring elements + hypothesis big-integer elements vs exact Q(omega) polynomial model; " \
            "constructed norm equations; sieve / Miller-Rabin primality oracle"
RULE = (
    "Enumerated in full: all 25 Z[sqrt2] elements with coefficients in {0,+-1,+-2} in all 625 ordered pairs, all 625 "
    "Z[omega] elements with such coefficients (thorough: all ordered pairs), every integer 0..200000 for the "
    "primality test, every residue for every prime < 160 for the modular square root. Generated: elements with "
    "coefficients +-2^k*odd up to 2^200, near-cancelling and small ones; dyadic matrices (entries pre-multiplied by "
    "powers of 2 and sqrt2 so normalisation fires, k in -3..10); Clifford+T words for SO(3); norm equations "
    "xi = t^dagger t built from a random t plus random doubly-positive xi; integers up to 2^64 incl. Carmichael "
    "numbers, prime squares, strong pseudoprimes, semiprimes. Oracle: every operation (+ - * neg pow conj adj2 abs "
    "norm to_omega/to_sqrt_two from_sqrt_pair normalize / // % sqrt, mixed int operands) is compared with exact "
    "polynomial arithmetic modulo w^4+1 (pv.ref.zrings), plus the ring axioms on triples; float()/complex() within "
    "1e-12 relative; x % y must be congruent to +-x modulo y; DyadicMatrix ops vs exact Fraction matrices (value "
    "preserved by normalisation, + @ * conj, ndarray); SO3Matrix is a homomorphism, orthogonal, phase-blind and "
    "equals 1/2 tr(s_i U s_j U^dagger); _solve_diophantine returns None or t with t^dagger t == xi exactly; "
    "_primality_test == oracle; _sqrt_modulo_p squares to n or is None exactly for non-residues; "
    "_prime_factorize / _factorize_prime_zsqrt_two multiply back. Non-trivial: an element with >= 2 non-zero "
    "coefficients is involved (ring cases), a solution was returned (norm equation), composite/prime mix (ranges)."
)
ASSUMPTIONS = [
    "Ring elements are built from Python ints only (the classes also tolerate integral floats; not exercised).",
    "_solve_diophantine is incomplete by design (returns None for solvable xi such as 17); only soundness of returned "
    "solutions is asserted. xi is restricted to doubly-non-negative elements as produced by its only caller.",
    "Norm-equation and factoring instances are kept below ~2^60 so that Pollard rho terminates quickly; the global "
    "`random` state used by _integer_factorize is seeded per call and restored; a 10 s SIGALRM watchdog turns a "
    "non-terminating Euclidean loop into a `nontermination` violation instead of a hung run.",
    "ZOmega.normalize() and % are not called with zero (infinite loop / division by zero, never done by callers).",
    "DyadicMatrix.adj2 is only required to be an involution (its k-odd value semantics are not documented).",
]
BUDGET = {"quick": {"examples": 4000}, "thorough": {"examples": 400000, "shards": 16}}
SHRINK_LISTS = ("word", "word2", "ns")

SMALL = (0, 1, -1, 2, -2)


# =============================================================================================== strategies
def _coef(bits):
    big = st.tuples(st.integers(0, bits), st.integers(-50, 50).map(lambda m: 2 * m + 1), st.sampled_from([1, -1])) \
        .map(lambda t: t[2] * (2 ** t[0]) * t[1])
    near = st.tuples(st.integers(30, bits), st.integers(-3, 3)).map(lambda t: 2 ** t[0] + t[1])
    return st.one_of(st.sampled_from(SMALL), st.integers(-9, 9), st.integers(-2**64, 2**64), big, near,
                     st.just(0))


def _elem(n, bits):
    return st.lists(_coef(bits), min_size=n, max_size=n)


def _ring_case(kind, n, bits):
    return st.fixed_dictionaries({
        "kind": st.just(kind),
        "x": _elem(n, bits), "y": _elem(n, bits), "z": _elem(n, bits),
        "n": st.one_of(st.integers(-12, 12), st.sampled_from([2, -2, 3, 7, 2**70 + 1, -(2**33)])),
        "e": st.integers(0, 5),
    })


def _dy_mat():
    ent = st.lists(st.one_of(st.sampled_from(SMALL), st.integers(-6, 6), st.integers(-2**40, 2**40)), min_size=4,
                   max_size=4)
    sparse = st.lists(st.sampled_from((0, 0, 0, 1, -1)), min_size=4, max_size=4)
    return st.fixed_dictionaries({
        "entries": st.lists(st.one_of(ent, sparse), min_size=4, max_size=4),
        "pow2": st.integers(0, 3), "sqrt2": st.integers(0, 3), "k": st.integers(-3, 10),
    })


def _word(mx):
    return st.lists(st.sampled_from(list("HTHTHTHTSXYZW")), min_size=0, max_size=mx)


def strategy(tier):
    bits = 200
    tb = 10 if tier == "quick" else 14
    tcoef = st.one_of(st.integers(-4, 4), st.integers(-2**tb, 2**tb))
    normeq = st.one_of(
        st.fixed_dictionaries({"kind": st.just("normeq"), "t": st.lists(tcoef, min_size=4, max_size=4)}),
        st.fixed_dictionaries({"kind": st.just("normeq-xi"), "b": st.integers(-2**tb, 2**tb),
                               "extra": st.integers(0, 2**tb)}),
    )
    special = [561, 1105, 1729, 2465, 2821, 6601, 8911, 2047, 3277, 4033, 4681, 8321, 3215031751, 341550071728321,
               3825123056546413051, 2**61 - 1, 2**64 - 59, 2**32 + 15, 2**31 - 1,
               (2**31 - 1) ** 2, 4294967291 * 4294967279, 97 * 97, 101 * 103, 25, 49, 121, 0, 1, 2, 3, 4]
    nums = st.one_of(st.sampled_from(special), st.integers(0, 2**64), st.integers(0, 2**20),
                     st.integers(0, 2**32).map(lambda m: 2 * m + 1),
                     st.tuples(st.integers(2, 2**16), st.integers(2, 2**16)).map(lambda t: t[0] * t[1]))
    prime = st.fixed_dictionaries({"kind": st.just("prime"), "ns": st.lists(nums, min_size=1, max_size=12)})
    sqrtmod = st.fixed_dictionaries({"kind": st.just("sqrtmod"), "seedp": st.integers(3, 2**40),
                                     "ns": st.lists(st.integers(-2**41, 2**41), min_size=1, max_size=8)})
    factor = st.fixed_dictionaries({"kind": st.just("factor"), "n": st.one_of(
        st.integers(0, 2**20), st.integers(0, 2**32),
        st.lists(st.sampled_from([2, 3, 5, 7, 11, 13, 17, 23, 31, 41, 47, 73, 97, 127, 8191, 65537]), min_size=1,
                 max_size=6).map(math.prod))})
    dyadic = st.fixed_dictionaries({"kind": st.just("dyadic"), "A": _dy_mat(), "B": _dy_mat(), "C": _dy_mat(),
                                    "n": st.integers(-5, 5), "s": st.lists(st.integers(-4, 4), min_size=4, max_size=4),
                                    "m": st.integers(-3, 4)})
    so3 = st.fixed_dictionaries({"kind": st.just("so3"), "word": _word(24), "word2": _word(10)})
    return st.one_of(_ring_case("zs2", 2, bits), _ring_case("zs2", 2, bits), _ring_case("zw", 4, bits),
                     _ring_case("zw", 4, bits), _ring_case("zw", 4, bits), dyadic, dyadic, so3, normeq, normeq,
                     prime, sqrtmod, factor)


STRONG_PSEUDOPRIMES = [
    2047, 3277, 4033, 4681, 8321, 15841, 29341, 42799, 49141, 52633, 65281, 74665, 80581, 85489, 88357, 90751,
    1373653, 1530787, 1987021, 2284453, 3116107, 5173601, 6787327, 11541307, 13694761, 15978007, 16070429, 16879501,
    25326001, 27509653, 27664033, 28527049, 54029741, 61832377, 66096253, 74927161, 80375707, 95452781,
    161304001, 960946321, 1157839381, 3215031751, 3697278427, 5764643587, 6770862367, 14386156093, 15579919981,
    18459366157, 19887974881, 21276028621, 118670087467, 307768373641, 315962312077, 354864744877,
    2152302898747, 3474749660383, 341550071728321, 3825123056546413051,
    # Carmichael numbers and neighbours of the usual range thresholds
    561, 1105, 1729, 2465, 2821, 6601, 8911, 41041, 825265, 321197185, 5394826801, 232250619601, 9746347772161,
    2046, 2048, 1373652, 1373654, 25326000, 25326002, 3215031750, 3215031752, 4759123141, 1122004669633,
    4294967295, 4294967297, 18446744073709551557, 18446744073709551556,
]


def enumerate_cases(tier):
    els2 = [[a, b] for a in SMALL for b in SMALL]
    for i, x in enumerate(els2):
        for j, y in enumerate(els2):
            yield {"kind": "zs2", "x": x, "y": y, "z": els2[(7 * i + 3 * j + 1) % 25], "n": (i + j) % 7 - 3, "e": (i + j) % 5}
    els4 = [[a, b, c, d] for a in SMALL for b in SMALL for c in SMALL for d in SMALL]
    if tier == "thorough":
        for i, x in enumerate(els4):
            for j, y in enumerate(els4):
                yield {"kind": "zw", "x": x, "y": y, "z": els4[(211 * i + 17 * j + 5) % 625], "n": (i + j) % 7 - 3,
                       "e": (i + j) % 4}
    else:
        for i, x in enumerate(els4):
            yield {"kind": "zw", "x": x, "y": els4[(211 * i + 77) % 625], "z": els4[(17 * i + 5) % 625],
                   "n": i % 7 - 3, "e": i % 5}
    for lo in range(0, 200000, 4000):
        yield {"kind": "prime-range", "lo": lo, "hi": lo + 4000}
    yield {"kind": "prime-range", "lo": 200000, "hi": 200001}
    # composites that pass Miller-Rabin for small base sets (strong pseudoprimes to {2}, {2,3}, {2,3,5}, {2,3,5,7}, ...):
    # a slip in the base table / range thresholds of a deterministic Miller-Rabin shows up exactly here
    for i in range(0, len(STRONG_PSEUDOPRIMES), 12):
        yield {"kind": "prime", "ns": STRONG_PSEUDOPRIMES[i:i + 12]}
    yield {"kind": "sqrtmod-small", "pmax": 160}


# =============================================================================================== helpers
_TRIPS = [0]
WATCHDOG_S = 10
MAX_TRIPS = 2


class _Watchdog:
    """SIGALRM guard around calls that contain unbounded Euclidean / Pollard / normalisation loops. A call that does
    not return within WATCHDOG_S seconds becomes a `nontermination` violation; after MAX_TRIPS such events in one
    process further guarded calls are reported the same way without being started (otherwise a broken ring operation
    would stall the whole survey for hours)."""

    def __init__(self, what):
        self.what = what

    def _fire(self, signum, frame):
        raise TimeoutError()

    def __enter__(self):
        if _TRIPS[0] >= MAX_TRIPS:
            raise Viol("nontermination", f"{self.what}: skipped, {MAX_TRIPS} guarded calls already timed out in this run",
                       sig="watchdog")
        try:
            self.old = signal.signal(signal.SIGALRM, self._fire)
            signal.alarm(WATCHDOG_S)
            self.armed = True
        except ValueError:  # not in the main thread
            self.armed = False

    def __exit__(self, etype, exc, tb):
        if self.armed:
            signal.alarm(0)
            signal.signal(signal.SIGALRM, self.old)
        if etype is TimeoutError:
            _TRIPS[0] += 1
            raise Viol("nontermination", f"{self.what} did not return within {WATCHDOG_S} s", sig="watchdog") from None
        return False


def _seeded(fn, *args, seed=12345, **kw):
    """run fn with a fixed state of the global `random` module (used by Pollard rho) and restore it"""
    state = random.getstate()
    random.seed(seed)
    try:
        with _Watchdog(f"{fn.__name__}{args!r}"):
            return fn(*args, **kw)
    finally:
        random.setstate(state)


def _clear_caches():
    from pennylane.ops.op_math.decompositions import norm_solver as ns

    for name in ("_prime_factorize", "_integer_factorize"):
        f = getattr(ns, name, None)
        if hasattr(f, "cache_clear"):
            f.cache_clear()


def _t2(x):
    """ZSqrtTwo -> model element"""
    if type(x.a) is not int or type(x.b) is not int:
        raise Viol("coefficient-type", f"non-int coefficients in {x!r}: {type(x.a).__name__}")
    return zr.from_zsqrt2(x.a, x.b)


def _t4(x):
    for c in (x.a, x.b, x.c, x.d):
        if type(c) is not int:
            raise Viol("coefficient-type", f"non-int coefficients in {x!r}: {type(c).__name__}")
    return zr.from_zomega(x.a, x.b, x.c, x.d)


def _nnz(v):
    return sum(1 for c in v if c != 0)


class _Checker:
    def __init__(self, kind, ctx):
        self.kind = kind
        self.ctx = ctx
        self.deferred = None

    def eq(self, clause, got, exp, what):
        if tuple(got) != tuple(exp):
            raise Viol(clause, f"{what}: got {tuple(got)}, exact {tuple(exp)} [{self.ctx}]", sig=f"{self.kind}:{clause}",
                       features={"kind": self.kind})

    def true(self, clause, cond, what):
        if not cond:
            raise Viol(clause, f"{what} [{self.ctx}]", sig=f"{self.kind}:{clause}", features={"kind": self.kind})

    def defer(self, clause, cond, what, sig=None, **features):
        if not cond and self.deferred is None:
            self.deferred = Viol(clause, f"{what} [{self.ctx}]", sig=f"{self.kind}:{sig or clause}",
                                 features={"kind": self.kind, **features})


# =============================================================================================== Z[sqrt2]
def _check_zs2(spec):
    from pennylane.ops.op_math.decompositions.rings import ZOmega, ZSqrtTwo

    xs, ys, zs, n, e = spec["x"], spec["y"], spec["z"], spec["n"], spec["e"]
    x, y, z = ZSqrtTwo(*xs), ZSqrtTwo(*ys), ZSqrtTwo(*zs)
    mx, my, mz = zr.from_zsqrt2(*xs), zr.from_zsqrt2(*ys), zr.from_zsqrt2(*zs)
    ck = _Checker("zs2", f"x={xs} y={ys} z={zs} n={n} e={e}")
    T = _t2
    ck.eq("add", T(x + y), zr.add(mx, my), "x+y")
    ck.eq("sub", T(x - y), zr.sub(mx, my), "x-y")
    ck.eq("mul", T(x * y), zr.mul(mx, my), "x*y")
    ck.eq("neg", T(-x), zr.neg(mx), "-x")
    ck.eq("pow", T(x**e), zr.power(mx, e), f"x**{e}")
    ck.eq("adj2", T(x.adj2()), zr.adj2(mx), "adj2(x)")
    ck.eq("conj", T(x.conj()), zr.conj(mx), "conj(x)")
    ck.eq("int-ops", T(x + n), zr.add(mx, (n, 0, 0, 0)), "x+n")
    ck.eq("int-ops", T(n + x), zr.add(mx, (n, 0, 0, 0)), "n+x")
    ck.eq("int-ops", T(x - n), zr.sub(mx, (n, 0, 0, 0)), "x-n")
    ck.eq("int-ops", T(n - x), zr.sub((n, 0, 0, 0), mx), "n-x")
    ck.eq("int-ops", T(x * n), zr.scale(mx, n), "x*n")
    ck.eq("int-ops", T(n * x), zr.scale(mx, n), "n*x")
    ck.true("eq", (x == y) == (xs == ys) and (x == n) == (xs == [n, 0]) and x == ZSqrtTwo(*xs), "== disagrees")
    ck.eq("flatten", x.flatten, xs, "flatten")
    # norm: abs(x) = x * adj2(x) = a^2 - 2 b^2, multiplicative
    nx = zr.mul(mx, zr.adj2(mx))
    ck.true("abs", abs(x) == nx[0] and nx[1:] == (0, 0, 0) and type(abs(x)) is int, f"abs(x) = {abs(x)} vs {nx[0]}")
    ck.true("norm-multiplicative", abs(x * y) == abs(x) * abs(y), f"abs(xy)={abs(x * y)} abs(x)abs(y)={abs(x) * abs(y)}")
    # axioms on the implementation itself
    ck.true("associative", (x + y) + z == x + (y + z) and (x * y) * z == x * (y * z), "associativity")
    ck.true("commutative", x + y == y + x and x * y == y * x, "commutativity")
    ck.true("distributive", x * (y + z) == x * y + x * z and (y + z) * x == y * x + z * x, "distributivity")
    ck.true("identities", x + ZSqrtTwo(0, 0) == x and x * ZSqrtTwo(1, 0) == x and x + (-x) == ZSqrtTwo(0, 0)
            and (x * ZSqrtTwo(0, 0)) == 0, "0/1/negation")
    ck.true("adj2-homomorphism", (x * y).adj2() == x.adj2() * y.adj2() and (x + y).adj2() == x.adj2() + y.adj2()
            and x.adj2().adj2() == x, "adj2 is not an involutive homomorphism")
    # float value
    fx = float(x)
    exact = zr.to_complex(mx).real
    ck.true("float", abs(fx - exact) <= 1e-12 * max(1.0, zr.size(mx)), f"float(x) = {fx!r} vs {exact!r}")
    # embedding into Z[omega]
    ck.eq("to_omega", _t4(x.to_omega()), mx, "x.to_omega()")
    ck.true("to_omega", (x * y).to_omega() == x.to_omega() * y.to_omega() and isinstance(x.to_omega(), ZOmega)
            and x.to_omega().to_sqrt_two() == x, "to_omega is not an embedding / round trip fails")
    # exact division
    if ys != [0, 0]:
        ck.eq("truediv", T((x * y) / y), mx, "(x*y)/y")
        r = x % y
        mr = T(r)
        ck.true("mod-congruence", zr.divides(my, zr.sub(mx, mr)) or zr.divides(my, zr.add(mx, mr)),
                f"x % y = {r!r} is not congruent to +-x modulo y")
        ck.eq("mod-multiple", T((x * y) % y), zr.ZERO, "(x*y) % y")
    if n != 0:
        ck.eq("truediv", T((x * n) / n), mx, "(x*n)/n")
        ck.eq("divmod-int", T((x // n) * n + (x % n)), mx, "(x//n)*n + x%n")
        rm = x % n
        ck.true("divmod-int", all((0 <= c < n) if n > 0 else (n < c <= 0) for c in (rm.a, rm.b)), f"x % n = {rm!r}")
    # square roots
    sq = x * x
    s = sq.sqrt()
    ck.true("sqrt", s is not None and s * s == sq, f"(x*x).sqrt() = {s!r}")
    try:
        s2 = y.sqrt()
    except ValueError as err:  # documented return type is `ZSqrtTwo | None`
        ck.defer("sqrt-raises", False, f"y.sqrt() raised ValueError({err}) instead of returning None", negative_a=ys[0] < 0)
    else:
        ck.true("sqrt", s2 is None or s2 * s2 == y, f"y.sqrt() = {s2!r} does not square to y")
    return ck, max(_nnz(xs), _nnz(ys)) >= 2, ["zs2", "zs2-big" if max(map(abs, xs + ys)) > 2**53 else "zs2-small"]


# =============================================================================================== Z[omega]
def _check_zw(spec):
    from pennylane.ops.op_math.decompositions.rings import ZOmega, ZSqrtTwo

    xs, ys, zs, n, e = spec["x"], spec["y"], spec["z"], spec["n"], spec["e"]
    x, y, z = ZOmega(*xs), ZOmega(*ys), ZOmega(*zs)
    mx, my, mz = zr.from_zomega(*xs), zr.from_zomega(*ys), zr.from_zomega(*zs)
    ck = _Checker("zw", f"x={xs} y={ys} z={zs} n={n} e={e}")
    T = _t4
    ck.eq("add", T(x + y), zr.add(mx, my), "x+y")
    ck.eq("sub", T(x - y), zr.sub(mx, my), "x-y")
    ck.eq("mul", T(x * y), zr.mul(mx, my), "x*y")
    ck.eq("neg", T(-x), zr.neg(mx), "-x")
    ck.eq("pow", T(x**e), zr.power(mx, e), f"x**{e}")
    ck.eq("conj", T(x.conj()), zr.conj(mx), "conj(x)")
    ck.eq("adj2", T(x.adj2()), zr.adj2(mx), "adj2(x)")
    ck.eq("int-ops", T(x + n), zr.add(mx, (n, 0, 0, 0)), "x+n")
    ck.eq("int-ops", T(n + x), zr.add(mx, (n, 0, 0, 0)), "n+x")
    ck.eq("int-ops", T(x - n), zr.sub(mx, (n, 0, 0, 0)), "x-n")
    ck.eq("int-ops", T(n - x), zr.sub((n, 0, 0, 0), mx), "n-x")
    ck.eq("int-ops", T(x * n), zr.scale(mx, n), "x*n")
    ck.eq("int-ops", T(n * x), zr.scale(mx, n), "n*x")
    ck.true("eq", (x == y) == (xs == ys) and (x == n) == (xs == [0, 0, 0, n]) and x == ZOmega(*xs), "== disagrees")
    ck.eq("flatten", x.flatten, xs, "flatten")
    # norms
    nrm = x.norm()
    ck.eq("norm", T(nrm), zr.mul(mx, zr.conj(mx)), "x.norm() = x conj(x)")
    ck.true("norm", zr.as_zsqrt2(T(nrm)) == tuple(nrm.to_sqrt_two().flatten), "norm().to_sqrt_two() changes the value")
    ck.true("norm-multiplicative", (x * y).norm() == x.norm() * y.norm() and abs(x * y) == abs(x) * abs(y),
            "norm(xy) != norm(x) norm(y)")
    ck.true("abs", abs(x) == zr.field_norm(mx) and type(abs(x)) is int, f"abs(x) = {abs(x)} vs field norm "
            f"{zr.field_norm(mx)}")
    ck.true("abs", abs(x) == abs(x.norm().to_sqrt_two()), "abs(x) != abs of its Z[sqrt2] norm")
    # axioms
    ck.true("associative", (x + y) + z == x + (y + z) and (x * y) * z == x * (y * z), "associativity")
    ck.true("commutative", x + y == y + x and x * y == y * x, "commutativity")
    ck.true("distributive", x * (y + z) == x * y + x * z and (y + z) * x == y * x + z * x, "distributivity")
    ck.true("identities", x + ZOmega() == x and x * ZOmega(d=1) == x and x + (-x) == ZOmega() and (x * ZOmega()) == 0,
            "0/1/negation")
    for nm, f in (("conj", lambda v: v.conj()), ("adj2", lambda v: v.adj2())):
        ck.true(nm + "-homomorphism", f(x * y) == f(x) * f(y) and f(x + y) == f(x) + f(y) and f(f(x)) == x,
                f"{nm} is not an involutive homomorphism")
    ck.true("conj-adj2-commute", x.conj().adj2() == x.adj2().conj(), "conj and adj2 do not commute")
    # complex value
    cx = complex(x)
    exact = zr.to_complex(mx)
    ck.true("complex", abs(cx - exact) <= 1e-12 * max(1.0, zr.size(mx)), f"complex(x) = {cx!r} vs {exact!r}")
    # Z[sqrt2] sub-ring
    real = zr.as_zsqrt2(mx)
    try:
        back = x.to_sqrt_two()
    except ValueError:
        ck.true("to_sqrt_two", real is None, "to_sqrt_two rejected an element of Z[sqrt2]")
    else:
        ck.true("to_sqrt_two", real is not None and isinstance(back, ZSqrtTwo) and (back.a, back.b) == real,
                f"to_sqrt_two() = {back!r} for x not in Z[sqrt2] / wrong value")
    # alpha + i beta + shift
    al, be = ZSqrtTwo(xs[0], xs[1]), ZSqrtTwo(xs[2], xs[3])
    fsp = ZOmega.from_sqrt_pair(al, be, y)
    ck.eq("from_sqrt_pair", T(fsp), zr.add(zr.add(zr.from_zsqrt2(xs[0], xs[1]), zr.mul(zr.IMAG, zr.from_zsqrt2(xs[2], xs[3]))), my),
          "from_sqrt_pair(alpha, beta, shift)")
    # normalisation: x = res * sqrt2^ix, res not divisible by sqrt2
    if any(xs):
        with _Watchdog(f"ZOmega{tuple(xs)}.normalize()"):
            res, ix = x.normalize()
        ck.eq("normalize", zr.mul(T(res), zr.power(zr.SQRT2, ix)), mx, f"normalize() = ({res!r}, {ix}) changes the value")
        ck.true("normalize", ix >= 0 and not zr.divides(zr.SQRT2, T(res)), f"normalize() = ({res!r}, {ix}) still divisible by sqrt2")
        ck.true("parity", x.parity() in (0, 1), "parity")
    # division by integers
    if n != 0:
        ck.eq("divmod-int", T((x // n) * n), tuple(c - c % n for c in mx), "(x//n)*n")
        q = (x * n) / n
        big = max(map(abs, xs)) * abs(n) > 2**52
        ck.defer("truediv-exact", isinstance(q, ZOmega) and all(type(c) is int for c in q.flatten) and T(q) == mx,
                 f"(x*n)/n = {q!r} != x (exact ring division)", big=big)
    # Euclidean remainder
    if any(ys):
        with _Watchdog(f"ZOmega{tuple(xs)} % ZOmega{tuple(ys)}"):
            r = x % y
        mr = T(r)
        ck.true("mod-congruence", zr.divides(my, zr.sub(mx, mr)) or zr.divides(my, zr.add(mx, mr)),
                f"x % y = {r!r} is not congruent to +-x modulo y")
        ck.eq("mod-multiple", T((x * y) % y), zr.ZERO, "(x*y) % y")
    return ck, max(_nnz(xs), _nnz(ys)) >= 2, ["zw", "zw-big" if max(map(abs, xs + ys)) > 2**53 else "zw-small"]


# =============================================================================================== matrices
def _build_dyadic(d):
    """spec -> (SUT constructor args as model elements, k). Entries are pre-multiplied by 2^pow2 * sqrt2^sqrt2."""
    factor = zr.mul(zr.power((2, 0, 0, 0), d["pow2"]), zr.power(zr.SQRT2, d["sqrt2"]))
    ents = [zr.mul(zr.from_zomega(*e), factor) for e in d["entries"]]
    return ents, d["k"]


def _sut_dyadic(ents, k):
    from pennylane.ops.op_math.decompositions.rings import DyadicMatrix, ZOmega

    zs = [ZOmega(e[3], e[2], e[1], e[0]) for e in ents]
    return DyadicMatrix(*zs, k=k)


def _value(M):
    """exact value of a SUT DyadicMatrix from its attributes"""
    return zr.mat_scale(tuple(_t4(e) for e in (M.a, M.b, M.c, M.d)), zr.sqrt2_power(M.k))


def _check_dyadic(spec):
    import numpy as np

    from pennylane.ops.op_math.decompositions.rings import DyadicMatrix, ZOmega

    ck = _Checker("dyadic", f"A={spec['A']} B={spec['B']} n={spec['n']} s={spec['s']} m={spec['m']}")
    mats, vals = [], []
    for key in ("A", "B", "C"):
        ents, k = _build_dyadic(spec[key])
        val = zr.mat_scale(tuple(ents), zr.sqrt2_power(k))
        M = _sut_dyadic(ents, k)
        ck.true("normalize-value", zr.mat_eq(_value(M), val), f"{key}: constructor/normalize changed the value: {M!r}")
        ck.true("k-type", type(M.k) is int, f"k = {M.k!r}")
        # scaling entries by 2 and k by 2 is the same matrix
        M2 = _sut_dyadic([zr.scale(e, 2) for e in ents], k + 2)
        ck.true("normal-form", M2 == M, f"{key}: (2*entries, k+2) normalises to {M2!r}, (entries, k) to {M!r}")
        mats.append(M)
        vals.append(val)
    A, B, C = mats
    vA, vB, vC = vals
    n = spec["n"]
    s = ZOmega(*spec["s"])
    ms = zr.from_zomega(*spec["s"])
    ck.true("neg", zr.mat_eq(_value(-A), zr.mat_map(vA, zr.neg)), "-A")
    ck.true("add", zr.mat_eq(_value(A + B), zr.mat_add(vA, vB)), f"A+B = {A + B!r}")
    ck.true("add", zr.mat_eq(_value(B + A), zr.mat_add(vA, vB)), f"B+A = {B + A!r}")
    ck.true("matmul", zr.mat_eq(_value(A @ B), zr.mat_mul(vA, vB)), f"A@B = {A @ B!r}")
    ck.true("matmul", zr.mat_eq(_value((A @ B) @ C), zr.mat_mul(zr.mat_mul(vA, vB), vC)), "(A@B)@C")
    # the axioms, observed through the class's own results: values must agree exactly; whether `==` also says so
    # depends on the normal form being canonical (reported separately, it is not for k <= 0)
    for nm, L, Rr in (("associative-matmul", (A @ B) @ C, A @ (B @ C)), ("associative-add", (A + B) + C, A + (B + C)),
                      ("distributive", A @ (B + C), A @ B + A @ C), ("commutative-add", A + B, B + A)):
        ck.true(nm, zr.mat_eq(_value(L), _value(Rr)), f"{nm}: {L!r} vs {Rr!r}")
        ck.defer("eq-noncanonical", L == Rr, f"{nm}: both sides have the same exact value but `==` is False: "
                 f"{L!r} vs {Rr!r}", sig="eq-noncanonical:k<=0" if min(L.k, Rr.k) <= 0 else "eq-noncanonical:k>0",
                 k_nonpositive=min(L.k, Rr.k) <= 0)
    ck.true("scalar", zr.mat_eq(_value(A * n), zr.mat_scale(vA, (n, 0, 0, 0))), f"A*{n} = {A * n!r}")
    ck.true("scalar", zr.mat_eq(_value(A * s), zr.mat_scale(vA, ms)), f"A*{s!r} = {A * s!r}")
    ck.true("conj", zr.mat_eq(_value(A.conj()), zr.mat_map(vA, zr.conj)), f"conj(A) = {A.conj()!r}")
    ck.true("adj2", A.adj2().adj2() == A, "adj2 is not an involution")
    ck.true("eq", not (A == B) or zr.mat_eq(vA, vB), "A == B although the values differ")
    ck.true("eq", A == _sut_dyadic(*_build_dyadic(spec["A"])), "rebuilding A from the same data is not == A")
    ck.true("flatten", [e for e in A.flatten] == [A.a, A.b, A.c, A.d], "flatten")
    nd = np.asarray(A.ndarray)
    ref = np.array(zr.mat_complex(vA))
    ck.true("ndarray", nd.shape == (2, 2) and np.all(np.abs(nd - ref) <= 1e-9 * max(1.0, float(np.abs(ref).max()))),
            f"ndarray {nd.tolist()} vs {ref.tolist()}")
    m = spec["m"]
    R = A.mult2k(m)
    expect = zr.mat_scale(vA, zr.power((2, 0, 0, 0), m) if m >= 0 else zr.power((Fraction(1, 2), 0, 0, 0), -m))
    ck.defer("mult2k", isinstance(R, DyadicMatrix) and zr.mat_eq(_value(R), expect),
             f"A.mult2k({m}) = {R!r} is not 2^{m} * A = {A!r}", m=m)
    nz = sum(1 for e in spec["A"]["entries"] if any(e))
    lab = ["dyadic", "dyadic-normalised" if (spec["A"]["pow2"] or spec["A"]["sqrt2"]) else "dyadic-plain",
           "dyadic-k-odd-diff" if (A.k - B.k) % 2 else "dyadic-k-even-diff"]
    return ck, nz >= 2, lab


_GENS = {
    "H": ([(1, 0, 0, 0), (1, 0, 0, 0), (1, 0, 0, 0), (-1, 0, 0, 0)], 1),
    "T": ([zr.ONE, zr.ZERO, zr.ZERO, zr.OMEGA], 0),
    "S": ([zr.ONE, zr.ZERO, zr.ZERO, zr.IMAG], 0),
    "X": ([zr.ZERO, zr.ONE, zr.ONE, zr.ZERO], 0),
    "Y": ([zr.ZERO, zr.neg(zr.IMAG), zr.IMAG, zr.ZERO], 0),
    "Z": ([zr.ONE, zr.ZERO, zr.ZERO, (-1, 0, 0, 0)], 0),
    "W": ([zr.OMEGA, zr.ZERO, zr.ZERO, zr.OMEGA], 0),
}


def _word_matrix(word):
    ident = ([zr.ONE, zr.ZERO, zr.ZERO, zr.ONE], 0)
    M = _sut_dyadic(*ident)
    val = tuple(ident[0])
    for g in word:
        ents, k = _GENS[g]
        M = M @ _sut_dyadic(ents, k)
        val = zr.mat_mul(val, zr.mat_scale(tuple(ents), zr.sqrt2_power(k)))
    return M, val


def _so3_numeric(val):
    import numpy as np

    u = np.array(zr.mat_complex(val))
    P = [np.array([[0, 1], [1, 0]], dtype=complex), np.array([[0, -1j], [1j, 0]]), np.array([[1, 0], [0, -1]], dtype=complex)]
    return np.array([[0.5 * np.trace(P[i] @ u @ P[j] @ u.conj().T).real for j in range(3)] for i in range(3)])


def _check_so3(spec):
    import numpy as np

    from pennylane.ops.op_math.decompositions.rings import SO3Matrix, ZOmega

    ck = _Checker("so3", f"word={''.join(spec['word'])} word2={''.join(spec['word2'])}")
    U, vU = _word_matrix(spec["word"])
    V, vV = _word_matrix(spec["word2"])
    ck.true("dyadic-word", zr.mat_eq(_value(U), vU), f"product of generators has value {U!r}")
    ck.true("unitary", zr.mat_eq(zr.mat_mul(vU, tuple(zr.conj(vU[i]) for i in (0, 2, 1, 3))),
                                 (zr.ONE, zr.ZERO, zr.ZERO, zr.ONE)), "reference word is not unitary (harness)")
    RU, RV = SO3Matrix(U), SO3Matrix(V)
    num = _so3_numeric(vU)
    nd = np.asarray(RU.ndarray)
    ck.true("so3-value", nd.shape == (3, 3) and np.all(np.abs(nd - num) <= 1e-9), f"SO3Matrix(U).ndarray = "
            f"{np.round(nd, 6).tolist()} vs 1/2 tr(s_i U s_j U^+) = {np.round(num, 6).tolist()}")
    # exact orthogonality from the integer entries: sum_k R_ik R_jk = delta_ij 2^k
    ents = [zr.from_zsqrt2(e.a, e.b) for e in RU.flatten]
    for i in range(3):
        for j in range(3):
            acc = zr.ZERO
            for k in range(3):
                acc = zr.add(acc, zr.mul(ents[3 * i + k], ents[3 * j + k]))
            want = zr.power(zr.SQRT2, 2 * RU.k) if i == j else zr.ZERO
            ck.true("so3-orthogonal", RU.k >= 0 and acc == want, f"row {i}.row {j} = {acc}, k={RU.k}")
    prod = RU @ RV
    ck.true("so3-homomorphism", prod == SO3Matrix(U @ V), f"SO3(U)@SO3(V) = {prod} (k={prod.k}) vs SO3(U@V) = "
            f"{SO3Matrix(U @ V)} (k={SO3Matrix(U @ V).k})")
    pn = np.asarray(prod.ndarray)
    ck.true("so3-homomorphism", np.all(np.abs(pn - num @ _so3_numeric(vV)) <= 1e-9), "numeric product differs")
    ck.true("so3-phase-blind", SO3Matrix(U * ZOmega(c=1)) == RU and SO3Matrix(-U) == RU, "SO3(w U) != SO3(U)")
    pv = np.asarray(RU.parity_vec)
    pm = np.asarray(RU.parity_mat)
    ck.true("so3-parity", pm.shape == (3, 3) and [int(v) for v in pv] == [int(v) for v in pm.sum(axis=1)]
            and all(int(pm[i][j]) == RU.flatten[3 * i + j].a % 2 for i in range(3) for j in range(3)), "parity")
    nt = spec["word"].count("T") >= 1 and "H" in spec["word"]
    return ck, nt, ["so3", f"so3-k={min(RU.k, 6)}"]


# =============================================================================================== number theory
def _check_normeq(spec):
    from pennylane.ops.op_math.decompositions.norm_solver import _solve_diophantine
    from pennylane.ops.op_math.decompositions.rings import ZOmega, ZSqrtTwo

    if spec["kind"] == "normeq":
        mt = zr.from_zomega(*spec["t"])
        xi = zr.as_zsqrt2(zr.mul(mt, zr.conj(mt)))
        assert xi is not None
        ctx = f"t={spec['t']} xi={xi}"
        lab = "normeq-constructed"
    else:
        b = spec["b"]
        a = math.isqrt(2 * b * b) + 1 + spec["extra"]  # a > |b| sqrt2  <=> xi and adj2(xi) positive
        xi = (a, b)
        ctx = f"xi={xi}"
        lab = "normeq-random-xi"
    ck = _Checker("normeq", ctx)
    _clear_caches()
    sol = _seeded(_solve_diophantine, ZSqrtTwo(*xi))
    if sol is None:
        return ck, False, [lab, "normeq-none"]
    ck.true("solution-type", isinstance(sol, ZOmega), f"returned {sol!r}")
    ms = _t4(sol)
    got = zr.mul(ms, zr.conj(ms))
    ck.true("solution", got == zr.from_zsqrt2(*xi), f"returned t = {sol!r} has t^dagger t = {zr.as_zsqrt2(got) or got}, "
            f"not xi = {xi}")
    return ck, True, [lab, "normeq-solved"]


def _check_prime(spec):
    from pennylane.ops.op_math.decompositions.norm_solver import _primality_test

    if spec["kind"] == "prime-range":
        lo, hi = spec["lo"], spec["hi"]
        flags = zr.sieve(hi)
        ck = _Checker("prime", f"range {lo}..{hi}")
        for n in range(lo, hi):
            got = _primality_test(n)
            ck.true("primality", bool(got) == flags[n], f"_primality_test({n}) = {got}, sieve says {flags[n]}")
        return ck, True, ["prime-range"]
    ck = _Checker("prime", f"ns={spec['ns']}")
    kinds = set()
    for n in spec["ns"]:
        exp = zr.is_prime(n)
        got = _primality_test(n)
        ck.true("primality", bool(got) == exp, f"_primality_test({n}) = {got}, oracle says {exp}")
        kinds.add("prime" if exp else "composite")
    return ck, len(kinds) == 2 or max(spec["ns"]) > 2**32, ["prime-random"] + sorted("is-" + k for k in kinds)


def _check_sqrtmod(spec):
    from pennylane.ops.op_math.decompositions.norm_solver import _sqrt_modulo_p

    if spec["kind"] == "sqrtmod-small":
        ck = _Checker("sqrtmod", "all primes < pmax, all residues")
        flags = zr.sieve(spec["pmax"])
        for p in (q for q in range(2, spec["pmax"]) if flags[q]):
            squares = {(v * v) % p for v in range(p)}
            for n in range(-p, 2 * p + 1):
                r = _sqrt_modulo_p(n, p)
                if n % p in squares:
                    ck.true("sqrt-mod-p", r is not None and 0 <= r < p and (r * r - n) % p == 0,
                            f"_sqrt_modulo_p({n}, {p}) = {r}")
                else:
                    ck.true("sqrt-mod-p", r is None, f"_sqrt_modulo_p({n}, {p}) = {r} for a non-residue")
        return ck, True, ["sqrtmod-exhaustive"]
    p = spec["seedp"] | 1
    while not zr.is_prime(p):
        p += 2
    ck = _Checker("sqrtmod", f"p={p} ns={spec['ns']}")
    for n in spec["ns"] + [v * v for v in spec["ns"][:3]] + [-1, 2, -2]:
        with _Watchdog(f"_sqrt_modulo_p({n}, {p})"):
            r = _sqrt_modulo_p(n, p)
        residue = n % p == 0 or pow(n % p, (p - 1) // 2, p) == 1  # Euler's criterion
        if residue:
            ck.true("sqrt-mod-p", r is not None and 0 <= r < p and (r * r - n) % p == 0, f"_sqrt_modulo_p({n}, {p}) = {r}")
        else:
            ck.true("sqrt-mod-p", r is None, f"_sqrt_modulo_p({n}, {p}) = {r} for a non-residue")
    return ck, True, ["sqrtmod-random", f"sqrtmod-p%8={p % 8}"]


def _check_factor(spec):
    from pennylane.ops.op_math.decompositions.norm_solver import _factorize_prime_zsqrt_two, _prime_factorize

    n = spec["n"]
    ck = _Checker("factor", f"n={n}")
    exp = zr.factorize_trial(n) if n > 1 else []
    if max(exp, default=0) > 2**40:
        raise Reject("factor too large for the trial-division oracle")
    _clear_caches()
    got_all = _seeded(_prime_factorize, n, 1000, False)
    ck.true("prime-factorize", got_all is not None and list(got_all) == exp, f"_prime_factorize({n}, z_sqrt_two=False) = "
            f"{got_all}, expected {exp}")
    _clear_caches()
    got = _seeded(_prime_factorize, n)
    if any(p % 8 == 7 for p in exp):
        ck.true("prime-factorize", got is None, f"_prime_factorize({n}) = {got} although a prime factor is 7 mod 8")
    else:
        ck.true("prime-factorize", got is not None and list(got) == exp, f"_prime_factorize({n}) = {got}, expected {exp}")
    for p in sorted(set(exp))[:4]:
        with _Watchdog(f"_factorize_prime_zsqrt_two({p})"):
            fs = _factorize_prime_zsqrt_two(p)
        ck.true("prime-in-zsqrt2", fs is not None and 1 <= len(fs) <= 2, f"_factorize_prime_zsqrt_two({p}) = {fs}")
        prod = zr.ONE
        for f in fs:
            prod = zr.mul(prod, _t2(f))
            ck.true("prime-in-zsqrt2", abs(zr.field_norm(_t2(f))) != 1, f"factor {f!r} of {p} is a unit")
        ck.true("prime-in-zsqrt2", prod in ((p, 0, 0, 0), (-p, 0, 0, 0)), f"factors {fs} of {p} multiply to {prod}")
        ck.true("prime-in-zsqrt2", (len(fs) == 1) == (p % 8 in (3, 5)), f"{p} = {p % 8} mod 8 has {len(fs)} factors")
    return ck, len(exp) >= 2, ["factor", "factor-none" if got is None else "factor-ok"]


_DISPATCH = {"zs2": _check_zs2, "zw": _check_zw, "dyadic": _check_dyadic, "so3": _check_so3, "normeq": _check_normeq,
             "normeq-xi": _check_normeq, "prime": _check_prime, "prime-range": _check_prime, "sqrtmod": _check_sqrtmod,
             "sqrtmod-small": _check_sqrtmod, "factor": _check_factor}


def check(spec):
    ck, nontrivial, labels = _DISPATCH[spec["kind"]](spec)
    if ck.deferred is not None:
        raise ck.deferred
    return Result(nontrivial=nontrivial, labels=labels)


def selftest():
    zr.selftest()
    # generators are unitary in the model
    for g, (ents, k) in _GENS.items():
        v = zr.mat_scale(tuple(ents), zr.sqrt2_power(k))
        dag = tuple(zr.conj(v[i]) for i in (0, 2, 1, 3))
        assert zr.mat_eq(zr.mat_mul(v, dag), (zr.ONE, zr.ZERO, zr.ZERO, zr.ONE)), g
