"""C36 — finite_diff_coeffs has the stated accuracy (exhaustive, exact rational moment conditions)."""
from fractions import Fraction
from math import factorial

from hypothesis import strategies as st

from pv.engine import Reject, Result, Viol

ID = "C36"
TECHNIQUE = "exhaustive (n, approx_order, strategy) grid vs exact rational moment conditions and Lagrange-basis reference"
RULE = (
    "Enumerated in full: n in 1..4, approx_order in 1..6, strategy in forward/backward/center (72 combinations; "
    "center with odd approx_order raises the documented ValueError = rejected, 12 cases). Oracle on the returned "
    "floats converted to Fractions: (a) moment conditions sum_i c_i s_i^d = n! [d = n] for every d < n + approx_order "
    "(<=> every polynomial of degree < n + approx_order is differentiated exactly), tolerance 1e-9 * sum|c_i s_i^d|; "
    "(b) each c_i equals n! * [x^n] L_i(x) of the exact Lagrange basis polynomial on the returned shifts (1e-7 rel); "
    "(c) shifts are distinct integers on the documented side (forward >= 0, backward <= 0, center symmetric), "
    "sorted by |shift| with the unshifted term first (finite_diff relies on it), shape (2, N). "
    "Additionally every monomial x^d, d < n + approx_order, is differentiated at x0 in {0, 3/7} with step h = 1/4 in "
    "exact arithmetic. Non-trivial: at least 3 sample points."
)
ASSUMPTIONS = [
    "Domain is the documented one: positive int n and approx_order, even approx_order for 'center'.",
    "Coefficients are float64 results of a Vandermonde solve (condition number up to 9e10 for the 10-point forward "
    "stencil, observed coefficient round-off up to 1.0e-9 relative): moments are tested to 1e-9 of their absolute "
    "term sum, single coefficients to 1e-7 relative; a wrong formula misses by >= 1e-3.",
]
BUDGET = {"quick": {"examples": 0, "min_nontrivial": 40}, "thorough": {"examples": 0, "min_nontrivial": 40}}
EXHAUSTIVE = True
TOL = Fraction(1, 10**9)
COEFF_TOL = Fraction(1, 10**7)


def strategy(tier):
    return st.sampled_from(list(enumerate_cases(tier)))


def enumerate_cases(tier):
    for n in range(1, 5):
        for ao in range(1, 7):
            for s in ("forward", "backward", "center"):
                yield {"n": n, "approx_order": ao, "strategy": s}


def _polymul(p, q):
    out = [Fraction(0)] * (len(p) + len(q) - 1)
    for i, a in enumerate(p):
        for j, b in enumerate(q):
            out[i + j] += a * b
    return out


def lagrange_coeffs(shifts, n):
    """Exact weights c_i = d^n/dx^n L_i(x) at 0 for the Lagrange basis on the integer nodes `shifts`."""
    out = []
    for i, si in enumerate(shifts):
        poly = [Fraction(1)]
        for j, sj in enumerate(shifts):
            if j != i:
                poly = _polymul(poly, [Fraction(-sj, si - sj), Fraction(1, si - sj)])
        out.append(factorial(n) * poly[n] if n < len(poly) else Fraction(0))
    return out


def check(spec):
    import numpy as np

    from pennylane.gradients import finite_diff_coeffs

    n, ao, strat = spec["n"], spec["approx_order"], spec["strategy"]
    feats = {"n": n, "approx_order": ao, "strategy": strat}
    try:
        res = finite_diff_coeffs(n=n, approx_order=ao, strategy=strat)
    except ValueError as e:
        if strat == "center" and ao % 2 == 1 and "even order" in str(e):
            raise Reject("center with odd approx_order (documented ValueError)")
        raise Viol("valid-input-rejected", f"{spec}: ValueError {e}", sig=strat, features=feats)
    res = np.asarray(res)
    if res.ndim != 2 or res.shape[0] != 2 or res.shape[1] < 2:
        raise Viol("shape", f"{spec}: shape {res.shape}", sig=strat, features=feats)
    coeffs = [Fraction(float(c)) for c in res[0]]
    shifts_f = [float(s) for s in res[1]]
    if any(s != int(s) for s in shifts_f):
        raise Viol("shifts-integer", f"{spec}: shifts {shifts_f}", sig=strat, features=feats)
    shifts = [int(s) for s in shifts_f]
    if len(set(shifts)) != len(shifts):
        raise Viol("shifts-distinct", f"{spec}: shifts {shifts}", sig=strat, features=feats)
    if strat == "forward" and any(s < 0 for s in shifts) or strat == "backward" and any(s > 0 for s in shifts):
        raise Viol("shifts-side", f"{spec}: shifts {shifts}", sig=strat, features=feats)
    if strat == "center" and sorted(shifts) != sorted(-s for s in shifts):
        raise Viol("shifts-side", f"{spec}: center shifts {shifts} not symmetric", sig=strat, features=feats)
    if [abs(s) for s in shifts] != sorted(abs(s) for s in shifts):
        raise Viol("shift-order", f"{spec}: shifts {shifts} not ascending in |shift|", sig=strat, features=feats)
    if 0 in shifts and shifts[0] != 0:
        raise Viol("shift-order", f"{spec}: unshifted term is not first: {shifts}", sig=strat, features=feats)

    degree_bound = n + ao
    # (a) moment conditions
    for d in range(degree_bound):
        terms = [c * Fraction(s) ** d for c, s in zip(coeffs, shifts)]
        total = sum(terms)
        target = factorial(n) if d == n else 0
        scale = max(Fraction(1), sum(abs(t) for t in terms))
        if abs(total - target) > TOL * scale:
            raise Viol("moment", f"{spec}: sum c_i s_i^{d} = {float(total)!r}, expected {target}; coeffs "
                       f"{[float(c) for c in coeffs]} shifts {shifts}", sig=strat, features=feats)
    # (b) exact coefficients on the returned nodes: weights that are exact for all degrees < len(nodes) are unique,
    # so whenever len(nodes) <= n + approx_order the returned weights must be the Lagrange weights
    if n < len(shifts) <= degree_bound:
        exact = lagrange_coeffs(shifts, n)
        for c, e, s in zip(coeffs, exact, shifts):
            if abs(c - e) > COEFF_TOL * max(1, abs(e)):
                raise Viol("coefficient", f"{spec}: coefficient at shift {s} is {float(c)!r}, exact {e}",
                           sig=strat, features=feats)
    # (c) differentiate monomials at other points with a step size, exactly as finite_diff combines the terms
    h = Fraction(1, 4)
    for x0 in (Fraction(0), Fraction(3, 7)):
        for d in range(degree_bound):
            approx = sum(c * (x0 + s * h) ** d for c, s in zip(coeffs, shifts)) / h**n
            exact_d = Fraction(factorial(d), factorial(d - n)) * x0 ** (d - n) if d >= n else Fraction(0)
            scale = max(Fraction(1), sum(abs(c * (x0 + s * h) ** d) for c, s in zip(coeffs, shifts)) / h**n)
            if abs(approx - exact_d) > TOL * scale:
                raise Viol("polynomial", f"{spec}: d^{n}/dx^{n} x^{d} at {x0}: {float(approx)!r} vs {float(exact_d)!r}",
                           sig=strat, features=feats)
    return Result(nontrivial=len(shifts) >= 3, labels=[strat, f"n={n}", f"points={len(shifts)}"])


def selftest():
    # reference weights reproduce the textbook stencils and satisfy the moment conditions exactly
    assert lagrange_coeffs([0, 1], 1) == [-1, 1]
    assert lagrange_coeffs([-1, 1], 1) == [Fraction(-1, 2), Fraction(1, 2)]
    assert lagrange_coeffs([0, -1, 1], 2) == [-2, 1, 1]
    assert lagrange_coeffs([0, 1, 2], 1) == [Fraction(-3, 2), 2, Fraction(-1, 2)]
    nodes = [0, 1, 2, 3, 4, 5]
    for n in (1, 2, 3):
        w = lagrange_coeffs(nodes, n)
        for d in range(len(nodes)):
            assert sum(c * Fraction(s) ** d for c, s in zip(w, nodes)) == (factorial(n) if d == n else 0)
