"""C05 — result caching never changes results."""
import numpy as np
from hypothesis import strategies as st

from pv import gen, specs
from pv.cmp import close, maxdiff, to_np
from pv.engine import Result, Viol
from pv.ref import sim

ID = "C05"
TECHNIQUE = "hypothesis-generated batches of near-duplicate circuits and cache-reuse histories; differential oracle cache off vs on (third opinion: independent simulator)"
RULE = (
    "A base circuit (1-4 wires, depth<=6, measurements incl. state/density_matrix/expval/var/probs) plus 1-5 confusable variants: one "
    "parameter shifted by +-2pi/+-4pi, rounded/perturbed at the 11th-12th decimal, wires of one op permuted, an op wrapped in "
    "adjoint / pow / ctrl (several nestings) or re-parametrised inside the wrapper, different trainable indices, exact duplicates. "
    "History: 1-3 qp.execute calls sharing one user-supplied dict cache, interleaved with fresh batches. Oracle: results of "
    "qp.execute(batch, default.qubit, cache=False) == cache=True == shared-cache execution elementwise at 1e-9 (perturbations "
    "<=1e-11 compared at 1e-8); the independent simulator says which side is wrong. Non-trivial: batch has two circuits with equal "
    "tape.hash but different specs, or a shared cache reused across >=2 executions."
)
ASSUMPTIONS = ["Analytic execution only (shots=None), default.qubit; fractional powers are not generated."]
BUDGET = {"quick": {"examples": 500}, "thorough": {"examples": 30000, "shards": 16}}
SHRINK_LISTS = ("variants", "ops", "meas")
PI = np.pi


@st.composite
def _variant(draw, base_ops, wires):
    ops = [dict(o) for o in base_ops]
    kind = draw(st.sampled_from(["shift", "shift", "round", "permute", "wrap", "wrap", "dup", "wrap_shift", "wrap_shift"]))
    idxs = [i for i, o in enumerate(ops) if o.get("p") and all(isinstance(x, (int, float)) for x in o["p"])]
    deep = [i for i, o in enumerate(ops) if _leaf(o).get("p") and all(isinstance(x, (int, float)) for x in _leaf(o)["p"])]
    if kind in ("shift", "round") and deep:
        i = draw(st.sampled_from(deep))
        j = draw(st.integers(0, len(_leaf(ops[i])["p"]) - 1))
        d = draw(st.sampled_from([2 * PI, -2 * PI, 4 * PI, -4 * PI])) if kind == "shift" else draw(st.sampled_from([1e-11, -1e-12, 3e-12]))
        ops[i] = _shift_leaf(ops[i], j, d)
    elif kind == "permute":
        idx2 = [i for i, o in enumerate(ops) if len(o.get("w", [])) >= 2]
        if idx2:
            i = draw(st.sampled_from(idx2))
            ops[i] = {**ops[i], "w": list(reversed(ops[i]["w"]))}
    elif kind in ("wrap", "wrap_shift") and idxs:
        i = draw(st.sampled_from(idxs))
        inner = ops[i]
        if kind == "wrap_shift":
            p = list(inner["p"])
            p[0] = p[0] + draw(st.sampled_from([2 * PI, -2 * PI, 4 * PI]))
            inner = {**inner, "p": p}
        ops[i] = _wrap(draw, inner, wires)
    return ops


def _leaf(o):
    return _leaf(o["base"]) if "base" in o else o


def _shift_leaf(o, j, d):
    if "base" in o:
        return {**o, "base": _shift_leaf(o["base"], j, d)}
    p = list(o["p"])
    p[j] = p[j] + d
    return {**o, "p": p}


def _wrap(draw, inner, wires):
    w = draw(st.sampled_from(["adjoint", "pow", "ctrl", "ctrl_adjoint", "adjoint_ctrl", "pow_ctrl"]))
    free = [x for x in wires if x not in inner["w"]]
    def ctrl(b):
        if not free:
            return {"op": "adjoint", "base": {"op": "adjoint", "base": b}}
        return {"op": "ctrl", "base": b, "cw": [free[0]], "cv": [1]}
    if w == "adjoint":
        return {"op": "adjoint", "base": inner}
    if w == "pow":
        return {"op": "pow", "base": inner, "z": draw(st.sampled_from([2, 3, -1]))}
    if w == "ctrl":
        return ctrl(inner)
    if w == "ctrl_adjoint":
        return ctrl({"op": "adjoint", "base": inner})
    if w == "adjoint_ctrl":
        return {"op": "adjoint", "base": ctrl(inner)}
    return ctrl({"op": "pow", "base": inner, "z": draw(st.sampled_from([2, 3]))})


@st.composite
def _case(draw):
    n = draw(st.integers(1, 4))
    wires = draw(gen.wire_labels(n))
    pool = {k: gen.ALL_GATES[k] for k in ("RX", "RY", "RZ", "PhaseShift", "Rot", "U1", "U2", "U3", "CRX", "CRY", "CRZ", "CRot",
                                          "Hadamard", "CNOT", "IsingXX", "IsingZZ", "ControlledPhaseShift", "SingleExcitation",
                                          "PSWAP", "S", "PauliX") if gen.ALL_GATES[k][1] <= n}
    base = [{"op": "Hadamard", "p": [], "w": [w]} for w in wires] + draw(gen.op_list(wires, pool, 6, ang=gen.generic_angles(), p_derive=0.1))
    # make sure wrapped variants exist for the same op inside the base too
    if draw(st.booleans()):
        idxs = [i for i, o in enumerate(base) if o.get("p")]
        if idxs:
            i = draw(st.sampled_from(idxs))
            base[i] = _wrap(draw, base[i], wires)
    variants = [draw(_variant(_unwrapped(base), wires) if draw(st.booleans()) else _variant(base, wires)) for _ in range(draw(st.integers(1, 5)))]
    meas = draw(st.lists(gen.analytic_measurement(wires, with_state=True), min_size=1, max_size=3))
    n_exec = draw(st.integers(1, 3))
    plan = [list(draw(st.permutations(list(range(len(variants) + 1)))))]
    plan += [draw(st.lists(st.integers(0, len(variants)), min_size=1, max_size=4)) for _ in range(n_exec - 1)]
    if draw(st.booleans()) and not any(m["mp"] == "state" for m in meas):
        meas.append({"mp": "state"})
    # derived tapes: tape.copy(...) of an earlier circuit *after* its hash has been computed / it has been executed
    derived = []
    for _ in range(draw(st.integers(0, 2))):
        kw = draw(st.sampled_from(["shots_from_finite", "trainable", "meas", "shots_same"]))
        d = {"copy_of": draw(st.integers(0, len(variants))), "kind": kw, "prehash": draw(st.booleans())}
        if kw == "meas":
            d["meas"] = draw(st.lists(gen.analytic_measurement(wires, with_state=True), min_size=1, max_size=2))
        if kw == "trainable":
            d["trainable"] = draw(st.lists(st.integers(0, 3), max_size=2, unique=True))
        derived.append(d)
    return {"wires": wires, "base": base, "variants": variants, "meas": meas, "plan": plan, "derived": derived}


def _unwrapped(ops):
    return ops


def strategy(tier):
    return _case()


def enumerate_cases(tier):
    """Circuits that differ only in their measurement's wire partition / wire order (hash confusion between measurements, not gates):
    the copy with the other measurement is executed in the same batch and against the shared cache."""
    base = [{"op": "Hadamard", "p": [], "w": [0]}, {"op": "RY", "p": [0.7], "w": [1]}, {"op": "CNOT", "p": [], "w": [0, 1]}, {"op": "CRX", "p": [1.1], "w": [1, 2]},
            {"op": "RX", "p": [0.4], "w": [2]}]
    pairs = [({"mp": "mutual_info", "w0": [0], "w1": [1, 2]}, {"mp": "mutual_info", "w0": [0, 1], "w1": [2]}),
             ({"mp": "mutual_info", "w0": [0], "w1": [1]}, {"mp": "mutual_info", "w0": [0], "w1": [2]}),
             ({"mp": "probs", "w": [0, 1]}, {"mp": "probs", "w": [1, 0]}),
             ({"mp": "density_matrix", "w": [0, 2]}, {"mp": "density_matrix", "w": [2, 0]}),
             ({"mp": "vn_entropy", "w": [0]}, {"mp": "vn_entropy", "w": [0, 1]}),
             ({"mp": "purity", "w": [1]}, {"mp": "purity", "w": [1, 2]}),
             ({"mp": "expval", "obs": {"op": "prod", "operands": [{"op": "PauliX", "w": [0]}, {"op": "PauliZ", "w": [1]}]}},
              {"mp": "expval", "obs": {"op": "prod", "operands": [{"op": "PauliZ", "w": [0]}, {"op": "PauliX", "w": [1]}]}})]
    for m1, m2 in pairs:
        for prehash in (True, False):
            yield {"wires": [0, 1, 2], "base": base, "variants": [], "meas": [m1], "plan": [[0]],
                   "derived": [{"copy_of": 0, "kind": "meas", "prehash": prehash, "meas": [m2]}]}


def _flat(r):
    out = []
    def rec(x):
        if isinstance(x, (tuple, list)):
            for y in x:
                rec(y)
        else:
            out.append(np.asarray(to_np(x)))
    rec(r)
    return out


def check(spec):
    import pennylane as qp

    circuits = [spec["base"]] + list(spec["variants"])
    tapes = [specs.build_tape({"ops": ops, "meas": spec["meas"]}) for ops in circuits]
    order = [specs.wire(w) for w in spec["wires"]]
    dev = qp.device("default.qubit", wires=order)
    hashes = [t.hash for t in tapes]
    canon = [repr(c) for c in circuits]
    confusable = any(hashes[i] == hashes[j] and canon[i] != canon[j] for i in range(len(tapes)) for j in range(i))
    shared = {}
    n_shared_exec = 0
    # derived copies (see _case): the source tape's hash is computed / the source is executed first, then copied
    for d in spec.get("derived", []):
        if d["copy_of"] >= len(tapes):
            continue
        src = tapes[d["copy_of"]]
        if d["kind"] == "shots_from_finite":
            src = src.copy(shots=37)
            if d["prehash"]:
                _ = src.hash
                try:
                    qp.execute([src], dev, cache=shared)
                except qp.exceptions.DeviceError:
                    pass   # state / density_matrix cannot be sampled: only the hash was pre-computed
            new = src.copy(shots=None)
        elif d["kind"] == "shots_same":
            if d["prehash"]:
                _ = src.hash
            new = src.copy(shots=None)
        elif d["kind"] == "meas":
            if d["prehash"]:
                _ = src.hash
            new = src.copy(measurements=specs.build_tape({"ops": [], "meas": d["meas"]}).measurements)
        else:
            if d["prehash"]:
                _ = src.hash
            npar = len(src.get_parameters(trainable_only=False))
            new = src.copy(trainable_params=[i for i in d["trainable"] if i < npar])
        tapes.append(new)
        circuits.append({"derived": d})
        spec_plan_extra = len(tapes) - 1
        spec["plan"] = list(spec["plan"]) + [[d["copy_of"], spec_plan_extra]]
    for step, idxs in enumerate(spec["plan"]):
        batch = [tapes[i] for i in idxs if i < len(tapes)]
        if not batch:
            continue
        plain = qp.execute(batch, dev, cache=False)
        cached = qp.execute(batch, dev, cache=True)
        via_shared = qp.execute(batch, dev, cache=shared)
        n_shared_exec += 1
        for k, t in enumerate(batch):
            a = _flat(plain[k])
            for label, other in (("cache=True", cached), ("shared-cache", via_shared)):
                b = _flat(other[k])
                for x, y in zip(a, b):
                    if not close(y, x, 1e-8):
                        ref = sim.run_tape(t, order)
                        side = "uncached agrees with reference" if all(close(u, v, 1e-7) for u, v in zip(a, _flat(ref))) else "uncached DISAGREES with reference"
                        ops_k = circuits[[i for i in idxs if i < len(tapes)][k]]
                        leaf = _first_param_leaf(ops_k) if isinstance(ops_k, list) else None  # noqa: F841
                        raise Viol("cached-result-differs",
                                   f"{label} step={step} pos={k} diff={maxdiff(y, x)} ({side}); circuit={ops_k} meas={spec['meas']}",
                                   sig=label, features={"mode": label})
    return Result(confusable or n_shared_exec >= 2, labels=["confusable" if confusable else "distinct-hashes", f"execs={n_shared_exec}"])


def _first_param_leaf(ops):
    for o in ops:
        if o.get("p"):
            return o["op"]
    return None


def selftest():
    sim.selftest()
