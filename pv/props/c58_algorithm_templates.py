"""C58 — block-encoding, oracle and algorithm templates implement their documented operators."""
from math import ceil, log2

import numpy as np
from hypothesis import strategies as st

from pv.engine import Reject, Result, Viol
from pv.ref import flatten as F
from pv.ref import gates as G
from pv.ref import sim

ID = "C58"
TECHNIQUE = ("hypothesis-generated inputs per template (gate lists, data tables, Pauli Hamiltonians, matrices, polynomials, wire "
             "layouts); reference operators built directly in numpy from the docstring formulas; compared with an independent "
             "simulation of the fully recursive decomposition (and the template's matrix where defined)")
RULE = (
    "Per template a random instance on <= 8 wires with int/str labels in random order: Select (2-4 random gate products, extra "
    "control wires, unary-iterator work wires, partial=True), QROM (bit tables, extra address wires, 0-4 work wires, clean / not "
    "clean, dirty work wires), QFT, AQFT (all orders), Permute, FlipSign (int / bit list), Reflection (random U, alpha, reflection "
    "sub-register), GroverOperator (work wires), AmplitudeAmplification (plain: operator (R O)^k; fixed point: Yoder-Low-Chuang "
    "success probability), ControlledSequence, QuantumPhaseEstimation (matrix and operator unitaries; closed-form QPE amplitudes from "
    "the eigen-decomposition), QuantumMonteCarlo (estimation-wire distribution = QPE kernel at +-theta, cos(pi theta) = 1 - 2 mu), "
    "Qubitization / PrepSelPrep (block <0|.|0> = H / sum|c|, walk-operator eigenphases +-arccos(E/lambda)), QSVT (real part of the "
    "block = poly(A) for qp.poly_to_angles angles; matrix == decomposition), GQSP (block = poly(U)), BlockEncode (documented block "
    "matrix incl. normalisation and rectangular A), FABLE (tol=0: 2^n * block = A), CommutingEvolution (exp(-iHt)), TrotterProduct "
    "(documented recursion S_m, n steps, grouped operands) and ApproxTimeEvolution (adjoint first-order product; exact for commuting "
    "terms). Oracle: every route (op.decomposition(), each applicable registered rule without mid-circuit measurements, expanded "
    "recursively to table gates and simulated with pv.ref.sim; op.matrix()/qp.matrix where the template defines a matrix) equals "
    "the reference on the documented input domain (zeroed work wires and targets where the docstring requires them), work wires "
    "restored. Tolerance 1e-7 (1e-5 for solver-produced QSP angles). Non-trivial: template specific (>= 2 distinct select "
    "operators, non-zero table, non-identity block, non-commuting Hamiltonian terms, ...)."
)
ASSUMPTIONS = [
    "Sub-operators handed to the templates are products of table gates, so that their reference matrices are closed-form.",
    "FABLE is only asserted for tol=0 (the docstring gives no error bound for tol>0); QSVT's projector order is taken from the "
    "polynomial contract (qp.poly_to_angles + BlockEncode), not from the product formula, whose index convention the docstring example "
    "contradicts.",
    "Rules that contain mid-circuit measurements (QROM measurement-based uncomputation) are not simulated.",
    "An identity term c*I of a Hamiltonian handed to ApproxTimeEvolution / CommutingEvolution only contributes the global phase "
    "exp(-ict), which the templates deliberately skip (`if len(pw)`): such instances are compared up to a global phase.",
    "QuantumMonteCarlo: f(i) in [0.05, 0.95], probabilities normalised; the reference distribution assumes the documented equal "
    "superposition over the two eigenphases +-theta.",
]
BUDGET = {"quick": {"examples": 1000}, "thorough": {"examples": 30000, "shards": 16}}
SHRINK_LISTS = ()
TOL = 1e-7

POOLS = [list(range(12)), list("abcdefghijkl"), [3, "x", 0, "q1", 7, 2, "w", 11, "aux", 5, "b", 9]]
_ang = st.one_of(st.floats(-3.1, 3.1, allow_nan=False).map(lambda x: round(x, 5)), st.sampled_from([0.0, np.pi / 2, np.pi, -np.pi / 3, 0.1]))
_f = st.floats(-1, 1, allow_nan=False, allow_subnormal=False).map(lambda x: round(x, 5))


def _pool():
    return st.sampled_from(POOLS).flatmap(st.permutations).map(list)


def _w(w):
    return tuple(w) if isinstance(w, list) else w


# ---------------------------------------------------------------------------------------------
# little gate language shared by PennyLane builders and the numpy reference
# ---------------------------------------------------------------------------------------------

G1 = ["Hadamard", "PauliX", "PauliY", "PauliZ", "S", "T", "RX", "RY", "RZ", "PhaseShift"]
G2 = ["CNOT", "CZ", "SWAP", "CRY", "IsingXX", "CRZ"]
NPAR = {"RX": 1, "RY": 1, "RZ": 1, "PhaseShift": 1, "CRY": 1, "IsingXX": 1, "CRZ": 1}


@st.composite
def _gate(draw, wires):
    if len(wires) >= 2 and draw(st.integers(0, 2)) == 0:
        name = draw(st.sampled_from(G2))
        ws = draw(st.permutations(wires))[:2]
    else:
        name = draw(st.sampled_from(G1))
        ws = [draw(st.sampled_from(wires))]
    return {"g": name, "p": [draw(_ang) for _ in range(NPAR.get(name, 0))], "w": list(ws)}


def _gates(wires, lo=1, hi=3):
    return st.lists(_gate(wires), min_size=lo, max_size=hi)


def ref_gates(gs, order):
    """matrix of the circuit gs (first element applied first) on wire order `order`"""
    U = np.eye(2 ** len(order), dtype=complex)
    for g in gs:
        M = G.matrix(g["g"], g["p"], len(g["w"]), {})
        U = sim.embed(M, [_w(x) for x in g["w"]], list(order)) @ U
    return U


def pl_gates(gs):
    """PennyLane operator for the circuit gs (a Prod when more than one gate)"""
    import pennylane as qp

    ops = [getattr(qp, g["g"])(*g["p"], wires=[_w(x) for x in g["w"]]) for g in gs]
    return ops[0] if len(ops) == 1 else qp.prod(*reversed(ops))


def gates_wires(gs):
    out = []
    for g in gs:
        for x in g["w"]:
            if _w(x) not in out:
                out.append(_w(x))
    return out


@st.composite
def _pauli_ham(draw, wires, lo=2, hi=4, commuting=False, allow_identity=False):
    n = len(wires)
    k = draw(st.sampled_from(list(range(lo, hi + 1)) + [hi]))
    terms = []
    if commuting:
        mode = draw(st.sampled_from(["axis", "axis", "bell"])) if n >= 2 else "axis"
        axis = [draw(st.sampled_from("XYZ")) for _ in range(n)]
        words = set()
        pair = draw(st.permutations(range(n)))[:2] if n >= 2 else None
        for _ in range(k):
            if mode == "bell":
                p = draw(st.sampled_from("XYZ"))
                i, j = pair
                wd = "".join(p if q in (i, j) else "I" for q in range(n))
            else:
                mask = [draw(st.booleans()) for _ in range(n)]
                if not any(mask) and not allow_identity:
                    mask[draw(st.integers(0, n - 1))] = True
                wd = "".join(a if m else "I" for a, m in zip(axis, mask))
            words.add(wd)
        words = sorted(words)
    else:
        words = []
        for _ in range(k):
            wd = "".join(draw(st.sampled_from("IXYZ")) for _ in range(n))
            if set(wd) == {"I"} and not allow_identity:
                wd = draw(st.sampled_from("XYZ")) + wd[1:]
            if wd not in words:
                words.append(wd)
    for wd in words:
        c = draw(st.one_of(_f, st.sampled_from([1.0, -1.0, 0.5, 0.25]))) or 0.3
        terms.append([float(c), wd])
    if len(terms) < lo:
        extra = [w for w in ("Z" + "I" * (n - 1), "X" + "I" * (n - 1), "I" * (n - 1) + "Y") if w not in [t[1] for t in terms]]
        for wd in extra[:lo - len(terms)]:
            terms.append([0.7, wd])
    return terms


def ref_word(word, wires, order):
    act = [(c, w) for c, w in zip(word, wires) if c != "I"]
    if not act:
        return np.eye(2 ** len(order), dtype=complex)
    return sim.embed(G.pauli_word("".join(c for c, _ in act)), [w for _, w in act], list(order))


def ref_ham(terms, wires, order):
    H = np.zeros((2 ** len(order),) * 2, dtype=complex)
    for c, wd in terms:
        H = H + c * ref_word(wd, wires, order)
    return H


def pl_word(word, wires):
    import pennylane as qp

    ops = [{"X": qp.X, "Y": qp.Y, "Z": qp.Z}[c](w) for c, w in zip(word, wires) if c != "I"]
    if not ops:
        return qp.Identity(wires[0])
    return ops[0] if len(ops) == 1 else qp.prod(*ops)


def expm_h(H, s):
    """exp(s * H) for Hermitian H and complex scalar s, by eigen-decomposition"""
    ev, V = np.linalg.eigh((H + H.conj().T) / 2)
    return (V * np.exp(s * ev)) @ V.conj().T


def dft(n):
    N = 2**n
    k = np.arange(N)
    return np.exp(2j * np.pi * np.outer(k, k) / N) / np.sqrt(N)


# ---------------------------------------------------------------------------------------------
# simulation of the code under test
# ---------------------------------------------------------------------------------------------

class Ctx:
    def __init__(self, spec):
        self.spec = spec
        self.t = spec["t"]
        self.labels = [self.t]
        self.feats = {"template": self.t}

    def viol(self, clause, detail, route="", **kw):
        spec = {k: v for k, v in self.spec.items() if k != "pool"}
        raise Viol(clause, f"{self.t} via {route}: {detail}; spec={spec}", sig=f"{self.t}/{route}" + (":" + kw["cls"] if kw.get("cls") else ""),
                   features=dict(self.feats, route=route, **{k: v for k, v in kw.items() if k != "cls"}))

    def guarded(self, fn, route):
        try:
            return fn()
        except (Reject, Viol):
            raise
        except Exception as e:  # noqa: BLE001
            from pv.engine import _origin

            origin, where = _origin(e.__traceback__)
            if origin != "sut":
                raise
            spec = {k: v for k, v in self.spec.items() if k != "pool"}
            raise Viol("raises", f"{self.t} via {route}: {type(e).__name__}: {str(e)[:300]} ({where}); spec={spec}",
                       sig=f"{self.t}/{route}:{type(e).__name__}@{where}",
                       features=dict(self.feats, route=route, exc=type(e).__name__, where=where)) from None

    def routes(self, op):
        """[(name, queue)] — op.decomposition() and applicable rules, de-duplicated, rules with measurements skipped."""
        from pv.ref import rules as R

        out, seen = [], []
        cands = []
        if getattr(op, "has_decomposition", False):
            cands.append(("decomposition", lambda: list(op.decomposition())))
        params, _, _ = R.call_convention(op)
        for rule in self.guarded(lambda: R.listed_rules(op), "list_decomps"):
            if self.guarded(lambda rule=rule: rule.is_applicable(**params), "is_applicable"):
                cands.append(("rule:" + str(getattr(rule, "name", "?")), (lambda rule=rule: R.run_rule(op, rule))))
        for name, thunk in cands:
            res = self.guarded(thunk, name)
            if not isinstance(res, list):
                if res.has_measure:
                    self.labels.append(f"{self.t}/{name}:skipped-measurements")
                    continue
                res = list(res.raw)
            sig = [(type(o).__name__, tuple(map(repr, getattr(o, "wires", ()))), repr(getattr(o, "data", ()))[:300],
                    repr(getattr(o, "hyperparameters", ""))[:300]) for o in res]
            if sig in seen and not any(type(o).__name__ == "Allocate" for o in res):
                continue
            seen.append(sig)
            out.append((name, res))
        return out

    def columns(self, queue, order, cols, route):
        """Simulate the queue on basis inputs `cols` (indices over `order`); dynamic wires appended (in |0>).
        -> (Y restricted to dyn=0 rows: 2^n x len(cols), leak = max population outside dyn=0)"""
        leaves, dyn = self.guarded(lambda: F.flatten(queue), route)
        dynw = [d["wire"] for d in dyn]
        full = list(order) + dynw
        stray = [x for x in F.wires_of(leaves) if x not in full]
        if stray:
            self.viol("foreign-wires", f"decomposition touches {stray} outside {list(order)}", route)
        if len(full) > 14:
            raise Reject("more than 14 wires")
        k = len(dynw)
        X = np.zeros((2 ** len(full), len(cols)), dtype=complex)
        X[[c << k for c in cols], np.arange(len(cols))] = 1
        with F.guard():
            Y = F.run_batch(leaves, full, X)
        Y = Y.reshape(2 ** len(order), 2**k, len(cols))
        leak = float(np.abs(Y[:, 1:, :]).max()) if k else 0.0
        if leak > 1e-7:
            self.viol("dynamic-wires-not-restored", f"population {leak:.3g} left on dynamically allocated wires", route)
        if k:
            self.labels.append(f"{self.t}:dynamic-wires")
        return Y[:, 0, :]

    def unitary_routes(self, op, order, cols=None):
        """yield (route, Y) with Y = columns `cols` (default all) of the operator on `order`"""
        cols = list(range(2 ** len(order))) if cols is None else list(cols)
        for name, queue in self.routes(op):
            self.labels.append(f"{self.t}/{name}")
            yield name, self.columns(queue, order, cols, name)

    def compare(self, Y, E, route, what="operator", tol=TOL, cls=None, phase_free=False):
        Y = np.asarray(Y)
        E = np.asarray(E)
        if Y.shape != E.shape:
            self.viol("shape", f"{what}: shape {Y.shape} vs reference {E.shape}", route)
        if phase_free and np.all(np.isfinite(Y)) and sim.allclose_phase(Y, E, tol):
            return
        d = np.abs(Y - E)
        if not np.all(np.isfinite(Y)) or d.max() > tol:
            i = np.unravel_index(int(np.argmax(np.nan_to_num(d, nan=np.inf))), d.shape)
            clause = "global-phase" if sim.allclose_phase(Y, E, tol) else "wrong-" + what
            self.viol(clause, f"{what} differs from the documented reference: entry {tuple(int(x) for x in i)} got {Y[i]:.6g} expected {E[i]:.6g}, "
                      f"max|diff|={np.nanmax(d):.3g}", route, cls=cls)


def _idx(bits):
    v = 0
    for b in bits:
        v = 2 * v + int(b)
    return v


def _bits(v, n):
    return [(v >> (n - 1 - j)) & 1 for j in range(n)]


# ---------------------------------------------------------------------------------------------
# templates: generator + check
# ---------------------------------------------------------------------------------------------

REG = {}


def template(name):
    def deco(cls):
        REG[name] = cls
        return cls
    return deco


@template("Select")
class _Select:
    @staticmethod
    @st.composite
    def gen(draw, N):
        pool = draw(_pool())
        nt = draw(st.sampled_from([1, 2, 2]))
        c = draw(st.sampled_from([1, 2, 2, 3] if N > 3 else [1, 2, 2, 2, 3]))
        K = draw(st.sampled_from([1] + 3 * list(range(2, 2**c + 1))))
        if c > 1 and K <= 2 ** (c - 1) and draw(st.booleans()):
            K = 2 ** (c - 1) + 1
        tw, cw = pool[:nt], pool[nt:nt + c]
        ops = [draw(_gates(tw, 1, 2)) for _ in range(K)]
        nw = draw(st.sampled_from([0, 0, max(c - 1, 0), max(c - 1, 0), c, 1]))
        return {"t": "Select", "tw": tw, "cw": cw, "ops": ops, "ww": pool[nt + c:nt + c + nw], "partial": draw(st.sampled_from([False, True]))}

    @staticmethod
    def check(ctx, spec):
        import pennylane as qp

        tw, cw, ww = ([_w(x) for x in spec[k]] for k in ("tw", "cw", "ww"))
        K, c = len(spec["ops"]), len(cw)
        op = ctx.guarded(lambda: qp.Select([pl_gates(g) for g in spec["ops"]], control=cw, work_wires=ww or None, partial=spec["partial"]),
                         "constructor")
        order = cw + tw + ww
        d = 2 ** len(tw)
        blocks = [ref_gates(g, tw) for g in spec["ops"]]
        idx = range(K) if spec["partial"] else range(2**c)
        cols = [((i * d + j) << len(ww)) for i in idx for j in range(d)]
        E = np.zeros((2 ** len(order), len(cols)), dtype=complex)
        for q, (i, j) in enumerate((i, j) for i in idx for j in range(d)):
            B = blocks[i] if i < K else np.eye(d)
            E[[((i * d + r) << len(ww)) for r in range(d)], q] = B[:, j]
        for route, Y in ctx.unitary_routes(op, order, cols):
            ctx.compare(Y, E, route)
        ctx.labels += [f"Select:K={K},c={c}", f"Select:partial={spec['partial']}", f"Select:work={len(ww)}"]
        return K >= 2 and any(np.abs(blocks[0] - b).max() > 1e-6 for b in blocks[1:])


@template("QROM")
class _QROM:
    @staticmethod
    @st.composite
    def gen(draw, N):
        pool = draw(_pool())
        b = draw(st.sampled_from([1, 2, 2, 3]))
        m = draw(st.sampled_from([1, 2, 3, 3, 4, 5, 6, 7, 8, 8]))
        c = max(1, ceil(log2(m))) + draw(st.sampled_from([0, 0, 0, 1]))
        table = [draw(st.lists(st.integers(0, 1), min_size=b, max_size=b)) for _ in range(m)]
        nw = draw(st.sampled_from([0, 0, 1, b, 2 * b, 3 * b, 3 * b, 3 * b + 1, 3 * b + 2, b + 1, c]))
        nw = min(nw, 11 - c - b)
        clean = draw(st.sampled_from([True, True, False]))
        return {"t": "QROM", "cw": pool[:c], "tw": pool[c:c + b], "ww": pool[c + b:c + b + nw], "table": table, "clean": clean,
                "as": draw(st.sampled_from(["str", "list", "array"])), "dirty": draw(st.integers(0, 2**nw - 1)) if clean else 0}

    @staticmethod
    def check(ctx, spec):
        import pennylane as qp

        cw, tw, ww = ([_w(x) for x in spec[k]] for k in ("cw", "tw", "ww"))
        table = spec["table"]
        m, b, c = len(table), len(tw), len(cw)
        data = {"str": ["".join(map(str, r)) for r in table], "list": table, "array": np.array(table)}[spec["as"]]
        op = ctx.guarded(lambda: qp.QROM(data, cw, tw, ww, clean=spec["clean"]), "constructor")
        order = cw + tw + ww
        need = max(1, ceil(log2(m)))
        # documented domain: target |0>, address i < m (loads b_i) or an extra address bit set (identity); work wires |0>
        # (any basis state when clean=True)
        addr = [i for i in range(2**c) if i < m or i >= 2**need]
        wstates = sorted({0, spec["dirty"]})
        cols, expect = [], []
        for i in addr:
            for wv in wstates:
                cols.append(((i << b) << len(ww)) | wv)
                tv = _idx(table[i]) if i < m else 0
                expect.append((i, tv, wv))
        for route, Y in ctx.unitary_routes(op, order, cols):
            P = (np.abs(Y) ** 2).reshape(2**c, 2**b, 2 ** len(ww), len(cols))
            for q, (i, tv, wv) in enumerate(expect):
                p = P[i, tv, :, q].sum()
                if abs(p - 1) > 1e-7:
                    ctx.viol("wrong-data", f"address {i}: P(control={i}, target={_bits(tv, b)}) = {p:.6g} (work wires start in {wv})", route)
                if spec["clean"]:
                    amp = Y.reshape(2**c, 2**b, 2 ** len(ww), len(cols))[i, tv, wv, q]
                    if abs(amp - 1) > 1e-7:
                        ctx.viol("work-wires-not-restored" if abs(abs(amp) - 1) > 1e-7 else "phase",
                                 f"clean=True, address {i}, work wires start in {wv}: amplitude of the expected output basis state is {amp:.6g}", route)
        ctx.labels += [f"QROM:clean={spec['clean']}", f"QROM:work={len(ww)}", f"QROM:extra-address={c - need}", f"QROM:m={m}"]
        return m >= 2 and any(any(r) for r in table)


@template("QFT")
class _QFT:
    @staticmethod
    def gen(N):
        return _pool().flatmap(lambda p: st.integers(1, N + 1).map(lambda n: {"t": "QFT", "w": p[:n]}))

    @staticmethod
    def check(ctx, spec):
        import pennylane as qp

        w = [_w(x) for x in spec["w"]]
        op = qp.QFT(wires=w)
        E = dft(len(w))
        for route, Y in ctx.unitary_routes(op, w):
            ctx.compare(Y, E, route)
        M = ctx.guarded(lambda: qp.matrix(op, wire_order=w), "matrix")
        ctx.compare(M, E, "matrix")
        ctx.labels.append(f"QFT:n={len(w)}")
        return len(w) >= 2


@template("AQFT")
class _AQFT:
    @staticmethod
    def gen(N):
        return _pool().flatmap(lambda p: st.integers(2, N + 1).flatmap(
            lambda n: st.integers(0, n).map(lambda o: {"t": "AQFT", "w": p[:n], "order": o})))

    @staticmethod
    def check(ctx, spec):
        import pennylane as qp

        w = [_w(x) for x in spec["w"]]
        n, order = len(w), spec["order"]
        op = ctx.guarded(lambda: qp.AQFT(order, wires=w), "constructor")
        # documented circuit: per wire i a Hadamard followed by at most `order` controlled phase shifts pi/2^k from the next wires, then
        # the wire order is reversed by SWAPs
        U = np.eye(2**n, dtype=complex)
        for i in range(n):
            U = sim.embed(G.H, [w[i]], w) @ U
            for k in range(1, min(order, n - 1 - i) + 1):
                U = sim.embed(G.CPhaseShift(np.pi / 2**k, 3), [w[i + k], w[i]], w) @ U
        for i in range(n // 2):
            U = sim.embed(G.SWAP, [w[i], w[n - 1 - i]], w) @ U
        if order >= n - 1 and np.abs(U - dft(n)).max() > 1e-9:
            raise RuntimeError("AQFT reference: full order must equal the DFT")
        for route, Y in ctx.unitary_routes(op, w):
            ctx.compare(Y, U, route)
        ctx.labels.append(f"AQFT:order{'<' if order < n - 1 else '>='}n-1")
        return order >= 1


@template("Permute")
class _Permute:
    @staticmethod
    def gen(N):
        return _pool().flatmap(lambda p: st.integers(2, N + 2).flatmap(
            lambda n: st.permutations(p[:n]).map(lambda perm: {"t": "Permute", "w": p[:n], "perm": list(perm)})))

    @staticmethod
    def check(ctx, spec):
        import pennylane as qp

        w = [_w(x) for x in spec["w"]]
        perm = [_w(x) for x in spec["perm"]]
        n = len(w)
        op = ctx.guarded(lambda: qp.Permute(perm, wires=w), "constructor")
        # documented: the qubit state previously on wire perm[i] is now on wire w[i]
        E = np.zeros((2**n, 2**n), dtype=complex)
        for x in range(2**n):
            bits = dict(zip(w, _bits(x, n)))
            E[_idx([bits[perm[i]] for i in range(n)]), x] = 1
        for route, Y in ctx.unitary_routes(op, w):
            ctx.compare(Y, E, route)
        ctx.labels.append(f"Permute:n={n}")
        return perm != w


@template("FlipSign")
class _FlipSign:
    @staticmethod
    def gen(N):
        return _pool().flatmap(lambda p: st.integers(1, N + 1).flatmap(lambda n: st.integers(0, 2**n - 1).flatmap(
            lambda v: st.sampled_from(["int", "list", "tuple"]).map(lambda a: {"t": "FlipSign", "w": p[:n], "n": v, "as": a}))))

    @staticmethod
    def check(ctx, spec):
        import pennylane as qp

        w = [_w(x) for x in spec["w"]]
        n = len(w)
        arg = {"int": spec["n"], "list": _bits(spec["n"], n), "tuple": tuple(_bits(spec["n"], n))}[spec["as"]]
        op = ctx.guarded(lambda: qp.FlipSign(arg, wires=w), "constructor")
        E = np.eye(2**n, dtype=complex)
        E[spec["n"], spec["n"]] = -1
        for route, Y in ctx.unitary_routes(op, w):
            ctx.compare(Y, E, route)
        ctx.labels.append(f"FlipSign:n={n}:{spec['as']}")
        return True


@template("Reflection")
class _Reflection:
    @staticmethod
    @st.composite
    def gen(draw, N):
        pool = draw(_pool())
        n = draw(st.sampled_from([1, 2, 2, 3, 3]))
        w = pool[:n]
        gs = draw(_gates(w, 1, 4))
        uw = gates_wires(gs)
        k = draw(st.integers(1, len(uw)))
        rw = draw(st.permutations(uw))[:k] if draw(st.sampled_from([True, True, False])) else None
        return {"t": "Reflection", "U": gs, "alpha": draw(st.one_of(_ang, st.just(np.pi))), "rw": rw}

    @staticmethod
    def check(ctx, spec):
        import pennylane as qp

        U = pl_gates(spec["U"])
        w = list(U.wires)
        if [_w(x) for x in gates_wires(spec["U"])] != w and set(gates_wires(spec["U"])) != set(w):
            raise RuntimeError("wire bookkeeping")
        rw = [_w(x) for x in spec["rw"]] if spec["rw"] is not None else None
        alpha = spec["alpha"]
        op = ctx.guarded(lambda: qp.Reflection(U, alpha, reflection_wires=rw), "constructor")
        Um = ref_gates(spec["U"], w)
        rws = rw if rw is not None else w
        P0 = np.zeros((2 ** len(rws),) * 2, dtype=complex)
        P0[0, 0] = 1
        E = Um @ (-np.eye(2 ** len(w)) + (1 - np.exp(1j * alpha)) * sim.embed(P0, rws, w)) @ Um.conj().T
        for route, Y in ctx.unitary_routes(op, w):
            ctx.compare(Y, E, route)
        ctx.labels.append("Reflection:" + ("sub-register" if rw is not None and len(rw) < len(w) else "all-wires"))
        return abs(np.exp(1j * alpha) - 1) > 1e-6


@template("GroverOperator")
class _Grover:
    @staticmethod
    def gen(N):
        return _pool().flatmap(lambda p: st.integers(2, N + 1).flatmap(lambda n: st.sampled_from([0, 0, 1, 2]).map(
            lambda k: {"t": "GroverOperator", "w": p[:n], "ww": p[n:n + k]})))

    @staticmethod
    def check(ctx, spec):
        import pennylane as qp

        w, ww = [_w(x) for x in spec["w"]], [_w(x) for x in spec["ww"]]
        n = len(w)
        op = ctx.guarded(lambda: qp.GroverOperator(wires=w, work_wires=ww), "constructor")
        E = 2 * np.full((2**n, 2**n), 1 / 2**n, dtype=complex) - np.eye(2**n)
        order = w + ww
        cols = [x << len(ww) for x in range(2**n)]
        Efull = np.zeros((2 ** len(order), 2**n), dtype=complex)
        Efull[cols, :] = E
        for route, Y in ctx.unitary_routes(op, order, cols):
            ctx.compare(Y, Efull, route)
        M = ctx.guarded(lambda: qp.matrix(op, wire_order=w), "matrix")
        ctx.compare(M, E, "matrix")
        ctx.labels.append(f"GroverOperator:n={n},work={len(ww)}")
        return True


def _ylc_success(lam, L, delta):
    """Yoder-Low-Chuang fixed-point search: P_L = 1 - delta^2 T_L(T_{1/L}(1/delta) sqrt(1 - lam))^2."""
    g = np.cosh(np.arccosh(1 / delta) / L)
    x = g * np.sqrt(1 - lam)
    TL = np.cos(L * np.arccos(x)) if x <= 1 else np.cosh(L * np.arccosh(x))
    return 1 - delta**2 * TL**2


@template("AmplitudeAmplification")
class _AA:
    @staticmethod
    @st.composite
    def gen(draw, N):
        pool = draw(_pool())
        n = draw(st.integers(1, min(N, 3)))
        w = pool[:n]
        gs = [{"g": "RY", "p": [draw(st.floats(0.3, 2.8).map(lambda x: round(x, 4)))], "w": [x]} for x in w] + draw(_gates(w, 0, 2))
        marked = draw(st.lists(st.integers(0, 2**n - 1), min_size=1, max_size=max(1, 2 ** (n - 1)), unique=True))
        fixed = draw(st.sampled_from([False, False, True]))
        iters = draw(st.sampled_from([3, 5, 7])) if fixed else draw(st.sampled_from([0, 1, 1, 2, 2, 3, 4]))
        return {"t": "AmplitudeAmplification", "U": gs, "marked": sorted(marked), "iters": iters, "fixed": fixed,
                "work": pool[n] if fixed else None, "p_min": draw(st.sampled_from([0.9, 0.8, 0.95])) if fixed else 0.9,
                "w": w}

    @staticmethod
    def check(ctx, spec):
        import pennylane as qp

        w = [_w(x) for x in spec["w"]]
        n = len(w)
        U = pl_gates(spec["U"])
        uw = list(U.wires)
        if set(uw) != set(w):
            raise Reject("U does not act on all wires")
        # oracle: product of FlipSign on the marked states (each flips exactly one basis state)
        O = [qp.FlipSign(m, wires=uw) for m in spec["marked"]]
        O = O[0] if len(O) == 1 else qp.prod(*O)
        kw = {"iters": spec["iters"], "fixed_point": spec["fixed"]}
        if spec["fixed"]:
            kw.update(work_wire=_w(spec["work"]), p_min=spec["p_min"])
        op = ctx.guarded(lambda: qp.AmplitudeAmplification(U, O, **kw), "constructor")
        Um = ref_gates(spec["U"], uw)
        Om = np.eye(2**n, dtype=complex)
        for m in spec["marked"]:
            Om[m, m] = -1
        psi = Um[:, 0]
        lam = float(sum(abs(psi[m]) ** 2 for m in spec["marked"]))
        if spec["fixed"]:
            order = uw + [_w(spec["work"])]
            start = np.kron(psi, [1, 0])
            exp_p = _ylc_success(lam, spec["iters"], np.sqrt(1 - spec["p_min"]))
            for name, queue in ctx.routes(op):
                ctx.labels.append(f"{ctx.t}/{name}")
                leaves, dyn = F.flatten(queue)
                with F.guard():
                    out = F.run_batch(leaves, order, start.reshape(-1, 1))[:, 0].reshape(2**n, 2)
                if np.abs(out[:, 1]).max() > 1e-7:
                    ctx.viol("work-wire-not-restored", f"fixed point: population {np.abs(out[:, 1]).max():.3g} left on the work wire", name)
                p = float(sum(abs(out[m, 0]) ** 2 for m in spec["marked"]))
                if abs(p - exp_p) > 1e-6:
                    ctx.viol("wrong-success-probability", f"fixed-point search with L={spec['iters']}, p_min={spec['p_min']}, initial success "
                             f"probability {lam:.6f}: P(marked)={p:.8f}, Yoder-Low-Chuang formula gives {exp_p:.8f}", name)
            ctx.labels.append(f"AmplitudeAmplification:fixed-point:{'above' if exp_p >= spec['p_min'] - 1e-9 else 'below'}-p_min")
            return 1e-3 < lam < 1 - 1e-3
        R = 2 * np.outer(psi, psi.conj()) - np.eye(2**n)
        E = np.linalg.matrix_power(R @ Om, spec["iters"])
        for route, Y in ctx.unitary_routes(op, uw):
            ctx.compare(Y, E, route)
        ctx.labels.append(f"AmplitudeAmplification:iters={spec['iters']}")
        return spec["iters"] >= 1 and 1e-3 < lam < 1 - 1e-3


@template("ControlledSequence")
class _CtrlSeq:
    @staticmethod
    @st.composite
    def gen(draw, N):
        pool = draw(_pool())
        nt, c = draw(st.sampled_from([1, 2, 2])), draw(st.sampled_from([1, 2, 2, 3, 3]))
        return {"t": "ControlledSequence", "U": draw(_gates(pool[:nt], 1, 3)), "cw": pool[nt:nt + c]}

    @staticmethod
    def check(ctx, spec):
        import pennylane as qp

        U = pl_gates(spec["U"])
        tw = list(U.wires)
        cw = [_w(x) for x in spec["cw"]]
        op = ctx.guarded(lambda: qp.ControlledSequence(U, control=cw), "constructor")
        order = cw + tw
        Um = ref_gates(spec["U"], tw)
        E = np.eye(2 ** len(order), dtype=complex)
        c = len(cw)
        for i, x in enumerate(cw):
            E = sim.embed(G.controlled(np.linalg.matrix_power(Um, 2 ** (c - 1 - i)), 1), [x] + tw, order) @ E
        for route, Y in ctx.unitary_routes(op, order):
            ctx.compare(Y, E, route)
        ctx.labels.append(f"ControlledSequence:c={c}")
        return c >= 2 and np.abs(Um - np.eye(len(Um))).max() > 1e-6


def _qpe_amps(theta, n):
    """amplitudes a_k = 2^-n sum_m exp(2 pi i m (theta - k / 2^n)) of the estimation register for eigenphase theta"""
    N = 2**n
    m = np.arange(N)
    return np.array([np.exp(2j * np.pi * m * (theta - k / N)).sum() / N for k in range(N)])


@template("QuantumPhaseEstimation")
class _QPE:
    @staticmethod
    @st.composite
    def gen(draw, N):
        pool = draw(_pool())
        nt, ne = draw(st.sampled_from([1, 2, 2])), draw(st.sampled_from([1, 2, 2, 3, 3]))
        kind = draw(st.sampled_from(["operator", "matrix", "dyadic"]))
        spec = {"t": "QuantumPhaseEstimation", "tw": pool[:nt], "ew": pool[nt:nt + ne], "kind": kind}
        if kind == "dyadic":   # eigenphases that are exactly representable with ne bits -> deterministic read-out
            spec["phases"] = [draw(st.integers(0, 2**ne - 1)) for _ in range(2**nt)]
            spec["V"] = draw(_gates(pool[:nt], 0, 2))
        else:
            spec["U"] = draw(_gates(pool[:nt], 1, 3))
        return spec

    @staticmethod
    def check(ctx, spec):
        import pennylane as qp

        tw, ew = [_w(x) for x in spec["tw"]], [_w(x) for x in spec["ew"]]
        ne, d = len(ew), 2 ** len(tw)
        if spec["kind"] == "dyadic":
            V = ref_gates(spec["V"], tw)
            Um = (V * np.exp(2j * np.pi * np.array(spec["phases"]) / 2**ne)) @ V.conj().T
            op = ctx.guarded(lambda: qp.QuantumPhaseEstimation(Um, target_wires=tw, estimation_wires=ew), "constructor")
        else:
            Um = ref_gates(spec["U"], tw)
            if spec["kind"] == "matrix":
                op = ctx.guarded(lambda: qp.QuantumPhaseEstimation(Um, target_wires=tw, estimation_wires=ew), "constructor")
            else:
                U = pl_gates(spec["U"])
                if list(U.wires) != tw:
                    Um = ref_gates(spec["U"], list(U.wires))
                    tw = list(U.wires)
                    d = 2 ** len(tw)
                op = ctx.guarded(lambda: qp.QuantumPhaseEstimation(U, estimation_wires=ew), "constructor")
        order = tw + ew
        # closed form: QPE (|u> (x) |0..0>) = |u> (x) sum_k a_k(theta_u) |k>  for every eigenvector u of U; linear in the target state.
        # Reference by spectral calculus: E[:, x] = sum_m (U^m / N) e_x  (x)  QFT^dagger-column structure
        N = 2**ne
        E = np.zeros((d * N, d), dtype=complex)
        powers = [np.linalg.matrix_power(Um, m) for m in range(N)]
        for k in range(N):
            Ak = sum(np.exp(-2j * np.pi * m * k / N) * powers[m] for m in range(N)) / N      # sum_u a_k(theta_u) |u><u|
            E[k::N, :] = Ak
        cols = [x * N for x in range(d)]
        for route, Y in ctx.unitary_routes(op, order, cols):
            ctx.compare(Y, E, route)
        if spec["kind"] == "dyadic":
            # deterministic read-out for an eigenvector input
            a = _qpe_amps(spec["phases"][0] / N, ne)
            if abs(abs(a[spec["phases"][0]]) - 1) > 1e-9:
                raise RuntimeError("QPE kernel self-check")
        ctx.labels.append(f"QuantumPhaseEstimation:{spec['kind']}:ne={ne}")
        return np.abs(Um - np.eye(d)).max() > 1e-6


@template("QuantumMonteCarlo")
class _QMC:
    @staticmethod
    @st.composite
    def gen(draw, N):
        pool = draw(_pool())
        m = draw(st.sampled_from([1, 2, 2]))
        ne = draw(st.sampled_from([1, 2, 3, 3, 4]))
        p = [draw(st.floats(0.05, 1).map(lambda x: round(x, 4))) for _ in range(2**m)]
        f = [draw(st.floats(0.05, 0.95).map(lambda x: round(x, 4))) for _ in range(2**m)]
        return {"t": "QuantumMonteCarlo", "tw": pool[:m + 1], "ew": pool[m + 1:m + 1 + ne], "p": p, "f": f}

    @staticmethod
    def check(ctx, spec):
        import pennylane as qp

        tw, ew = [_w(x) for x in spec["tw"]], [_w(x) for x in spec["ew"]]
        p = np.array(spec["p"]) / np.sum(spec["p"])
        f = list(spec["f"])
        op = ctx.guarded(lambda: qp.QuantumMonteCarlo(p, lambda i: f[i], target_wires=tw, estimation_wires=ew), "constructor")
        mu = float(np.dot(p, f))
        theta = np.arccos(1 - 2 * mu) / np.pi          # documented: mu = (1 - cos(pi theta)) / 2, Q has eigenvalues exp(+-2 pi i theta)
        ne = len(ew)
        order = tw + ew
        for route, Y in ctx.unitary_routes(op, order, [0]):
            P = (np.abs(Y[:, 0]) ** 2).reshape(2 ** len(tw), 2**ne).sum(axis=0)
            best = 0.5 * np.abs(_qpe_amps(theta, ne)) ** 2 + 0.5 * np.abs(_qpe_amps(1 - theta, ne)) ** 2
            if np.abs(P - best).max() > 1e-7:
                ctx.viol("wrong-distribution", f"estimation-wire distribution {np.round(P, 6).tolist()} differs from the QPE kernel at "
                         f"+-theta (mu={mu:.6f}, theta={theta:.6f}): {np.round(best, 6).tolist()}", route)
        ctx.labels.append(f"QuantumMonteCarlo:m={len(tw) - 1},ne={ne}")
        return True


@template("PrepSelPrep")
class _PSP:
    NAME = "PrepSelPrep"

    @classmethod
    def gen(cls, N):
        name = cls.NAME

        @st.composite
        def g(draw):
            pool = draw(_pool())
            n = draw(st.sampled_from([1, 2, 2]))
            hw = pool[:n]
            terms = draw(_pauli_ham(hw, 1 if name == "PrepSelPrep" else 2, 5))
            c = max(1, ceil(log2(len(terms)))) + draw(st.sampled_from([0, 0, 1]))
            # PrepSelPrep block-encodes any linear combination of unitaries: complex coefficients c_k e^{i phi_k} (Qubitization needs
            # a Hermitian operator, so its coefficients stay real)
            phases = None
            if name == "PrepSelPrep" and draw(st.booleans()):
                phases = [draw(st.sampled_from([0.0, 0.7, -1.3, 1.5707963267948966, 2.4, 3.141592653589793, -2.9])) for _ in terms]
            return {"t": name, "hw": hw, "terms": terms, "cw": pool[n:n + c], "as": draw(st.sampled_from(["dot", "lc", "sum"])), "phases": phases}
        return g()

    @classmethod
    def check(cls, ctx, spec):
        import pennylane as qp

        hw, cw = [_w(x) for x in spec["hw"]], [_w(x) for x in spec["cw"]]
        terms = spec["terms"]
        if spec.get("phases"):
            terms = [(complex(c * np.exp(1j * ph)), wd) for (c, wd), ph in zip(terms, spec["phases"])]
        coeffs = [c for c, _ in terms]
        words = [pl_word(wd, hw) for _, wd in terms]
        if spec["as"] == "lc":
            H = qp.ops.LinearCombination(coeffs, words)
        elif len(terms) == 1:
            H = qp.s_prod(coeffs[0], words[0])          # documented operand types: SProd / Sum / LinearCombination ...
        elif spec["as"] == "sum":
            H = qp.sum(*[qp.s_prod(c, o) for c, o in zip(coeffs, words)])
        else:
            H = qp.dot(coeffs, words)
        hw_op = list(H.wires)
        op = ctx.guarded(lambda: getattr(qp, cls.NAME)(H, control=cw), "constructor")
        lam = float(sum(abs(c) for c in coeffs))
        Href = ref_ham(terms, hw, hw_op)
        order = cw + hw_op
        d = 2 ** len(hw_op)
        cols = list(range(d))                      # control |0..0>
        for route, Y in ctx.unitary_routes(op, order, cols):
            ctx.compare(Y[:d, :], Href / lam, route, what="block")
        if cls.NAME == "Qubitization":
            # walk operator: eigenphases +-arccos(E_k / lambda) for every eigenvalue E_k of H (Pauli words are self-inverse)
            for route, Y in ctx.unitary_routes(op, order):
                ctx.labels.pop()
                if np.abs(Y.conj().T @ Y - np.eye(len(Y))).max() > 1e-7:
                    ctx.viol("not-unitary", "decomposition is not unitary", route)
                ph = np.angle(np.linalg.eigvals(Y))
                for Ek in np.linalg.eigvalsh(Href):
                    want = np.arccos(np.clip(Ek / lam, -1, 1))
                    if min(np.abs(np.abs(ph) - want)) > 1e-6:
                        ctx.viol("wrong-eigenphase", f"no eigenphase +-arccos(E/lambda)={want:.6f} for E={Ek:.6f}, lambda={lam:.6f}; "
                                 f"phases {np.round(np.sort(ph), 5).tolist()}", route)
        ctx.labels += [f"{cls.NAME}:terms={len(terms)}", f"{cls.NAME}:{spec['as']}", f"{cls.NAME}:extra-control={len(cw) - max(1, ceil(log2(len(terms))))}"]
        if spec.get("phases"):
            ctx.labels.append("PrepSelPrep:complex-coefficients")
        return len(terms) >= 2


@template("Qubitization")
class _Qubitization(_PSP):
    NAME = "Qubitization"


def _poly(draw, deg, parity_only, complex_ok):
    cs = []
    for k in range(deg + 1):
        if parity_only and (k % 2) != (deg % 2):
            cs.append(0.0)
        else:
            cs.append(draw(_f) if not complex_ok else complex(draw(_f), draw(_f)))
    if abs(cs[-1]) < 0.05:
        cs[-1] = 0.4
    return cs


@template("QSVT")
class _QSVT:
    @staticmethod
    @st.composite
    def gen(draw, N):
        pool = draw(_pool())
        n = draw(st.integers(1, 2))
        vals = [draw(_f) for _ in range(4**n)]
        spec = {"t": "QSVT", "w": pool[:n + 1], "A": vals, "n": n, "scale": draw(st.sampled_from([0.5, 0.9, 0.3]))}
        spec["UA"] = draw(_gates(pool[:n + 1], 1, 4))
        spec["dim"] = draw(st.integers(1, 2 ** (n + 1) - 1))
        if draw(st.sampled_from([True, False])):
            spec["angles"] = [draw(_ang) for _ in range(draw(st.sampled_from([1, 2, 3, 4, 5, 6])))]
        else:
            spec["poly"] = _poly(draw, draw(st.integers(1, 5)), True, False)
        return spec

    @staticmethod
    def check(ctx, spec):
        import pennylane as qp
        from scipy.linalg import sqrtm

        w = [_w(x) for x in spec["w"]]
        n = spec["n"]
        d = 2**n
        A = np.array(spec["A"]).reshape(d, d)
        A = (A + A.T) / 2
        A = spec["scale"] * A / max(np.linalg.norm(A, 2), 1e-6)
        A = A / np.sqrt(max(1.0, np.linalg.norm(A @ A.T, np.inf)))    # BlockEncode rescales when ||A A^T||_inf > 1: stay below
        poly = None
        if "poly" in spec:
            poly = np.array(spec["poly"], dtype=float)
            xs = np.linspace(-1, 1, 401)
            poly = poly * (0.9 / np.abs(np.polynomial.polynomial.polyval(xs, poly)).max())     # |p(x)| <= 0.9 on [-1, 1]
            try:
                angles = [float(a) for a in qp.poly_to_angles(poly, "QSVT")]
            except Exception as e:  # noqa: BLE001  (the angle solver is another property's business)
                raise Reject(f"poly_to_angles rejected the polynomial: {type(e).__name__}") from None
        else:
            angles = list(spec["angles"])
        # Reference. A = sum_k l_k |v_k><v_k| real symmetric, BlockEncode(A) = (+)_k [[l, s], [s, -l]], PCPhase(phi, dim=d) =
        # diag(e^{i phi}, e^{-i phi}) (x) 1: the circuit is a direct sum of 2x2 products and its block is sum_k f(l_k) |v_k><v_k|
        # with f(l) = (P_1 W P_2 W ... P_m)_{00}. All 2x2 factors are symmetric, so the (0,0) entry does not depend on whether the
        # projector list is read left-to-right or right-to-left.
        ev, V = np.linalg.eigh(A)
        fl = []
        for lam in ev:
            s_ = np.sqrt(max(0.0, 1 - lam * lam))
            W = np.array([[lam, s_], [s_, -lam]], dtype=complex)
            M2 = np.diag([np.exp(1j * angles[0]), np.exp(-1j * angles[0])])
            for phi in angles[1:]:
                M2 = M2 @ W @ np.diag([np.exp(1j * phi), np.exp(-1j * phi)])
            fl.append(M2[0, 0])
        E = (V * np.array(fl)) @ V.T
        if poly is not None:
            if np.abs(np.real(fl) - np.polynomial.polynomial.polyval(ev, poly)).max() > 1e-6:
                ctx.labels.append("QSVT:solver-angles-inaccurate")      # poly_to_angles accuracy is not this property's subject
            else:
                ctx.labels.append("QSVT:block=poly(A)")
        proj = [qp.PCPhase(float(a), dim=d, wires=w) for a in angles]
        # (a) BlockEncode as block encoding (has a matrix only): QSVT.matrix
        op = ctx.guarded(lambda: qp.QSVT(qp.BlockEncode(A, wires=w), proj), "constructor")
        M = ctx.guarded(lambda: qp.matrix(op, wire_order=w), "matrix")
        ctx.compare(M[:d, :d], E, "matrix", what="block")
        # (b) the same block encoding handed over as a QubitUnitary (numpy construction of the documented BlockEncode matrix), so that
        # the decomposition can be simulated independently
        S = np.real(sqrtm(np.eye(d) - A @ A))
        UAm = np.block([[A, S], [S, -A]])
        op2 = ctx.guarded(lambda: qp.QSVT(qp.QubitUnitary(UAm, wires=w), proj), "constructor")
        for route, Y in ctx.unitary_routes(op2, w):
            ctx.compare(Y[:d, :d], E, route, what="block")
            ctx.compare(Y, M, route, what="matrix-vs-decomposition")
        # (c) generic (non-Hermitian) block-encoding circuit and projectors of arbitrary dimension: the documented alternating circuit
        # P_0, U, P_1, U^dagger, P_2, U, ... with projectors[0] applied first (as drawn in the docstring example)
        if spec.get("UA"):
            UA = pl_gates(spec["UA"])
            uw = list(UA.wires)
            full = uw + [x for x in w if x not in uw]
            Um = ref_gates(spec["UA"], full)
            proj3 = [qp.PCPhase(float(a), dim=spec["dim"], wires=full) for a in angles]
            op3 = ctx.guarded(lambda: qp.QSVT(UA, proj3), "constructor")
            order3 = list(op3.wires)
            Pm = [sim.embed(G.PCPhase(float(a), spec["dim"], len(full)), full, order3) for a in angles]
            Uo = sim.embed(Um, full, order3)
            E3 = Pm[0]
            for j in range(1, len(angles)):
                E3 = Pm[j] @ (Uo if j % 2 == 1 else Uo.conj().T) @ E3
            for route, Y in ctx.unitary_routes(op3, order3):
                ctx.compare(Y, E3, route + "(generic UA)")
            M3 = ctx.guarded(lambda: qp.matrix(op3, wire_order=order3), "matrix")
            ctx.compare(M3, E3, "matrix(generic UA)")
        ctx.labels.append(f"QSVT:projectors={len(angles)}:{'poly' if poly is not None else 'random-angles'}")
        return np.abs(E).max() > 1e-3 and len(angles) >= 2


@template("GQSP")
class _GQSP:
    @staticmethod
    @st.composite
    def gen(draw, N):
        pool = draw(_pool())
        deg = draw(st.integers(0, 4))
        poly = _poly(draw, deg, False, True)
        nt = draw(st.integers(1, 2))
        return {"t": "GQSP", "U": draw(_gates(pool[:nt], 1, 3)), "c": pool[nt], "poly": [[z.real, z.imag] for z in map(complex, poly)]}

    @staticmethod
    def check(ctx, spec):
        import pennylane as qp

        U = pl_gates(spec["U"])
        tw = list(U.wires)
        c = _w(spec["c"])
        poly = np.array([complex(a, b) for a, b in spec["poly"]])
        th = np.linspace(0, 2 * np.pi, 721)
        mx = np.abs(np.polynomial.polynomial.polyval(np.exp(1j * th), poly)).max()
        poly = poly * (0.9 / mx)
        try:
            angles = qp.poly_to_angles(poly, "GQSP")
        except Exception as e:  # noqa: BLE001
            raise Reject(f"poly_to_angles rejected the polynomial: {type(e).__name__}") from None
        op = ctx.guarded(lambda: qp.GQSP(U, angles, control=c), "constructor")
        Um = ref_gates(spec["U"], tw)
        E = sum(ck * np.linalg.matrix_power(Um, k) for k, ck in enumerate(poly))
        order = [c] + tw
        d = 2 ** len(tw)
        ctx.feats["zero_constant_term"] = bool(abs(poly[0]) < 1e-12)
        for route, Y in ctx.unitary_routes(op, order, list(range(d))):
            ctx.compare(Y[:d, :], E, route, what="block", tol=1e-5, cls="zero-constant-term" if abs(poly[0]) < 1e-12 else None)
        ctx.feats["zero_constant_term"] = bool(abs(poly[0]) < 1e-12)
        ctx.labels.append(f"GQSP:deg={len(poly) - 1}")
        return len(poly) >= 2


@template("BlockEncode")
class _BlockEncode:
    @staticmethod
    @st.composite
    def gen(draw, N):
        pool = draw(_pool())
        r, c = draw(st.integers(1, 4)), draw(st.integers(1, 4))
        cplx = draw(st.booleans())
        vals = [[draw(_f), draw(_f) if cplx else 0.0] for _ in range(r * c)]
        nmin = max(1, ceil(log2(r + c)))
        n = nmin + draw(st.sampled_from([0, 0, 1]))
        return {"t": "BlockEncode", "w": pool[:n], "shape": [r, c], "vals": vals, "scale": draw(st.sampled_from([0.3, 1.0, 2.5]))}

    @staticmethod
    def check(ctx, spec):
        import pennylane as qp
        from scipy.linalg import sqrtm

        w = [_w(x) for x in spec["w"]]
        r, c = spec["shape"]
        A = spec["scale"] * np.array([complex(a, b) for a, b in spec["vals"]]).reshape(r, c)
        if np.allclose(A.imag, 0):
            A = A.real
        op = ctx.guarded(lambda: qp.BlockEncode(A, wires=w), "constructor")
        Ah = np.asarray(A, dtype=complex)
        norm = max(np.linalg.norm(Ah @ Ah.conj().T, np.inf), np.linalg.norm(Ah.conj().T @ Ah, np.inf))   # documented normalisation
        An = Ah / max(norm, 1.0)
        if np.linalg.norm(An, 2) > 1 - 1e-6:
            raise Reject("operator norm of the (normalised) matrix is not below one: block encoding undefined / ill conditioned")
        D = 2 ** len(w)
        E = np.eye(D, dtype=complex)
        E[:r, :c] = An
        E[:r, c:c + r] = sqrtm(np.eye(r) - An @ An.conj().T)
        E[r:r + c, :c] = sqrtm(np.eye(c) - An.conj().T @ An)
        E[r:r + c, c:c + r] = -An.conj().T
        ctx.feats.update(shape=f"{r}x{c}", normalised=bool(norm > 1))
        M = ctx.guarded(lambda: qp.matrix(op, wire_order=w), "matrix")
        ctx.compare(M, E, "matrix", cls="1x1-normalised" if (r, c) == (1, 1) and norm > 1 else None)
        ctx.labels += [f"BlockEncode:{'square' if r == c else 'rectangular'}", f"BlockEncode:{'normalised' if norm > 1 else 'as-is'}"]
        return np.abs(A).max() > 1e-3


@template("FABLE")
class _FABLE:
    @staticmethod
    @st.composite
    def gen(draw, N):
        pool = draw(_pool())
        n = draw(st.integers(1, 2))
        vals = [draw(st.one_of(_f, st.sampled_from([0.0, 1.0, -1.0, 0.5]))) for _ in range(4**n)]
        return {"t": "FABLE", "w": pool[:2 * n + 1], "n": n, "vals": vals}

    @staticmethod
    def check(ctx, spec):
        import pennylane as qp

        w = [_w(x) for x in spec["w"]]
        n = spec["n"]
        A = np.array(spec["vals"], dtype=float).reshape(2**n, 2**n)
        op = ctx.guarded(lambda: qp.FABLE(A, wires=w, tol=0), "constructor")
        d = 2**n
        for route, Y in ctx.unitary_routes(op, w, list(range(d))):
            ctx.compare(d * Y[:d, :], A, route, what="block")
        ctx.labels.append(f"FABLE:n={n}")
        return np.abs(A).max() > 1e-3


@template("CommutingEvolution")
class _CommEvo:
    @staticmethod
    @st.composite
    def gen(draw, N):
        pool = draw(_pool())
        n = draw(st.integers(1, min(N, 3)))
        terms = draw(_pauli_ham(pool[:n], 1, 4, commuting=True, allow_identity=True))
        return {"t": "CommutingEvolution", "hw": pool[:n], "terms": terms, "time": draw(_ang), "as": draw(st.sampled_from(["Hamiltonian", "dot"]))}

    @staticmethod
    def check(ctx, spec):
        import pennylane as qp

        hw = [_w(x) for x in spec["hw"]]
        terms = spec["terms"]
        coeffs, words = [c for c, _ in terms], [pl_word(wd, hw) for _, wd in terms]
        H = qp.Hamiltonian(coeffs, words) if spec["as"] == "Hamiltonian" else qp.dot(coeffs, words)
        op = ctx.guarded(lambda: qp.CommutingEvolution(H, spec["time"]), "constructor")
        order = list(op.wires)
        Href = ref_ham(terms, hw, order)
        for c1, w1 in terms:
            for c2, w2 in terms:
                A, B = ref_word(w1, hw, order), ref_word(w2, hw, order)
                if np.abs(A @ B - B @ A).max() > 1e-12:
                    raise RuntimeError("generator produced non-commuting words")
        E = expm_h(Href, -1j * spec["time"])
        has_identity = any(set(wd) == {"I"} for _, wd in terms)     # c * I only contributes the global phase exp(-i c t)
        for route, Y in ctx.unitary_routes(op, order):
            ctx.compare(Y, E, route, phase_free=has_identity)
        ctx.labels.append(f"CommutingEvolution:terms={len(terms)}" + (":identity-term(phase-free)" if has_identity else ""))
        return len(terms) >= 2 and abs(spec["time"]) > 1e-6


def _suzuki(ops_exp, order, t):
    """documented recursion: ops_exp(j, s) = exp(i s O_j); returns S_order(t) as a matrix"""
    N = ops_exp("n")
    if order == 1:
        M = np.eye(ops_exp("dim"), dtype=complex)
        for j in range(N):
            M = M @ ops_exp(j, t)
        return M
    if order == 2:
        M = np.eye(ops_exp("dim"), dtype=complex)
        for j in range(N):
            M = M @ ops_exp(j, t / 2)
        for j in reversed(range(N)):
            M = M @ ops_exp(j, t / 2)
        return M
    p = 1 / (4 - 4 ** (1 / (order - 1)))
    A = _suzuki(ops_exp, order - 2, p * t)
    B = _suzuki(ops_exp, order - 2, (1 - 4 * p) * t)
    return A @ A @ B @ A @ A


@template("TrotterProduct")
class _Trotter:
    @staticmethod
    @st.composite
    def gen(draw, N):
        pool = draw(_pool())
        n = draw(st.integers(1, min(N, 3)))
        commuting = draw(st.sampled_from([False, False, True]))
        terms = draw(_pauli_ham(pool[:n], 2, 4, commuting=commuting))
        grouped = len(terms) >= 3 and draw(st.booleans())
        return {"t": "TrotterProduct", "hw": pool[:n], "terms": terms, "time": draw(_ang), "n": draw(st.integers(1, 3)),
                "order": draw(st.sampled_from([1, 2, 2, 4])), "grouped": grouped, "as": draw(st.sampled_from(["dot", "lc", "sum"]))}

    @staticmethod
    def check(ctx, spec):
        import pennylane as qp

        hw = [_w(x) for x in spec["hw"]]
        terms = spec["terms"]
        coeffs, words = [c for c, _ in terms], [pl_word(wd, hw) for _, wd in terms]
        if spec["grouped"]:
            H = qp.sum(qp.dot(coeffs[:2], words[:2]), qp.dot(coeffs[2:], words[2:])) if len(terms) > 3 else \
                qp.sum(qp.dot(coeffs[:2], words[:2]), qp.s_prod(coeffs[2], words[2]))
            groups = [terms[:2], terms[2:]]
        else:
            H = {"dot": lambda: qp.dot(coeffs, words), "lc": lambda: qp.ops.LinearCombination(coeffs, words),
                 "sum": lambda: qp.sum(*[qp.s_prod(c, o) for c, o in zip(coeffs, words)])}[spec["as"]]()
            groups = [[tm] for tm in terms]
        op = ctx.guarded(lambda: qp.TrotterProduct(H, spec["time"], n=spec["n"], order=spec["order"]), "constructor")
        order = list(op.wires)
        mats = [ref_ham(g, hw, order) for g in groups]

        def ops_exp(j, s=None):
            if j == "n":
                return len(mats)
            if j == "dim":
                return 2 ** len(order)
            return expm_h(mats[j], 1j * s)
        E = np.linalg.matrix_power(_suzuki(ops_exp, spec["order"], spec["time"] / spec["n"]), spec["n"])
        for route, Y in ctx.unitary_routes(op, order):
            ctx.compare(Y, E, route)
        Hfull = sum(mats)
        exact = expm_h(Hfull, 1j * spec["time"])
        comm = all(np.abs(a @ b - b @ a).max() < 1e-12 for a in mats for b in mats)
        if comm and np.abs(E - exact).max() > 1e-9:
            raise RuntimeError("reference: product formula must be exact for commuting terms")
        ctx.labels += [f"TrotterProduct:order={spec['order']}", f"TrotterProduct:{'commuting' if comm else 'non-commuting'}",
                       f"TrotterProduct:{'grouped' if spec['grouped'] else spec['as']}"]
        return not comm and abs(spec["time"]) > 1e-6


@template("ApproxTimeEvolution")
class _ATE:
    @staticmethod
    @st.composite
    def gen(draw, N):
        pool = draw(_pool())
        n = draw(st.integers(1, min(N, 3)))
        commuting = draw(st.sampled_from([False, False, True]))
        terms = draw(_pauli_ham(pool[:n], 1, 4, commuting=commuting, allow_identity=True))
        return {"t": "ApproxTimeEvolution", "hw": pool[:n], "terms": terms, "time": draw(_ang), "n": draw(st.integers(1, 3)),
                "as": draw(st.sampled_from(["Hamiltonian", "dot"]))}

    @staticmethod
    def check(ctx, spec):
        import pennylane as qp

        hw = [_w(x) for x in spec["hw"]]
        terms = spec["terms"]
        coeffs, words = [c for c, _ in terms], [pl_word(wd, hw) for _, wd in terms]
        H = qp.Hamiltonian(coeffs, words) if spec["as"] == "Hamiltonian" else qp.dot(coeffs, words)
        op = ctx.guarded(lambda: qp.ApproxTimeEvolution(H, spec["time"], spec["n"]), "constructor")
        order = list(op.wires)
        mats = [c * ref_word(wd, hw, order) for c, wd in terms]
        # documented: U ~ prod_{k=1..n} prod_j exp(-i H_j t / n), the first term of the Hamiltonian applied first
        # (= adjoint of the first-order TrotterProduct, as the docstring states)
        step = np.eye(2 ** len(order), dtype=complex)
        for Hj in mats:
            step = expm_h(Hj, -1j * spec["time"] / spec["n"]) @ step
        E = np.linalg.matrix_power(step, spec["n"])
        comm = all(np.abs(a @ b - b @ a).max() < 1e-12 for a in mats for b in mats)
        if comm and np.abs(E - expm_h(sum(mats), -1j * spec["time"])).max() > 1e-9:
            raise RuntimeError("reference: exact for commuting terms")
        has_identity = any(set(wd) == {"I"} for _, wd in terms)     # c * I only contributes the global phase exp(-i c t)
        if has_identity:
            ctx.labels.append("ApproxTimeEvolution:identity-term(phase-free)")
        for route, Y in ctx.unitary_routes(op, order):
            ctx.compare(Y, E, route, phase_free=has_identity)
        ctx.labels += [f"ApproxTimeEvolution:{'commuting' if comm else 'non-commuting'}", f"ApproxTimeEvolution:n={spec['n']}"]
        return len(terms) >= 2 and abs(spec["time"]) > 1e-6


NAMES = list(REG)


def _case(name, N):
    return REG[name].gen(N)


def strategy(tier):
    N = 3 if tier == "quick" else 4
    return st.sampled_from(NAMES).flatmap(lambda n: _case(n, N))


def enumerate_cases(tier):
    for n in (1, 2, 3, 4):
        yield {"t": "QFT", "w": list(range(n))}
    for n in (2, 3, 4):
        for o in range(n + 1):
            yield {"t": "AQFT", "w": list(range(n)), "order": o}
    for n in (1, 2, 3):
        for v in range(2**n):
            yield {"t": "FlipSign", "w": list(range(n)), "n": v, "as": "int"}
    for n in (2, 3, 4):
        yield {"t": "GroverOperator", "w": list(range(n)), "ww": []}


def check(spec):
    ctx = Ctx(spec)
    nontrivial = REG[spec["t"]].check(ctx, spec)
    return Result(bool(nontrivial), ctx.labels)


def selftest():
    F.selftest()
    assert np.allclose(dft(1), G.H)
    a = _qpe_amps(3 / 8, 3)
    assert abs(a[3] - 1) < 1e-12 and abs(np.linalg.norm(a) - 1) < 1e-12
    assert abs(np.linalg.norm(_qpe_amps(0.3, 3)) - 1) < 1e-12
    # Suzuki recursion: exact for commuting matrices, 2nd order error ~ t^3
    X, Z = G.X, G.Z

    def ops_exp(j, s=None):
        if j == "n":
            return 2
        if j == "dim":
            return 2
        return expm_h([X, Z][j], 1j * s)
    ex = expm_h(X + Z, 1j * 0.1)
    e1 = np.abs(_suzuki(ops_exp, 1, 0.1) - ex).max()
    e2 = np.abs(_suzuki(ops_exp, 2, 0.1) - ex).max()
    e4 = np.abs(_suzuki(ops_exp, 4, 0.1) - ex).max()
    assert e1 > e2 > e4 and e4 < 1e-6
    # YLC: lam = 1 -> success probability 1 - delta^2 T_L(0)^2 >= p_min; and P >= p_min above the width
    assert _ylc_success(0.5, 5, np.sqrt(0.1)) >= 0.9 - 1e-12
